/* Positive example for zero-expected rules: must be reported on every run. */
#include <stdlib.h>
#include <string.h>

static int callCounter = 0;              /* written static */
static char scratch[16];                 /* written static buffer */
static const char * const placeholder = "X";   /* const at every level: fine */

struct Range { const char * first; const char * afterLast; };

int pos_bump(void) {
	callCounter++;
	return callCounter;
}

const char * pos_scratch(const char * in) {
	static int localStatic;              /* function-local static, written */
	localStatic = (int)strlen(in);
	memcpy(scratch, in, localStatic < 15 ? localStatic : 15);
	return scratch;
}

/* read-only input written through a cast */
void pos_write_input(const struct Range * r) {
	char * p = (char *)r->first;
	p[0] = 'x';
}

/* direct libc allocation outside the default manager */
void * pos_direct_alloc(size_t n) {
	return malloc(n);
}

const char * pos_placeholder(void) { return placeholder; }
