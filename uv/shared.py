"""Rules shared by several property checks."""
import os

from .frontend import fmt_loc, AnalysisBroken, VERIF, load_extra
from .effects import EffectEngine, fmt_obj
from .ir import IRProgram, call_target, manager_call, strip_casts
from .tables import IN_PARAMS, ALLOWED_EXTERNALS, base_name


def effects(ctx):
    """whole-program effect summaries (every function, empty context, plus requested contexts)"""
    if getattr(ctx, '_effects', None) is None:
        eng = EffectEngine(ctx.irp)
        eng.solve([(n, ()) for n in sorted(ctx.irp.funcs)])
        ctx._effects = eng
    return ctx._effects


def fully_const(ty):
    """const at every level of a declarator type string such as 'const char *const'"""
    if ty is None:
        return False
    parts = ty.split('*')
    for p in parts:
        if 'const' not in p.split('[')[0]:
            return False
    return True


def static_objects(prog):
    """every object with static storage duration defined in the library units"""
    out = []
    for g in prog.globals:
        if g.c or g.x.get('storage') != 'extern':     # definition (has initialiser or is not extern)
            out.append(('file', g.v, g.ty, g.loc, g.x['unit']))
    for name, fn in prog.funcs.items():
        for n in fn.walk():
            if n.k == 'var' and n.x.get('storage') == 'static':
                out.append(('local:' + name, n.v, n.ty, n.loc, fn.x.get('unit')))
    return out


def all_effects_on_root(eng, root):
    hits = []
    for (fname, cx), s in eng.summaries.items():
        for e in s.effects.values():
            if e.obj[0] == root:
                hits.append((fname, cx, e))
    return hits


def rule_census(ctx, chk, eng, prog=None, rule='census'):
    prog = prog or ctx.prog
    chk.rule(rule, 'every object with static storage duration is const at every level, or is never written: no '
             'may-write/may-free effect of any function in any analysed context is rooted at it', floor=7)
    objs = static_objects(prog)
    # de-duplicate the same definition seen in several units
    seen = set()
    for scope, name, ty, loc, unit in objs:
        k = (scope, name, loc[0], loc[1])
        if k in seen:
            continue
        seen.add(k)
        root = 'G:' + name
        hits = [(f, cx, e) for (f, cx, e) in all_effects_on_root(eng, root) if len(e.obj[1]) == 0 or e.obj[1][0] != '*'
                or not fully_const(ty)]
        # effects on the object itself (steps not starting with '*') are writes to the static;
        # effects behind a '*' are writes to what a static pointer points to.
        direct = [(f, cx, e) for (f, cx, e) in hits if not e.obj[1] or e.obj[1][0] != '*']
        local_static_written = False
        if scope.startswith('local:'):
            # function-local statics are not locals of the IR (dropped); any assignment names them as G:
            pass
        if fully_const(ty):
            if direct:
                f, cx, e = direct[0]
                chk.bad(rule, 'static:%s' % name, e.loc, 'const static %s is written in %s' % (name, f), func=f)
            else:
                chk.ok(rule, 'static:%s' % name, loc, 'const at every level (%s)' % ty)
        else:
            if hits:
                f, cx, e = hits[0]
                chk.bad(rule, 'static:%s' % name, e.loc,
                        'non-const static %s (%s) may be %s in %s [%s]' % (name, ty, 'written' if e.kind == 'w' else 'freed',
                                                                           f, fmt_obj(e.obj)), func=f)
            else:
                chk.ok(rule, 'static:%s' % name, loc, 'not const (%s) but no effect in %d summaries is rooted at it'
                       % (ty, len(eng.summaries)))


def in_positions(prog, fname, decl):
    params = [c for c in decl.c if c.k == 'parm']
    pos = set(IN_PARAMS.get(base_name(fname), []))
    for i, c in enumerate(params):
        t = c.ty or ''
        if t.startswith('const ') and t.count('*') == 1:
            pos.add(i)
    return sorted(pos), params


def rule_readonly_inputs(ctx, chk, eng, pid, rule='readonly-input'):
    prog, irp = ctx.prog, ctx.irp
    chk.rule(rule, 'for every public function, every read-only input parameter (pointer-to-const in the public header or '
             'listed in the baseline table) has an empty may-write and may-free summary at every depth; effects on text '
             'reached through an output URI whose owner flag is tested true are attributed to that URI (ownership typing, '
             'C12) and not to the input they may alias', floor=80)
    pub = prog.public_functions()
    n = 0
    for fname in sorted(pub):
        if fname not in irp.funcs:
            continue
        f = irp.funcs[fname]
        pos, params = in_positions(prog, fname, prog.funcs[fname])
        s = eng.summary(fname)
        for i in pos:
            if i >= len(f.params):
                raise AnalysisBroken('IN table position %d out of range for %s' % (i, fname))
            p = f.params[i]
            root = 'P:' + p
            bad = []
            for e in s.effects.values():
                if e.obj[0] != root:
                    continue
                own = [t[1][0] for t in e.guarded if isinstance(t, tuple)]
                if (own and all(t != root for t in own)) or (not own and 'donemask' in e.guarded):
                    # guarded by the owner flag (or the duplicated-components mask) of a different (output) URI
                    other = own[0] if own else 'L:'
                    if other.startswith('P:'):
                        oi = f.params.index(other[2:]) if other[2:] in f.params else -1
                        if oi >= 0 and oi not in pos:
                            continue
                    elif other.startswith('L:'):
                        continue
                bad.append(e)
            key = '%s/param%d' % (base_name(fname), i)
            if bad:
                e = bad[0]
                chk.bad(rule, key, e.loc, '%s: read-only input `%s` may be %s: %s in %s%s (%d effects)'
                        % (fname, p, 'written' if e.kind == 'w' else 'freed', fmt_obj(e.obj), e.func,
                           (' via ' + e.via) if e.via else '', len(bad)), func=fname)
            else:
                chk.ok(rule, key, f.loc, '%s(%s): no effect rooted at the parameter' % (fname, p), func=fname)
            n += 1
    return n


def rule_externals(ctx, chk, rule='externals'):
    irp = ctx.irp
    chk.rule(rule, 'every external function called by the library is in the list of stateless / thread-safe libc functions',
             floor=5)
    seen = {}
    for name, f in irp.funcs.items():
        for b in f.blocks:
            for i in b.ins:
                if i.op != 'call':
                    continue
                t = call_target(i)
                if t is None or t in irp.funcs:
                    continue
                seen.setdefault(t, []).append((name, i.loc))
    for t, sites in sorted(seen.items()):
        if t in ALLOWED_EXTERNALS:
            chk.ok(rule, 'extern:%s' % t, sites[0][1], '%d call sites; %s' % (len(sites), ALLOWED_EXTERNALS[t]))
        else:
            chk.bad(rule, 'extern:%s' % t, sites[0][1], 'call of external function %s in %s is not in the allowed list'
                    % (t, sites[0][0]), func=sites[0][0])


def rule_default_manager_functions(ctx, chk, eng, rule='default-manager-stateless'):
    """functions installed in the default manager table do not touch the manager object"""
    prog, irp = ctx.prog, ctx.irp
    chk.rule(rule, 'the functions stored in the default manager table have no effect on their manager argument or on '
             'static storage', floor=5)
    dm = [g for g in prog.globals if g.v == 'defaultMemoryManager' and g.c]
    if not dm:
        raise AnalysisBroken('defaultMemoryManager definition not found')
    names = []
    for n in dm[0].walk():
        if n.k == 'ref' and n.x and n.x.get('dk') == 'FunctionDecl':
            names.append(n.v)
    for fn in names:
        s = eng.summary(fn)
        if s is None:
            raise AnalysisBroken('no summary for %s' % fn)
        bad = [e for e in s.effects.values() if e.obj[0].startswith('G:') or e.obj[0] == 'P:' + irp.funcs[fn].params[0]]
        if bad:
            chk.bad(rule, 'dm:%s' % fn, bad[0].loc, '%s touches %s' % (fn, fmt_obj(bad[0].obj)), func=fn)
        else:
            chk.ok(rule, 'dm:%s' % fn, irp.funcs[fn].loc, 'no effect on manager object or statics', func=fn)


_POS_CACHE = {}


def positive_program(ctx, name):
    if name not in _POS_CACHE:
        path = os.path.join(VERIF, 'positive', name + '.c')
        prog = load_extra(path)
        irp = IRProgram(prog)
        eng = EffectEngine(irp)
        eng.solve([(n, ()) for n in sorted(irp.funcs)])
        _POS_CACHE[name] = (prog, irp, eng)
    return _POS_CACHE[name]


def positive_examples(ctx, chk, names, rule='positive-example', want_alloc=False):
    """the zero-expected rules must fire on the tiny positive examples kept in /verif/positive"""
    from .report import Check
    chk.rule(rule, 'self-test: rules whose expected count on the library is zero are run on /verif/positive/*.c and must '
             'report the planted instance (a rule that cannot fire proves nothing)')
    for name in names:
        prog, irp, eng = positive_program(ctx, name)
        if name == 'static_written':
            tmp = Check('tmp')
            tmp.floors = {}

            class C2(object):
                pass
            c2 = C2()
            c2.prog, c2.irp = prog, irp
            rule_census(c2, tmp, eng, prog=prog, rule='census')
            bad = sorted(o.key for o in tmp.obls if not o.ok)
            want = ['static:callCounter', 'static:localStatic', 'static:scratch']
            good = sorted(o.key for o in tmp.obls if o.ok)
            if bad == want and 'static:placeholder' in good:
                chk.ok(rule, 'positive:census', None, 'census reported %s and accepted the const placeholder' % bad)
            else:
                raise AnalysisBroken('positive example static_written: census reported %s, expected %s' % (bad, want))
            if want_alloc:
                from . import memrules
                tmp2 = Check('tmp')
                memrules.rule_who_may_call(c2, tmp2, eng, prog=prog, irp=irp)
                badk = [o.key for o in tmp2.obls if not o.ok]
                if badk == ['libc:malloc@pos_direct_alloc']:
                    chk.ok(rule, 'positive:who-may-call', None, 'direct malloc outside the default manager reported')
                else:
                    raise AnalysisBroken('positive example: direct allocator call not reported (%s)' % badk)
            # write through a read-only input
            s = eng.summary('pos_write_input')
            if any(e.obj[0] == 'P:r' for e in s.effects.values()):
                chk.ok(rule, 'positive:readonly', None, 'write through cast-away const input reported')
            else:
                raise AnalysisBroken('positive example: write through const input not detected')
