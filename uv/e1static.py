"""Static helper analyses for the E1 parser-automaton extraction: per-function liveness of
locals, deref-liveness of input pointers (which pointers may still be read through), tail
calls, fill counters of local arrays, interpreted-vs-summarised classification."""
from .ir import strip_casts, call_target, manager_call, is_tmp
from .frontend import AnalysisBroken


def is_charptr_type(t):
    if not t:
        return False
    t = ' '.join(t.replace('*', ' * ').replace('const', ' ').split())
    return t in ('char *', 'wchar_t *', 'URI_CHAR *')


def local_refs(e, out):
    if e is None:
        return out
    for n in e.walk():
        if n.k == 'ref' and n.x and (n.x.get('tmp') or n.x.get('dk') in ('VarDecl', 'ParmVarDecl', 'Tmp')):
            out.add(n.v)
    return out


def assigned_var(ins):
    """name of the local scalar variable wholly overwritten by this instruction, or None"""
    d = ins.dst
    if d is None:
        return None
    if d.k == 'ref' and d.x and (d.x.get('tmp') or d.x.get('dk') in ('VarDecl', 'ParmVarDecl', 'Tmp')):
        return d.v
    return None


class FuncInfo(object):
    def __init__(self, f):
        self.f = f
        self.byid = dict((b.id, b) for b in f.blocks)
        self.addr_taken = set()     # locals whose address is taken / arrays / structs: never dropped
        self.live = {}              # (block id, ins idx) -> frozenset of live names BEFORE that point
        self.dlive = {}             # same for deref-live char pointers
        self.tail = set()           # (block id, ins idx) of calls in tail position
        self.fill = {}              # array name -> counter name


def _uses(ins):
    s = set()
    if ins.op == 'assign':
        local_refs(ins.src, s)
        if assigned_var(ins) is None:
            local_refs(ins.dst, s)
    elif ins.op == 'call':
        local_refs(ins.src, s)
        for a in ins.args:
            local_refs(a, s)
    return s


def _term_uses(t):
    s = set()
    if t[0] == 'br':
        local_refs(t[1], s)
    elif t[0] == 'switch':
        local_refs(t[1], s)
    elif t[0] == 'ret' and t[1] is not None:
        local_refs(t[1], s)
    return s


def compute_liveness(fi):
    f = fi.f
    # address-taken / aggregate locals
    for name, ty in list(f.locals.items()) + list(f.param_types.items()):
        if ty and ('[' in ty or (not ty.endswith('*') and ty.replace('const ', '').strip() not in
                                 ('int', 'unsigned int', 'char', 'wchar_t', 'unsigned char', 'UriBool', 'size_t', 'long',
                                  'unsigned long', 'short', 'unsigned short', 'signed char', 'ptrdiff_t')
                                 and not ty.endswith('*const') and '*' not in ty)):
            fi.addr_taken.add(name)
    for b in f.blocks:
        for ins in b.ins:
            for e in ([ins.src] if ins.src is not None else []) + (ins.args or []) + ([ins.dst] if ins.dst is not None else []):
                for n in e.walk():
                    if n.k == 'un' and n.v == '&':
                        local_refs(n.c[0], fi.addr_taken)
    live_in = dict((b.id, frozenset()) for b in f.blocks)
    changed = True
    while changed:
        changed = False
        for b in reversed(f.blocks):
            cur = set()
            for s in b.succs():
                cur |= live_in[s.id]
            cur |= _term_uses(b.term)
            for ins in reversed(b.ins):
                v = assigned_var(ins)
                if v is not None:
                    cur.discard(v)
                cur |= _uses(ins)
            fs = frozenset(cur)
            if fs != live_in[b.id]:
                live_in[b.id] = fs
                changed = True
    # per point
    for b in f.blocks:
        cur = set()
        for s in b.succs():
            cur |= live_in[s.id]
        cur |= _term_uses(b.term)
        fi.live[(b.id, len(b.ins))] = frozenset(cur)
        for idx in range(len(b.ins) - 1, -1, -1):
            ins = b.ins[idx]
            v = assigned_var(ins)
            if v is not None:
                cur.discard(v)
            cur |= _uses(ins)
            fi.live[(b.id, idx)] = frozenset(cur)


def _deref_bases(e, out):
    """local names occurring in the pointer operand of a dereference / subscript / arrow in e"""
    if e is None:
        return
    for n in e.walk():
        if (n.k == 'un' and n.v == '*') or n.k == 'index' or (n.k == 'member' and n.x and n.x.get('arrow')):
            local_refs(n.c[0], out)


def compute_tail_calls(fi):
    f = fi.f
    for b in f.blocks:
        if not b.ins or b.term is None or b.term[0] != 'ret':
            continue
        ins = b.ins[-1]
        if ins.op != 'call' or ins.dst is None:
            continue
        r = strip_casts(b.term[1]) if b.term[1] is not None else None
        if r is not None and r.k == 'ref' and r.v == ins.dst.v:
            fi.tail.add((b.id, len(b.ins) - 1))


def compute_fill_counters(fi):
    """array local A whose every element store is A[c] with one scalar local c (possibly c++)"""
    f = fi.f
    cand = {}
    bad = set()
    for b in f.blocks:
        for ins in b.ins:
            if ins.op != 'assign' or ins.dst is None or ins.dst.k != 'index':
                continue
            base = strip_casts(ins.dst.c[0])
            idx = strip_casts(ins.dst.c[1])
            if base is None or base.k != 'ref':
                continue
            a = base.v
            if idx is not None and idx.k == 'ref' and not (idx.x and idx.x.get('tmp')):
                c = idx.v
            elif idx is not None and idx.k == 'ref':
                # tmp holding the old value of c++ : find its definition in the same block
                c = None
                for j in b.ins:
                    if j.op == 'assign' and assigned_var(j) == idx.v:
                        s = strip_casts(j.src)
                        if s is not None and s.k == 'ref':
                            c = s.v
                if c is None:
                    bad.add(a)
                    continue
            else:
                bad.add(a)
                continue
            if a in cand and cand[a] != c:
                bad.add(a)
            cand[a] = c
    for a, c in cand.items():
        if a not in bad:
            fi.fill[a] = c


class E1Static(object):
    """whole-program tables for the set of interpreted functions"""

    def __init__(self, irp, interpreted):
        self.irp = irp
        self.info = {}
        for name in interpreted:
            f = irp.funcs.get(name)
            if f is None:
                raise AnalysisBroken('E1: function %s not found' % name)
            fi = FuncInfo(f)
            compute_liveness(fi)
            compute_tail_calls(fi)
            compute_fill_counters(fi)
            self.info[name] = fi
        self._deref_liveness()

    def _deref_liveness(self):
        """fixpoint: derefparam[f] = indices of char-pointer params deref-live at entry"""
        derefparam = dict((n, set()) for n in self.info)
        changed = True
        rounds = 0
        while changed:
            rounds += 1
            changed = False
            for name, fi in self.info.items():
                f = fi.f
                cp = set(n for n, t in list(f.locals.items()) + list(f.param_types.items()) if is_charptr_type(t))
                live_in = dict((b.id, frozenset()) for b in f.blocks)
                ch2 = True
                while ch2:
                    ch2 = False
                    for b in reversed(f.blocks):
                        cur = set()
                        for s in b.succs():
                            cur |= live_in[s.id]
                        cur = self._dl_block(fi, b, cur, cp, derefparam, None)
                        fs = frozenset(cur)
                        if fs != live_in[b.id]:
                            live_in[b.id] = fs
                            ch2 = True
                for b in f.blocks:
                    cur = set()
                    for s in b.succs():
                        cur |= live_in[s.id]
                    self._dl_block(fi, b, cur, cp, derefparam, fi.dlive)
                ent = live_in[f.entry.id]
                dp = set(i for i, p in enumerate(f.params) if p in ent)
                if dp != derefparam[name]:
                    derefparam[name] = dp
                    changed = True
            if rounds > 50:
                raise AnalysisBroken('E1: deref-liveness did not converge')
        self.derefparam = derefparam

    def _dl_block(self, fi, b, cur, cp, derefparam, record):
        t = b.term
        g = set()
        if t[0] in ('br', 'switch'):
            _deref_bases(t[1], g)
        elif t[0] == 'ret' and t[1] is not None:
            local_refs(t[1], g)          # a returned pointer is read through by the caller
            _deref_bases(t[1], g)
        cur |= (g & cp)
        if record is not None:
            record[(b.id, len(b.ins))] = frozenset(cur)
        for idx in range(len(b.ins) - 1, -1, -1):
            ins = b.ins[idx]
            g = set()
            v = assigned_var(ins)
            if ins.op == 'assign':
                _deref_bases(ins.src, g)
                _deref_bases(ins.dst, g)
                if v is not None and v in cur:
                    local_refs(ins.src, g)       # copy: source inherits deref-liveness
            elif ins.op == 'call':
                _deref_bases(ins.src, g)
                tname = call_target(ins)
                for j, a in enumerate(ins.args):
                    _deref_bases(a, g)
                    if tname in derefparam:
                        if j in derefparam[tname]:
                            local_refs(a, g)
                    elif manager_call(ins) is None:
                        local_refs(a, g)         # unknown / summarised callee may read through it
            if v is not None:
                cur.discard(v)
            cur |= (g & cp)
            if record is not None:
                record[(b.id, idx)] = frozenset(cur)
        return cur
