"""Front end: compile commands -> clang JSON AST -> reduced tree (class N) per unit.

Everything is recomputed from /repo's working tree; the reduced trees are cached under
/verif/.cache keyed by the SHA-256 of every input file and of the flags, so a cached tree
can never be stale.
"""
import hashlib
import json
import os
import pickle
import re
import shutil
import subprocess
import sys
import tempfile
import time
from concurrent.futures import ProcessPoolExecutor

REPO = os.environ.get('VERIF_REPO', '/repo')
VERIF = os.path.dirname(os.path.dirname(os.path.abspath(__file__)))
CACHE = os.path.join(VERIF, '.cache')
FRONTEND_VERSION = '10'


class AnalysisBroken(Exception):
    """exit 2: anchor vanished, unsupported construct, floor missed, unit unparsed."""


class N(object):
    """Reduced AST node. k kind, v main attribute (operator / name / value),
    ty type string, loc (file, line, col), c children, x extras."""
    __slots__ = ('k', 'v', 'ty', 'loc', 'c', 'x')

    def __init__(self, k, v=None, ty=None, loc=None, c=None, x=None):
        self.k = k
        self.v = v
        self.ty = ty
        self.loc = loc
        self.c = c if c is not None else []
        self.x = x

    def __repr__(self):
        return 'N(%s,%r,%d)' % (self.k, self.v, len(self.c))

    def walk(self):
        st = [self]
        while st:
            n = st.pop()
            if n is None:
                continue
            yield n
            st.extend(reversed(n.c))

    def get(self, key, default=None):
        return self.x.get(key, default) if self.x else default


def fmt_loc(loc):
    if not loc:
        return '?'
    f = loc[0] or '?'
    if f.startswith(REPO + '/'):
        f = f[len(REPO) + 1:]
    return '%s:%s' % (f, loc[1])


# --------------------------------------------------------------------------------------
# compile commands

def library_units():
    """Units of the library as listed in CMakeLists.txt (parsed on every run)."""
    path = os.path.join(REPO, 'CMakeLists.txt')
    try:
        txt = open(path).read()
    except OSError as e:
        raise AnalysisBroken('cannot read CMakeLists.txt: %s' % e)
    m = re.search(r'set\(\s*LIBRARY_CODE_FILES(.*?)\)', txt, re.S)
    if not m:
        raise AnalysisBroken('LIBRARY_CODE_FILES not found in CMakeLists.txt')
    units = []
    for line in m.group(1).splitlines():
        line = line.strip()
        mm = re.match(r'\$\{CMAKE_CURRENT_SOURCE_DIR\}/(src/\S+\.c)$', line)
        if mm:
            units.append(mm.group(1))
    if len(units) < 15:
        raise AnalysisBroken('only %d library units found in CMakeLists.txt' % len(units))
    return units


FALLBACK_FLAGS = ['-DURI_LIBRARY_BUILD', '-DURI_VISIBILITY', '-Duriparser_EXPORTS',
                  '-I' + REPO + '/include', '-I' + REPO + '/_build', '-DNDEBUG']


def _config_dir(scratch):
    """Directory holding UriConfig.h: the build dir if present, else synthesised."""
    b = os.path.join(REPO, '_build', 'UriConfig.h')
    if os.path.exists(b):
        return os.path.join(REPO, '_build')
    src = os.path.join(REPO, 'src', 'UriConfig.h.in')
    txt = open(src).read()
    txt = re.sub(r'#cmakedefine\s+(\w+)', r'#define \1', txt)
    txt = txt.replace('@PROJECT_VERSION@', '0.0.0')
    d = os.path.join(scratch, 'cfg')
    os.makedirs(d, exist_ok=True)
    open(os.path.join(d, 'UriConfig.h'), 'w').write(txt)
    return d


def compile_flags(scratch):
    """Preprocessor-relevant flags of the real build (from build.ninja when present)."""
    flags = None
    bn = os.path.join(REPO, '_build', 'build.ninja')
    if os.path.exists(bn) and shutil.which('ninja'):
        try:
            out = subprocess.run(['ninja', '-C', os.path.join(REPO, '_build'), '-t', 'compdb'],
                                 capture_output=True, text=True, timeout=60).stdout
            db = json.loads(out)
            for e in db:
                if '/src/Uri' in e.get('file', '') and 'uriparser.dir' in e.get('output', ''):
                    toks = e['command'].split()
                    flags = [t for t in toks if t.startswith('-D') or t.startswith('-I') or t.startswith('-U')
                             or t.startswith('-std')]
                    break
        except Exception:
            flags = None
    if flags is None:
        flags = list(FALLBACK_FLAGS)
    cfg = _config_dir(scratch)
    flags = [f for f in flags if f != '-I' + REPO + '/_build'] + ['-I' + cfg]
    return flags


def input_hash(flags, extra=''):
    h = hashlib.sha256()
    h.update(FRONTEND_VERSION.encode())
    h.update(extra.encode())
    h.update(' '.join(flags).encode())
    files = []
    for d in ('src', 'include/uriparser'):
        full = os.path.join(REPO, d)
        for fn in sorted(os.listdir(full)):
            if fn.endswith(('.c', '.h', '.in')):
                files.append(os.path.join(full, fn))
    files.append(os.path.join(REPO, 'CMakeLists.txt'))
    for i in flags:
        if i.startswith('-I'):
            p = os.path.join(i[2:], 'UriConfig.h')
            if os.path.exists(p):
                files.append(p)
    for f in files:
        h.update(f.encode())
        try:
            h.update(open(f, 'rb').read())
        except OSError:
            h.update(b'<missing>')
    return h.hexdigest()


# --------------------------------------------------------------------------------------
# clang JSON -> N

class _LocDecoder(object):
    def __init__(self):
        self.file = None
        self.line = None

    def bare(self, d):
        if 'file' in d:
            self.file = d['file']
        if 'line' in d:
            self.line = d['line']
        return (self.file, self.line, d.get('col'))

    def loc(self, d):
        """decode a location object; returns the expansion location"""
        if not d:
            return None
        if 'spellingLoc' in d or 'expansionLoc' in d:
            r = None
            macro = False
            # key order = print order
            for k, v in d.items():
                if k == 'spellingLoc':
                    self.bare(v)
                    macro = True
                elif k == 'expansionLoc':
                    r = self.bare(v)
            return (r[0], r[1], r[2], True) if r else None
        if 'offset' in d or 'line' in d or 'col' in d or 'file' in d:
            return self.bare(d)
        return None


_ASSIGN_OPS = {'=', '+=', '-=', '*=', '/=', '%=', '<<=', '>>=', '&=', '|=', '^='}
_DROP_KINDS = {'FullComment', 'ParagraphComment', 'TextComment', 'BlockCommandComment',
               'ParamCommandComment', 'InlineCommandComment', 'HTMLStartTagComment',
               'HTMLEndTagComment', 'VerbatimLineComment', 'VerbatimBlockComment',
               'VerbatimBlockLineComment'}
_ATTR_RE = re.compile(r'Attr$')


def _mentions(d, name):
    if isinstance(d, dict):
        rd = d.get('referencedDecl')
        if isinstance(rd, dict) and rd.get('name') == name:
            return True
        for c in d.get('inner', []) or []:
            if _mentions(c, name):
                return True
    return False


def _qt(d):
    t = d.get('type')
    if not t:
        return None
    return t.get('qualType')


def _desugared(d):
    t = d.get('type')
    if not t:
        return None
    return t.get('desugaredQualType') or t.get('qualType')


class _Reducer(object):
    def __init__(self, unit):
        self.unit = unit
        self.ld = _LocDecoder()
        self.decls = {}       # id -> N of decl (functions, vars, params, enum constants, fields)

    def in_repo(self, loc):
        return bool(loc and loc[0] and loc[0].startswith(REPO + '/'))

    def node(self, d):
        """Convert one JSON node (and decode its locations in print order)."""
        kind = d.get('kind')
        loc = None
        rbegin = None
        # decode in key order
        for k, v in d.items():
            if k == 'loc':
                loc = self.ld.loc(v)
            elif k == 'range':
                for kk, vv in v.items():
                    r = self.ld.loc(vv)
                    if kk == 'begin':
                        rbegin = r
            elif k == 'inner':
                break
        if loc is None or loc[0] is None:
            loc = rbegin
        if kind in _DROP_KINDS:
            # still need to walk children for location decoding
            for c in d.get('inner', []):
                self.node(c)
            return None
        inner = []
        for c in d.get('inner', []):
            if not isinstance(c, dict) or not c:
                inner.append(None)
                continue
            inner.append(self.node(c))
        return self.build(kind, d, loc, inner)

    def build(self, kind, d, loc, inner):
        ch = [c for c in inner if c is not None]
        ty = _qt(d)
        if kind is None:
            return None
        if _ATTR_RE.search(kind):
            return N('Attr', kind, None, loc)
        if kind == 'ParenExpr':
            return ch[0] if ch else None
        if kind == 'ConstantExpr':
            n = ch[0]
            if 'value' in d and n is not None:
                n.x = dict(n.x or {}, const=d['value'])
            return n
        if kind == 'ImplicitCastExpr' or kind == 'CStyleCastExpr':
            return N('cast', d.get('castKind'), ty, loc, ch[:1],
                     {'explicit': kind == 'CStyleCastExpr', 'dty': _desugared(d)})
        if kind == 'IntegerLiteral':
            return N('int', int(d['value']), ty, loc)
        if kind == 'CharacterLiteral':
            return N('int', int(d['value']), ty, loc, None, {'char': True})
        if kind == 'StringLiteral':
            return N('str', d.get('value'), ty, loc)
        if kind == 'DeclRefExpr':
            rd = d.get('referencedDecl', {})
            return N('ref', rd.get('name'), ty, loc, None,
                     {'id': rd.get('id'), 'dk': rd.get('kind'), 'dty': _desugared(d)})
        if kind == 'MemberExpr':
            return N('member', d.get('name'), ty, loc, ch[:1],
                     {'arrow': bool(d.get('isArrow')), 'dty': _desugared(d)})
        if kind == 'ArraySubscriptExpr':
            return N('index', None, ty, loc, ch[:2], {'dty': _desugared(d)})
        if kind == 'UnaryOperator':
            return N('un', d.get('opcode'), ty, loc, ch[:1],
                     {'postfix': bool(d.get('isPostfix')), 'dty': _desugared(d)})
        if kind == 'BinaryOperator':
            op = d.get('opcode')
            if op in _ASSIGN_OPS:
                return N('assign', op, ty, loc, ch[:2])
            return N('bin', op, ty, loc, ch[:2], {'dty': _desugared(d)})
        if kind == 'CompoundAssignOperator':
            return N('assign', d.get('opcode'), ty, loc, ch[:2])
        if kind == 'ConditionalOperator':
            return N('cond', None, ty, loc, ch[:3])
        if kind == 'CallExpr':
            return N('call', None, ty, loc, ch)
        if kind == 'UnaryExprOrTypeTraitExpr':
            at = d.get('argType', {})
            return N('sizeof', d.get('name'), ty, loc, ch[:1],
                     {'argType': at.get('qualType'), 'argDesugared': at.get('desugaredQualType') or at.get('qualType')})
        if kind == 'InitListExpr':
            return N('initlist', None, ty, loc, ch)
        if kind == 'ImplicitValueInitExpr':
            return N('int', 0, ty, loc, None, {'implicit': True})
        if kind == 'CompoundLiteralExpr':
            return N('compoundlit', None, ty, loc, ch)
        if kind == 'StmtExpr' and _mentions(d, '__assert_fail'):
            # glibc's assert(): `({ if (e) ; else __assert_fail(...); })`.  Analysed as in the NDEBUG build (no effect);
            # a build with assertions enabled differs only by aborting where the asserted condition is false.
            return N('int', 0, 'int', loc, None, {'assert': True})
        if kind == 'PredefinedExpr':
            return N('str', d.get('name') or '__func__', ty, loc)
        if kind == 'StmtExpr' or kind == 'PredefinedExpr' or kind == 'OffsetOfExpr' or kind == 'VAArgExpr':
            return N('unsupported_expr', kind, ty, loc, ch)
        # statements
        if kind == 'CompoundStmt':
            return N('block', None, None, loc, ch)
        if kind == 'IfStmt':
            # inner: cond, then, [else]
            els = bool(d.get('hasElse'))
            return N('if', None, None, loc, ch, {'else': els})
        if kind == 'WhileStmt':
            return N('while', None, None, loc, ch)
        if kind == 'DoStmt':
            return N('do', None, None, loc, ch)
        if kind == 'ForStmt':
            # inner has 5 slots: init, condvar, cond, inc, body (empty dicts for absent)
            return N('for', None, None, loc, inner[:5] if len(inner) >= 5 else inner)
        if kind == 'SwitchStmt':
            return N('switch', None, None, loc, ch)
        if kind == 'CaseStmt':
            return N('case', None, None, loc, ch)
        if kind == 'DefaultStmt':
            return N('default', None, None, loc, ch)
        if kind == 'BreakStmt':
            return N('break', None, None, loc)
        if kind == 'ContinueStmt':
            return N('continue', None, None, loc)
        if kind == 'ReturnStmt':
            return N('return', None, None, loc, ch)
        if kind == 'NullStmt':
            return N('null', None, None, loc)
        if kind == 'DeclStmt':
            return N('declstmt', None, None, loc, ch)
        if kind == 'GotoStmt':
            return N('goto', d.get('targetLabelDeclId'), None, loc)
        if kind == 'LabelStmt':
            return N('label', d.get('declId'), None, loc, ch, {'name': d.get('name')})
        # declarations
        if kind in ('VarDecl', 'ParmVarDecl'):
            n = N('var' if kind == 'VarDecl' else 'parm', d.get('name'), ty, loc, ch,
                  {'id': d.get('id'), 'storage': d.get('storageClass'), 'dty': _desugared(d),
                   'init': d.get('init'), 'used': d.get('isUsed', False)})
            self.decls[d.get('id')] = n
            return n
        if kind == 'FunctionDecl':
            params = [c for c in ch if c.k == 'parm']
            body = [c for c in ch if c.k == 'block']
            storage = d.get('storageClass')
            prevd = self.decls.get(d.get('previousDecl'))
            if storage is None and prevd is not None and prevd.x and prevd.x.get('storage') == 'static':
                storage = 'static'      # linkage is inherited from the earlier declaration (C11 6.2.2p5)
            n = N('func', d.get('name'), ty, loc, params + body,
                  {'id': d.get('id'), 'storage': storage, 'inline': d.get('inline', False),
                   'hasbody': bool(body), 'nparams': len(params), 'prev': d.get('previousDecl'),
                   'unit': self.unit})
            self.decls[d.get('id')] = n
            return n
        if kind == 'FieldDecl':
            return N('field', d.get('name'), ty, loc, None, {'dty': _desugared(d)})
        if kind == 'RecordDecl':
            return N('record', d.get('name'), None, loc, [c for c in ch if c.k in ('field', 'record')],
                     {'id': d.get('id'), 'tag': d.get('tagUsed'), 'complete': bool(d.get('completeDefinition'))})
        if kind == 'EnumConstantDecl':
            val = None
            for c in ch:
                if c.x and 'const' in c.x:
                    val = int(c.x['const'])
                elif c.k == 'int':
                    val = c.v
            n = N('enumconst', d.get('name'), ty, loc, ch, {'id': d.get('id'), 'value': val})
            self.decls[d.get('id')] = n
            return n
        if kind == 'EnumDecl':
            # fill implicit values
            nxt = 0
            for c in ch:
                if c.k == 'enumconst':
                    if c.x['value'] is None:
                        c.x['value'] = nxt
                    nxt = c.x['value'] + 1
            return N('enum', d.get('name'), None, loc, [c for c in ch if c.k == 'enumconst'], {'id': d.get('id')})
        if kind == 'TypedefDecl':
            under = None
            for c in d.get('inner', []):
                if isinstance(c, dict) and 'type' in c:
                    under = c['type'].get('qualType')
                    break
            return N('typedef', d.get('name'), ty, loc, None, {'under': under})
        if kind == 'TranslationUnitDecl':
            return N('tu', None, None, loc, ch)
        if kind.endswith('Type') or kind in ('QualType',):
            return None
        if kind in ('StaticAssertDecl', 'EmptyDecl'):
            return None
        if kind.endswith('Expr') or kind.endswith('Stmt') or kind.endswith('Operator'):
            return N('unsupported_expr', kind, ty, loc, ch)
        return N('other', kind, ty, loc, ch)


def _dump_and_reduce(args):
    unit, flags, scratch = args
    src = os.path.join(REPO, unit)
    out = os.path.join(scratch, os.path.basename(unit) + '.json')
    cmd = ['clang', '-fsyntax-only', '-Xclang', '-ast-dump=json', '-w'] + flags + [src]
    with open(out, 'w') as f:
        p = subprocess.run(cmd, stdout=f, stderr=subprocess.PIPE, text=True)
    if p.returncode != 0:
        return unit, None, 'clang failed on %s: %s' % (unit, p.stderr[-2000:])
    with open(out) as f:
        d = json.load(f)
    os.unlink(out)
    red = _Reducer(unit)
    # keep only top-level declarations located under REPO, but decode all locations
    keep = []
    for top in d.get('inner', []):
        n = red.node(top)
        if n is None:
            continue
        if red.in_repo(n.loc):
            keep.append(n)
    tu = N('tu', unit, None, None, keep)
    return unit, tu, None


def _preprocess_lines(args):
    """(file,line) set of /repo lines surviving preprocessing, for one compiler."""
    cc, unit, flags = args
    src = os.path.join(REPO, unit)
    p = subprocess.run([cc, '-E', '-w'] + flags + [src], capture_output=True, text=True)
    if p.returncode != 0:
        return unit, cc, None
    cur = None
    line = 0
    seen = set()
    for l in p.stdout.splitlines():
        if l.startswith('# '):
            m = re.match(r'# (\d+) "([^"]*)"', l)
            if m:
                line = int(m.group(1))
                cur = m.group(2)
            continue
        if cur and cur.startswith(REPO + '/') and l.strip():
            seen.add((cur, line))
        line += 1
    return unit, cc, seen


def _macros(flags):
    """object-like macros of the public headers with integer values (error codes, flags)"""
    src = '#include <uriparser/Uri.h>\n#include <limits.h>\n'
    p = subprocess.run(['clang', '-dM', '-E', '-x', 'c', '-w'] + flags + ['-'], input=src, capture_output=True, text=True)
    out = {}
    if p.returncode != 0:
        raise AnalysisBroken('macro dump failed: %s' % p.stderr[-500:])
    raw = {}
    for l in p.stdout.splitlines():
        m = re.match(r'#define (\w+) (.+)$', l)
        if m:
            raw[m.group(1)] = m.group(2).strip()
    def ev(v, depth=0):
        v = v.strip()
        while v.startswith('(') and v.endswith(')'):
            v = v[1:-1].strip()
        m = re.match(r'^(-?\d+)[uUlL]*$', v)
        if m:
            return int(m.group(1))
        m = re.match(r'^(0[xX][0-9a-fA-F]+)[uUlL]*$', v)
        if m:
            return int(m.group(1), 16)
        m = re.match(r'^(\d+)\s*<<\s*(\d+)$', v)
        if m:
            return int(m.group(1)) << int(m.group(2))
        if v in raw and depth < 5:
            return ev(raw[v], depth + 1)
        return None
    for k, v in raw.items():
        if k.startswith('URI_') or k in ('INT_MAX',):
            x = ev(v)
            if x is not None:
                out[k] = x
    return out


class Program(object):
    """All reduced units plus indexes."""

    def __init__(self, units, flags, tus, meta):
        self.units = units
        self.flags = flags
        self.tus = tus                  # unit -> N('tu')
        self.meta = meta
        self.funcs = {}                 # name -> N('func') with body
        self.func_unit = {}
        self.decls = {}                 # name -> [N('func')] prototypes
        self.globals = []               # N('var') at file scope, with unit
        self.records = {}               # name -> N('record') complete
        self.enums = {}                 # constant name -> value
        self.typedefs = {}              # name -> underlying type string
        self._index()

    def _index(self):
        for unit, tu in self.tus.items():
            for n in tu.c:
                if n.k == 'func':
                    self.decls.setdefault(n.v, []).append(n)
                    if n.x['hasbody']:
                        if n.v in self.funcs and self.func_unit[n.v] != unit:
                            # static inline in header may repeat; keep first
                            continue
                        self.funcs[n.v] = n
                        self.func_unit[n.v] = unit
                elif n.k == 'var':
                    n.x['unit'] = unit
                    self.globals.append(n)
                elif n.k == 'record':
                    if n.x['complete'] and n.v:
                        self.records[n.v] = n
                elif n.k == 'enum':
                    for c in n.c:
                        self.enums[c.v] = c.x['value']
                elif n.k == 'typedef':
                    self.typedefs[n.v] = n.x['under']
                    # anonymous struct typedef'd: inner record precedes
        # typedef struct X {...} X; records named by struct tag. Map typedef -> record
        self.record_of_typedef = {}
        for name, under in self.typedefs.items():
            if under and under.startswith('struct '):
                tag = under[len('struct '):]
                if tag in self.records:
                    self.record_of_typedef[name] = self.records[tag]

    def record(self, tyname):
        """Find record by type string such as 'UriUriA', 'struct UriUriStructA', 'const UriUriA *'."""
        t = tyname.replace('const ', '').replace('*', '').strip()
        if t.startswith('struct '):
            return self.records.get(t[7:])
        if t in self.record_of_typedef:
            return self.record_of_typedef[t]
        u = self.typedefs.get(t)
        seen = set()
        while u and u not in seen:
            seen.add(u)
            if u.startswith('struct '):
                return self.records.get(u[7:])
            if u in self.record_of_typedef:
                return self.record_of_typedef[u]
            u = self.typedefs.get(u)
        return None

    def public_functions(self):
        """Names declared in include/uriparser/*.h."""
        out = {}
        for name, ds in self.decls.items():
            for d in ds:
                if d.loc and d.loc[0] and '/include/uriparser/' in d.loc[0]:
                    out[name] = d
        return out


def load_program(verbose=False, check_pp=True):
    t0 = time.time()
    os.makedirs(CACHE, exist_ok=True)
    scratch = tempfile.mkdtemp(prefix='uv_', dir=CACHE)
    try:
        units = library_units()
        flags = compile_flags(scratch)
        # cache key must not depend on the scratch path of a synthesised config
        key = input_hash(flags, extra=','.join(units))
        cpath = os.path.join(CACHE, 'prog_%s.pkl' % key[:32])
        if os.path.exists(cpath):
            try:
                with open(cpath, 'rb') as f:
                    prog = pickle.load(f)
                prog.meta['cache'] = 'hit'
                prog.meta['load_s'] = time.time() - t0
                return prog
            except Exception:
                pass
        for u in units:
            if not os.path.exists(os.path.join(REPO, u)):
                raise AnalysisBroken('library unit %s listed in CMakeLists.txt does not exist' % u)
        tus = {}
        with ProcessPoolExecutor(max_workers=min(16, len(units))) as ex:
            results = list(ex.map(_dump_and_reduce, [(u, flags, scratch) for u in units]))
            for unit, tu, err in results:
                if err:
                    raise AnalysisBroken(err)
                tus[unit] = tu
            pp = {}
            if check_pp:
                jobs = []
                for u in units:
                    jobs.append(('cc', u, flags))
                    jobs.append(('clang', u, flags))
                for unit, cc, seen in ex.map(_preprocess_lines, jobs):
                    pp[(unit, cc)] = seen
        ppdiff = []
        if check_pp:
            for u in units:
                a, b = pp.get((u, 'cc')), pp.get((u, 'clang'))
                if a is None or b is None:
                    raise AnalysisBroken('preprocessing failed for %s' % u)
                if a != b:
                    d = sorted(a ^ b)[:5]
                    ppdiff.append((u, d))
            if ppdiff:
                raise AnalysisBroken('the analysed program is not the built program: conditional inclusion differs '
                                     'between the build compiler and clang: %r' % ppdiff[:3])
        listed = set(units)
        unlisted = sorted('src/' + f for f in os.listdir(os.path.join(REPO, 'src'))
                          if f.endswith('.c') and 'src/' + f not in listed)
        meta = {'units': units, 'flags': [f for f in flags if not f.startswith('-I' + CACHE)],
                'unlisted_sources': unlisted, 'cache': 'miss', 'pp_identical_units': len(units) if check_pp else 0,
                'key': key}
        sys.setrecursionlimit(10000)
        prog = Program(units, flags, tus, meta)
        prog.macros = _macros(flags)
        tmp = cpath + '.%d.tmp' % os.getpid()
        with open(tmp, 'wb') as f:
            pickle.dump(prog, f, protocol=pickle.HIGHEST_PROTOCOL)
        os.replace(tmp, cpath)
        # keep the cache small: drop older program pickles
        olds = sorted((os.path.getmtime(os.path.join(CACHE, f)), f) for f in os.listdir(CACHE)
                      if f.startswith('prog_') and f.endswith('.pkl'))
        for _, f in olds[:-4]:
            try:
                os.unlink(os.path.join(CACHE, f))
            except OSError:
                pass
        prog.meta['load_s'] = time.time() - t0
        return prog
    finally:
        shutil.rmtree(scratch, ignore_errors=True)


def load_extra(path, flags=None):
    """Program for a single stand-alone C file (positive examples)."""
    os.makedirs(CACHE, exist_ok=True)
    scratch = tempfile.mkdtemp(prefix='uvx_', dir=CACHE)
    try:
        src = os.path.abspath(path)
        out = os.path.join(scratch, 'x.json')
        cmd = ['clang', '-fsyntax-only', '-Xclang', '-ast-dump=json', '-w'] + (flags or []) + [src]
        with open(out, 'w') as f:
            p = subprocess.run(cmd, stdout=f, stderr=subprocess.PIPE, text=True)
        if p.returncode != 0:
            raise AnalysisBroken('clang failed on %s: %s' % (path, p.stderr[-1000:]))
        d = json.load(open(out))
        red = _Reducer(src)
        keep = []
        for top in d.get('inner', []):
            n = red.node(top)
            if n is not None and n.loc and n.loc[0] == src:
                keep.append(n)
        tu = N('tu', src, None, None, keep)
        return Program([src], flags or [], {src: tu}, {'units': [src]})
    finally:
        shutil.rmtree(scratch, ignore_errors=True)


if __name__ == '__main__':
    sys.setrecursionlimit(10000)
    p = load_program()
    print(p.meta)
    print(len(p.funcs), 'functions with bodies;', len(p.globals), 'globals;', len(p.records), 'records')
