"""Self-validation of the E1 extractor (thorough tier, never part of the verdict): one concrete input per final
configuration of the model is run through the parser compiled from the current sources; a disagreement between the
binary and the MODEL means the extractor is wrong and is reported as analysis-broken (exit 2)."""
import os
import shutil
import subprocess
import tempfile

from .frontend import REPO, CACHE, AnalysisBroken, compile_flags, library_units
from .e1 import Alphabet, WIDE_REPS
from .e1results import witness_of

DRIVER = r'''
#include <stdio.h>
#include <stdlib.h>
#include <string.h>
#include <wchar.h>
#include <uriparser/Uri.h>
/* input lines: <A|W> <n> <v0> <v1> ... ; output: <ret> <errpos offset or -1> */
int main(void) {
	char kind;
	int n;
	while (scanf(" %c %d", &kind, &n) == 2) {
		long vals[512];
		int i;
		for (i = 0; i < n; i++) { if (scanf("%ld", &vals[i]) != 1) return 2; }
		if (kind == 'A') {
			char buf[520];
			UriUriA u;
			const char * ep = NULL;
			int r;
			for (i = 0; i < n; i++) buf[i] = (char)vals[i];
			buf[n] = 'Q';
			r = uriParseSingleUriExMmA(&u, buf, buf + n, &ep, NULL);
			printf("%d %ld\n", r, (r != 0 && ep != NULL) ? (long)(ep - buf) : -1L);
			if (r == 0) uriFreeUriMembersA(&u);
		} else {
			wchar_t buf[520];
			UriUriW u;
			const wchar_t * ep = NULL;
			int r;
			for (i = 0; i < n; i++) buf[i] = (wchar_t)vals[i];
			buf[n] = L'Q';
			r = uriParseSingleUriExMmW(&u, buf, buf + n, &ep, NULL);
			printf("%d %ld\n", r, (r != 0 && ep != NULL) ? (long)(ep - buf) : -1L);
			if (r == 0) uriFreeUriMembersW(&u);
		}
	}
	return 0;
}
'''


def build_driver(scratch):
    flags = [f for f in compile_flags(scratch) if not f.startswith('-std')]
    objs = []
    procs = []
    for u in library_units():
        o = os.path.join(scratch, os.path.basename(u) + '.o')
        objs.append(o)
        procs.append(subprocess.Popen(['cc', '-O1', '-w', '-c', os.path.join(REPO, u), '-o', o] + flags,
                                      stderr=subprocess.PIPE))
    for p in procs:
        _, err = p.communicate()
        if p.returncode != 0:
            raise AnalysisBroken('self-validation: library unit does not compile: %s' % err.decode()[-300:])
    drv = os.path.join(scratch, 'drv.c')
    open(drv, 'w').write(DRIVER)
    exe = os.path.join(scratch, 'drv')
    r = subprocess.run(['cc', '-O1', '-w', drv, '-o', exe] + [f for f in flags if f.startswith('-I')] + objs, capture_output=True, text=True)
    if r.returncode != 0:
        raise AnalysisBroken('self-validation: driver does not link: %s' % r.stderr[-300:])
    return exe


def symbols_of(r, nid):
    """symbol values of the witness of node nid"""
    al = Alphabet(r['classes'], r['suffix'])
    labels = []
    node = nid
    while node is not None:
        p = r['parent'].get(node)
        if p is None:
            break
        node, lab = p
        labels.append(lab)
    labels.reverse()
    vals = []
    for lab in labels:
        if lab[0] == 'sym':
            vals.append(al.value_of(al.sample(lab[1])))
        elif lab[0] == 'alloc' and not lab[2]:
            return None          # needs a failing allocator
    return vals


def validate(ctx, results, codes):
    """returns (number of traces validated, list of disagreement texts)"""
    os.makedirs(CACHE, exist_ok=True)
    scratch = tempfile.mkdtemp(prefix='selfval_', dir=CACHE)
    try:
        exe = build_driver(scratch)
        lines, expect = [], []
        for (suf, entry), r in sorted(results.items()):
            if entry != 'single-mm':
                continue
            for f in r['finals']:
                if f['oom'] or f['ret'] is None or f['ret'][0] != 'i':
                    continue
                vals = symbols_of(r, f['nid'])
                if vals is None or len(vals) > 500:
                    continue
                n = len(vals)
                if not f['eof']:
                    vals = vals + [ord('Z')]      # the model decided without looking further: any continuation
                code = f['ret'][1]
                pos = -1
                if code != codes['URI_SUCCESS']:
                    ep = f['errpos']
                    if ep is None:
                        continue
                    if ep[0] == 'e':
                        pos = len(vals)
                    elif ep[0] == 'p':
                        pos = n + ep[1]
                    else:
                        continue
                lines.append('%s %d %s' % (suf, len(vals), ' '.join(str(v) for v in vals)))
                expect.append((suf, vals, code, pos))
        out = subprocess.run([exe], input='\n'.join(lines) + '\n', capture_output=True, text=True, timeout=300)
        got = out.stdout.split('\n')
        bad = []
        for k, (suf, vals, code, pos) in enumerate(expect):
            if k >= len(got) or not got[k].strip():
                bad.append('no output for input #%d' % k)
                break
            rc, gp = [int(x) for x in got[k].split()]
            if rc != code or gp != pos:
                text = ''.join(chr(v) if 32 <= v < 127 else '\\x%x' % (v & 0xffffffff) for v in vals)
                bad.append('%s %r: model says code %d position %d, the compiled parser returns code %d position %d'
                           % (suf, text, code, pos, rc, gp))
        return len(expect), bad
    finally:
        shutil.rmtree(scratch, ignore_errors=True)
