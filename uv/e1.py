"""E1: abstract interpretation of the recursive-descent parser over a lazily read stream of
symbol classes; produces the implementation automaton explored in product with the RFC DFA.

Values (hashable tuples):
  ('i', v)             exact integer (('i', 0) is also the null pointer)
  ('r', lo, hi, src)   integer interval; src = frozenset of symbol-class ids it was derived from
  ('c', cls)           the character value of a symbol of class cls
  ('p', rel)           pointer into the input, rel = index - (number of symbols known so far)
  ('pp', fuzz, rank)   pointer into the input more than D symbols behind the frontier: base index of order
                       rank `rank` among such pointers (equal rank = equal base) plus fuzz
  ('e',)               afterLast
  ('s',)               the private placeholder text (uriSafeToPointTo)
  ('a', obj, path)     pointer to a place of an abstract object
  ('m',)               the memory manager
  ('len', rel)         strlen() of the input pointer with that rel (NUL-terminated entry)
  ('t',)               unknown
"""
from .frontend import AnalysisBroken, fmt_loc
from .ir import strip_casts, call_target, manager_call, const_value, sizeof_type
from .symexec import wrap_int
from .e1static import E1Static, is_charptr_type, assigned_var

TOP = ('t',)
NULL = ('i', 0)
END = ('e',)
SAFE = ('s',)
MEM = ('m',)
D = 3           # pointers older than this (behind the frontier) lose their exact distance when a symbol is read
DMAX = 8        # exact pointers may be *computed* this far behind the frontier (error positions)
FUZZ_MAX = 2
PIN = ('pin', None)  # some pointer into the input (coarse register content); 2nd field: at the pebble? (True/False/'f' pending)
PEB_CLAMP = 6
UNK = ('u',)    # undecided truth value caused by a coarse register: both outcomes are explored
W = 3           # look-back window of symbol values


class Imprecise(Exception):
    """the abstraction cannot decide something that matters: analysis broken (exit 2)"""


class NeedSymbol(Exception):
    pass


class Unknown(Exception):
    """optimistic (pre-analysis) mode: a value abstracted away decides something"""


class NeedSplit(Exception):
    def __init__(self, cls, syms):
        Exception.__init__(self, 'split class %r at %r' % (cls, syms))
        self.cls = cls
        self.syms = syms

    def __reduce__(self):
        return (NeedSplit, (self.cls, self.syms))


class Finding(Exception):
    """a definite violation found while interpreting (over-read, bad free ...)"""

    def __init__(self, rule, key, loc, detail):
        Exception.__init__(self, detail)
        self.rule, self.key, self.loc, self.detail = rule, key, loc, detail

    def __reduce__(self):
        return (Finding, (self.rule, self.key, self.loc, self.detail))


def is_null(v):
    return v == NULL


WIDE_REPS = [256, 0x130, 0x141, 0x161, 0x125, 0x15B, 0x13A, 0x12F, 0x12E, 0x20AC, 0x10FFFF, -1, -128, -208]


class Alphabet(object):
    """partition of the symbols into classes.  Symbols 0..255 are the code points (for char: the byte
    values, 128..255 being the negative char values); for wchar_t, symbols 256.. are representatives of the
    character values outside 0..255 (WIDE_REPS; several are congruent to ASCII characters modulo 256).  The
    grammar and every case label mention only 0..255, so equality tests and switches treat all out-of-range
    values alike and the representatives stand for all of them exactly; arithmetic on such a value is
    evaluated on the representatives only and marks the run as sampled."""

    def __init__(self, class_sets, suffix):
        self.sets = [frozenset(s) for s in class_sets]
        self.suffix = suffix
        self.of = {}
        for i, s in enumerate(self.sets):
            for x in s:
                self.of[x] = i

    @staticmethod
    def all_symbols(suffix):
        return list(range(256)) if suffix == 'A' else list(range(256 + len(WIDE_REPS)))

    def value_of(self, sym):
        if sym < 256:
            return sym - 256 if (self.suffix == 'A' and sym >= 128) else sym
        return WIDE_REPS[sym - 256]

    def sym_of_value(self, v):
        """symbol for C character value v, None if no symbol stands for it"""
        if self.suffix == 'A':
            if -128 <= v < 0:
                return v + 256
            if 0 <= v < 128:
                return v
            return None
        if 0 <= v <= 255:
            return v
        if v in WIDE_REPS:
            return 256 + WIDE_REPS.index(v)
        return None

    def has_wide(self, cls):
        return any(x >= 256 for x in self.sets[cls])

    def values(self, cls):
        """(lo, hi) of character values if the class is a contiguous range of in-range values, else None"""
        s = self.sets[cls]
        if any(x >= 256 for x in s):
            return None
        vals = sorted(self.value_of(x) for x in s)
        if vals[-1] - vals[0] + 1 != len(vals):
            return None
        return vals[0], vals[-1]

    def split(self, cls, syms):
        s = self.sets[cls]
        a = s & frozenset(syms)
        b = s - a
        if not a or not b:
            raise AnalysisBroken('E1: cannot split class %r by %r' % (sorted(s), sorted(syms)))
        new = list(self.sets)
        new[cls] = a
        new.append(b)
        return Alphabet(new, self.suffix)

    def describe(self, cls):
        s = sorted(self.sets[cls])
        out = []
        for x in s[:6]:
            out.append('wide:%#x' % self.value_of(x) if x >= 256 else (repr(chr(x)) if 32 < x < 127 else '0x%02x' % x))
        return '{%s%s}' % (','.join(out), ',..' if len(s) > 6 else '')

    def sample(self, cls):
        s = sorted(self.sets[cls])
        for x in s:
            if 32 < x < 127:
                return x
        return s[0]


class St(object):
    """mutable machine state"""
    __slots__ = ('frames', 'env', 'win', 'eof', 'heap', 'flags', 'steps')

    def __init__(self):
        self.frames = []      # list of [fname, block id, ins idx, depth, retdst]
        self.env = {}         # (obj, path) -> value
        self.win = ()         # classes of the symbols at rel -1, -2, ...
        self.eof = False
        self.heap = {}        # site -> live block count (1, 2 = many)
        self.flags = {}       # small facts: 'oom', 'freed' ...
        self.steps = 0

    def copy(self):
        s = St()
        s.frames = [list(f) for f in self.frames]
        s.env = dict(self.env)
        s.win = self.win
        s.eof = self.eof
        s.heap = dict(self.heap)
        s.flags = dict(self.flags)
        return s


def shift_val(v, newrank, pa=None, tracking=False):
    if v[0] == 'p':
        r = v[1] - 1
        if r >= -D:
            return ('p', r)
        d = None
        if tracking:
            if pa is None or pa == 'far':
                d = 'x'
            else:
                d = -pa - r
                if d < 0 or d > FUZZ_MAX:
                    d = 'x'        # behind the pebble, or too far before it to reach it by the small offsets the code adds
        return ('pp', 0, newrank, d)
    if v[0] == 'len':
        return ('len', v[1] - 1)
    return v


class Machine(object):
    def __init__(self, ctx, suffix, alphabet, interpreted, summaries, nul_terminated=False):
        self.prog, self.irp = ctx.prog, ctx.irp
        self.suffix = suffix
        self.al = alphabet
        self.static = E1Static(ctx.irp, interpreted)
        self.interpreted = set(interpreted)
        self.summaries = summaries      # name -> handler(machine, st, ins, args) -> value | raises
        self.nul = nul_terminated
        self.obs = []                   # observation sink (set by the explorer)
        self.char_ty = 'char' if suffix == 'A' else 'wchar_t'
        self.leaf_cache = {}
        self.qcache = {}
        self.sampled = False            # arithmetic was evaluated on representatives of out-of-range wide characters
        self.cellwatch = set(a for fi in self.static.info.values() for a in fi.fill)
        self.cellneeds = None           # projected key -> needed cells (from the pre-analysis)
        self.dmax = DMAX
        self.harness = {'URI', 'STATE', 'ERRPOS', 'OCT'}   # caller-side objects of the analysis harness
        self.concrete_heap = False      # concrete mode: heap blocks keep their contents
        self.heap_zero = {}
        self.alloc_counter = 0
        self.literals = False           # concrete mode: string literals are values
        self.input_writable = False     # concrete mode: in-place transformers may store into the text
        self.exact_regs = set()         # registers whose value may reach a comparison: kept exact / ranked when tracking
        self.tracking = False           # pebble mode: pointers know whether they sit on the pebble
        self.pa = None                  # pebble age: None unseen, k symbols ago, 'far', 'end'
        self.coarse_regs = True         # URI text-range fields hold NULL / placeholder / 'some input pointer'
        self.optimistic = False         # pre-analysis mode: fill-array cells are unknown, unknown branches fork
        self.fresh = False              # the symbol at rel -1 was applied in this step
        self.trace = None               # list of (query(cls) -> outcome, outcome) on the fresh symbol
        self.safe_name = 'uriSafeToPointTo' + suffix

    # ------------------------------------------------------------ symbols
    def sym_at(self, st, rel, loc):
        """class of the symbol at rel (must be known, i.e. rel < 0)"""
        if rel >= 0:
            if st.eof:
                raise Finding('no-over-read', 'read-at-end', loc, 'reads the character at afterLast%s (end of range already seen)'
                              % ('' if rel == 0 else '+%d' % rel))
            raise Finding('no-over-read', 'unguarded-read', loc,
                          'reads the character %d position(s) past the last one known to lie inside the range: '
                          'not dominated by a comparison with afterLast on this path' % (rel + 1))
        k = -rel - 1
        if k >= len(st.win):
            raise Imprecise('re-read of a character %d positions behind the frontier (window %d) at %s'
                            % (-rel, len(st.win), fmt_loc(loc)))
        return st.win[k]

    # ------------------------------------------------------------ expression evaluation
    def depth(self, st):
        return st.frames[-1][3]

    def loc_of(self, st, e):
        """place of an lvalue expression: (obj, path) or ('IN', rel)"""
        k = e.k
        if k == 'ref':
            dk = e.x.get('dk') if e.x else None
            if e.x and (e.x.get('tmp') or dk in ('ParmVarDecl', 'Tmp') or (dk == 'VarDecl' and e.v in self.cur_locals(st))):
                return (('L', self.depth(st)), (e.v,))
            if dk == 'VarDecl':
                return (('G', e.v), ())
            raise Imprecise('lvalue reference to %s at %s' % (e.v, fmt_loc(e.loc)))
        if k == 'member':
            if e.x and e.x.get('arrow'):
                b = self.rv(st, e.c[0])
                pl = self.place_of_ptr(b, e)
            else:
                pl = self.loc_of(st, e.c[0])
            if pl[0] == 'IN':
                raise Imprecise('member access on input pointer at %s' % fmt_loc(e.loc))
            return (pl[0], pl[1] + (e.v,))
        if k == 'index':
            b = self.rv(st, e.c[0])
            i = self.rv(st, e.c[1])
            if i[0] != 'i':
                raise Imprecise('array index not exact at %s: %r' % (fmt_loc(e.loc), i))
            return self.place_of_ptr(self.ptr_add(b, i[1], e), e)
        if k == 'un' and e.v == '*':
            return self.place_of_ptr(self.rv(st, e.c[0]), e)
        if k == 'cast':
            return self.loc_of(st, e.c[0])
        raise Imprecise('unsupported lvalue %s at %s' % (k, fmt_loc(e.loc)))

    def cur_locals(self, st):
        f = self.irp.funcs[st.frames[-1][0]]
        return f.locals

    def place_of_ptr(self, p, e):
        if p[0] == 'a':
            return (p[1], p[2])
        if p[0] == 'p':
            return ('IN', p[1])
        if p[0] == 'e':
            return ('IN', 'end')
        if p[0] == 'pp':
            raise Imprecise('dereference of a pointer far behind the frontier at %s' % fmt_loc(e.loc))
        if p == NULL:
            raise Finding('null-deref', 'null-deref', e.loc, 'dereference of a null pointer')
        raise Imprecise('dereference of %r at %s' % (p, fmt_loc(e.loc)))

    def ptr_add(self, p, k, e):
        if k == 0:
            return p
        t = p[0]
        if t == 'p':
            r = p[1] + k
            if r < -self.dmax:
                raise Imprecise('pointer moved more than %d behind the frontier at %s' % (self.dmax, fmt_loc(e.loc)))
            return ('p', r)
        if t == 'pp':
            if k < 0:
                raise Imprecise('far-behind pointer moved backwards at %s' % fmt_loc(e.loc))
            f = p[1] + k
            if f > FUZZ_MAX:
                raise Imprecise('pointer far behind the frontier advanced by more than %d at %s' % (FUZZ_MAX, fmt_loc(e.loc)))
            d = p[3] if len(p) > 3 else None
            if isinstance(d, int):
                d = d - k
                if d < 0:
                    d = 'x'
            return ('pp', f, p[2], d)
        if t == 'a':
            path = p[2]
            if path and isinstance(path[-1], int):
                return ('a', p[1], path[:-1] + (path[-1] + k,))
            if path == () and p[1][0] == 'H':
                return ('a', p[1], (k,))        # a heap block used as an array
            raise Imprecise('pointer arithmetic on non-array place at %s' % fmt_loc(e.loc))
        if t == 'e':
            if k > 0:
                return ('p', 99)      # beyond the end; any use is reported
            raise Imprecise('afterLast - %d at %s' % (-k, fmt_loc(e.loc)))
        if t == 't':
            return TOP
        if t == 'pin':
            if self.tracking:
                raise Imprecise('arithmetic on a coarse register pointer while tracking boundaries at %s' % fmt_loc(e.loc))
            return PIN
        raise Imprecise('pointer arithmetic on %r at %s' % (p, fmt_loc(e.loc)))

    def load(self, st, pl, e):
        if pl[0] == 'IN':
            if pl[1] == 'end':
                raise Finding('no-over-read', 'read-at-end', e.loc, 'reads the character at afterLast')
            c = self.sym_at(st, pl[1], e.loc)
            if pl[1] == -1 and self.fresh:
                return ('c', c, 1)
            return ('c', c)
        obj, path = pl
        if obj[0] == 'H':
            if self.concrete_heap:
                return st.env.get(pl, ('i', 0) if self.heap_zero.get(obj) else TOP)
            return TOP
        if self.cellwatch and obj[0] == 'L' and len(path) == 2 and path[0] in self.cellwatch:
            self.obs.append(('cell-read', obj[1], path[0], path[1]))
        v = st.env.get(pl)
        if v is not None:
            return v
        # whole-array unknown?
        for j in range(len(path) - 1, 0, -1):
            v = st.env.get((obj, path[:j]))
            if v == TOP:
                return TOP
        if obj[0] == 'G' and obj[1] == self.safe_name and path == ():
            return SAFE
        if obj[0] == 'G' and obj[1] not in self.harness:
            raise Imprecise('read of global %s at %s' % (obj[1], fmt_loc(e.loc)))
        return TOP

    def store(self, st, pl, v, loc):
        if v[0] == 'c':
            if len(v) == 3:
                if self.trace is not None:
                    self.trace.append(None)
                v = ('c', v[1])
        if pl[0] == 'IN':
            if self.input_writable:
                self.obs.append(('in-store', pl[1], v, loc))
                return
            raise Finding('no-input-write', 'input-write', loc, 'stores through a pointer into the input text')
        obj, path = pl
        if obj[0] == 'H':
            self.obs.append(('heap-store', obj, path, v, loc, self.at_of(st, v, loc) if (self.tracking and v[0] in ('p', 'pp', 'e', 'pin')) else None))
            if self.concrete_heap:
                st.env[pl] = v
            return
        if obj == ('G', 'URI') and path and path[-1] in ('first', 'afterLast'):
            self.obs.append(('reg-store', path, v, loc, st.eof))
            if self.coarse_regs and path not in self.exact_regs and v[0] in ('p', 'pp', 'e'):
                if v[0] == 'p' and v[1] > 0:
                    raise Finding('range-inside-input', 'reg-beyond:%s' % '.'.join(path), loc,
                                  'stores a pointer %d past the last character known to lie inside the range into %s'
                                  % (v[1], '.'.join(path)))
                v = ('pin', self.at_of(st, v, loc))
        if self.cellwatch and obj[0] == 'L' and len(path) == 2 and path[0] in self.cellwatch:
            self.obs.append(('cell-write', obj[1], path[0], path[1]))
        if obj[0] == 'G' and obj[1] not in self.harness:
            raise Finding('no-global-write', 'global-write', loc, 'store to global %s' % obj[1])
        st.env[pl] = v

    def rv(self, st, e):
        k = e.k
        if k == 'int':
            return ('i', e.v)
        if k == 'cast':
            ck = e.v
            if ck == 'LValueToRValue':
                return self.load(st, self.loc_of(st, e.c[0]), e)
            if ck == 'ArrayToPointerDecay':
                c = strip_casts(e.c[0])
                if c.k == 'ref' and c.v == self.safe_name:
                    return SAFE
                if c.k == 'str':
                    if self.literals:
                        v = c.v or ''
                        if v.startswith('L'):
                            v = v[1:]
                        return ('lit', v[1:-1] if len(v) >= 2 and v[0] == '"' else v)
                    return TOP
                pl = self.loc_of(st, e.c[0])
                return ('a', pl[0], pl[1] + (0,))
            if ck == 'NullToPointer':
                return NULL
            v = self.rv(st, e.c[0])
            if ck in ('NoOp', 'BitCast', 'FunctionToPointerDecay', 'ToVoid'):
                return v
            if ck == 'IntegralCast':
                return self.int_cast(v, e.ty, e)
            if ck in ('PointerToBoolean', 'IntegralToBoolean'):
                try:
                    t = self.truth(v, e)
                except Unknown:
                    return UNK
                return ('i', 1 if t else 0)
            if ck in ('IntegralToPointer', 'PointerToIntegral'):
                return v if v == NULL else TOP
            raise Imprecise('cast kind %s at %s' % (ck, fmt_loc(e.loc)))
        if k == 'ref':
            dk = e.x.get('dk') if e.x else None
            if dk == 'EnumConstantDecl':
                return ('i', self.prog.enums[e.v])
            if dk == 'FunctionDecl':
                return ('f', e.v)
            return self.load(st, self.loc_of(st, e), e)
        if k == 'un':
            op = e.v
            if op == '&':
                pl = self.loc_of(st, e.c[0])
                if pl[0] == 'IN':
                    return ('p', pl[1])
                return ('a', pl[0], pl[1])
            if op == '*':
                return self.load(st, self.loc_of(st, e), e)
            v = self.rv(st, e.c[0])
            if op == '!':
                try:
                    return ('i', 0 if self.truth(v, e) else 1)
                except Unknown:
                    return UNK
            if op == '-':
                return self.arith('-', ('i', 0), v, e)
            if op == '+':
                return v
            if op == '~' and v[0] == 'i':
                return ('i', ~v[1])
            raise Imprecise('unary %s on %r at %s' % (op, v, fmt_loc(e.loc)))
        if k == 'bin':
            a = self.rv(st, e.c[0])
            b = self.rv(st, e.c[1])
            op = e.v
            if st.eof and op == '-':
                if a == END:
                    a = ('p', 0)
                if b == END:
                    b = ('p', 0)
            if op in ('==', '!=', '<', '>', '<=', '>='):
                try:
                    r = self.compare(st, op, a, b, e)
                except Unknown:
                    return UNK
                return ('i', 1 if r else 0)
            return self.arith(op, a, b, e)
        if k == 'sizeof':
            v = const_value(e, self.prog)
            return ('i', v) if v is not None else ('i', 1)   # struct sizes are irrelevant to control
        if k in ('member', 'index'):
            return self.load(st, self.loc_of(st, e), e)
        if k == 'str':
            return TOP
        raise Imprecise('unsupported expression %s at %s' % (k, fmt_loc(e.loc)))

    def at_of(self, st, v, loc=None):
        """is the input position v the pebbled position? True / False / 'f' (decided by the next symbol)"""
        if not self.tracking:
            return None
        pa = self.pa
        t = v[0]
        if t == 'pin':
            return v[1]
        if t == 'e':
            if not st.eof:
                raise Imprecise('afterLast stored before the end of the range was seen at %s' % fmt_loc(loc))
            return pa == 'end'
        if t == 'p':
            r = v[1]
            if isinstance(pa, int):
                return r == -pa
            if pa == 'end':
                return st.eof and r == 0
            if pa is None:
                return 'f' if (r == 0 and not st.eof) else False
            return False
        if t == 'pp':
            return v[3] == 0
        return False

    def int_cast(self, v, ty, e):
        if v[0] == 'i':
            return ('i', wrap_int(v[1], ty))
        if v[0] == 'c':
            t = (ty or '').replace('const ', '').strip()
            if t in ('int', 'long', 'wchar_t', 'unsigned int', 'unsigned long', 'size_t') and (self.suffix == 'W' or t in ('int', 'long')):
                return v        # value-preserving promotion: keep the symbolic character
            iv = self.char_to_int(v)
            if iv[0] == 'i':
                return ('i', wrap_int(iv[1], ty))
            if iv[0] == 'r':
                lo, hi = wrap_int(iv[1], ty), wrap_int(iv[2], ty)
                return iv if (lo, hi) == (iv[1], iv[2]) else TOP
            if iv[0] == 'd':
                return self.dnorm(iv[1], [(x, wrap_int(y, ty)) for x, y in iv[2]])
            return iv
        if v[0] == 'r':
            lo, hi = wrap_int(v[1], ty), wrap_int(v[2], ty)
            if lo == v[1] and hi == v[2]:
                return v
            return TOP
        if v[0] == 'd':
            return self.dnorm(v[1], [(x, wrap_int(y, ty)) for x, y in v[2]])
        return v

    @staticmethod
    def dnorm(cls, pairs):
        vals = set(y for _, y in pairs)
        if len(vals) == 1:
            return ('i', vals.pop())
        return ('d', cls, tuple(pairs))

    def char_to_int(self, v):
        if len(v) == 3 and self.trace is not None:
            self.trace.append(None)      # the value itself is used: path not shareable between classes
        rng = self.al.values(v[1])
        if rng is None:
            if self.al.has_wide(v[1]):
                self.sampled = True
            return ('d', v[1], tuple(sorted((x, self.al.value_of(x)) for x in self.al.sets[v[1]])))
        if rng[0] == rng[1]:
            return ('i', rng[0])
        return ('r', rng[0], rng[1], frozenset((v[1],)))

    def as_int(self, v):
        if v[0] == 'c':
            return self.char_to_int(v)
        return v

    def arith(self, op, a, b, e):
        # pointer arithmetic
        if a[0] in ('p', 'pp', 'a', 'e', 'pin', 's') or (b[0] in ('p', 'pp', 'a', 'e', 'pin') and op == '+'):
            if op == '+' and a[0] not in ('p', 'pp', 'a', 'e', 'pin', 's'):
                a, b = b, a
            if op in ('+', '-') and b[0] == 'i':
                return self.ptr_add(a, b[1] if op == '+' else -b[1], e)
            if op == '+' and b[0] == 'len' and a[0] == 'p' and a[1] == b[1]:
                return END
            if op == '-' and a[0] == 'p' and b[0] == 'p':
                return ('i', a[1] - b[1])
            if op == '-' and a == b and a[0] in ('s', 'e', 'a'):
                return ('i', 0)
            if op == '-' and a[0] == 'a' and b[0] == 'a' and a[1] == b[1] and a[2][:-1] == b[2][:-1]:
                return ('i', a[2][-1] - b[2][-1])
            return TOP
        a, b = self.as_int(a), self.as_int(b)
        if (a[0] == 'd' and b[0] == 'i') or (a[0] == 'i' and b[0] == 'd'):
            dv = a if a[0] == 'd' else b
            out = []
            for sym, val in dv[2]:
                r = self.arith(op, ('i', val) if a[0] == 'd' else a, b if a[0] == 'd' else ('i', val), e)
                if r[0] != 'i':
                    return TOP
                out.append((sym, r[1]))
            return self.dnorm(dv[1], out)
        if a[0] == 'i' and b[0] == 'i':
            x, y = a[1], b[1]
            try:
                if op == '+':
                    r = x + y
                elif op == '-':
                    r = x - y
                elif op == '*':
                    r = x * y
                elif op == '/':
                    r = int(x / y) if y else None
                elif op == '%':
                    r = x - int(x / y) * y if y else None
                elif op == '<<':
                    r = x << y
                elif op == '>>':
                    r = x >> y
                elif op == '&':
                    r = x & y
                elif op == '|':
                    r = x | y
                elif op == '^':
                    r = x ^ y
                else:
                    r = None
            except Exception:
                r = None
            if r is None:
                raise Imprecise('arithmetic %s at %s' % (op, fmt_loc(e.loc)))
            return ('i', wrap_int(r, e.ty))
        if a[0] in ('i', 'r') and b[0] in ('i', 'r'):
            alo, ahi = (a[1], a[1]) if a[0] == 'i' else (a[1], a[2])
            blo, bhi = (b[1], b[1]) if b[0] == 'i' else (b[1], b[2])
            src = (a[3] if a[0] == 'r' else frozenset()) | (b[3] if b[0] == 'r' else frozenset())
            if op == '+':
                lo, hi = alo + blo, ahi + bhi
            elif op == '-':
                lo, hi = alo - bhi, ahi - blo
            elif op == '*':
                c = [alo * blo, alo * bhi, ahi * blo, ahi * bhi]
                lo, hi = min(c), max(c)
            else:
                return TOP
            if lo == hi:
                return ('i', lo)
            return ('r', lo, hi, src)
        return TOP

    def qeval(self, cls, q):
        k = (cls, id(q[1]) if q[0] == 'switch' else q[:3])
        try:
            return self.qcache[k]
        except KeyError:
            pass
        out = self.qeval0(cls, q)
        self.qcache[k] = out
        return out

    def cquery(self, v, q):
        out = self.qeval(v[1], q)
        if len(v) == 3 and self.trace is not None:
            self.trace.append((q, out))
        return out

    def qeval0(self, cls, q):
        """outcome of a query on a character of class cls (a pure function of the class); raises NeedSplit"""
        s = self.al.sets[cls]
        k = q[0]
        if k == 'truth':
            if 0 not in s:
                return True
            if len(s) == 1:
                return False
            raise NeedSplit(cls, [0])
        if k == 'cmp':
            op, val, loc = q[1], q[2], q[3]
            if op in ('==', '!='):
                sym = self.al.sym_of_value(val)
                if sym is None and not (self.suffix == 'A' or 0 <= val <= 255):
                    raise Imprecise('comparison with a wide character constant %#x that has no representative at %s'
                                    % (val, fmt_loc(loc)))
                if sym is not None and sym >= 256:
                    self.sampled = True
                if sym is None or sym not in s:
                    return op == '!='
                if len(s) == 1:
                    return op == '=='
                raise NeedSplit(cls, [sym])
            res = set()
            yes = []
            for sym in s:
                if sym >= 256:
                    self.sampled = True
                x = self.al.value_of(sym)
                r = self.cmp_int(op, x, val)
                res.add(r)
                if r:
                    yes.append(sym)
            if len(res) == 1:
                return res.pop()
            raise NeedSplit(cls, yes)
        if k == 'switch':
            t = q[1]
            cases, default = t[2], t[3]
            by = {}
            for cv, _cb in cases:
                if not (-128 <= cv <= 255):
                    self.sampled = True
            for sym in s:
                tg = default
                val = self.al.value_of(sym)
                for cv, cb in cases:
                    if cv == val:
                        tg = cb
                        break
                by.setdefault(tg.id, (tg, []))[1].append(sym)
            if len(by) == 1:
                return list(by.values())[0][0]
            first = sorted(by.values(), key=lambda x: len(x[1]))[0]
            raise NeedSplit(cls, first[1])
        raise Imprecise('unknown character query %r' % (k,))

    def truth(self, v, e):
        t = v[0]
        if t == 'i':
            return v[1] != 0
        if t in ('p', 'pp', 'e', 's', 'a', 'm', 'f', 'pin'):
            return True
        if t == 'u':
            raise Unknown()
        if t == 'c':
            return self.cquery(v, ('truth',))
        if t == 'r':
            if v[1] > 0 or v[2] < 0:
                return True
            self.split_src(v, e)
        if t == 'd':
            yes = [sym for sym, val in v[2] if val != 0]
            if len(yes) == len(v[2]):
                return True
            if not yes:
                return False
            raise NeedSplit(v[1], yes)
        if self.optimistic and t == 't':
            raise Unknown()
        raise Imprecise('branch on unknown value %r at %s' % (v, fmt_loc(e.loc)))

    def split_src(self, v, e):
        for c in sorted(v[3]):
            s = self.al.sets[c]
            if len(s) > 1:
                raise NeedSplit(c, [sorted(s)[0]])
        raise Imprecise('undecided comparison on %r at %s' % (v, fmt_loc(e.loc)))

    def compare(self, st, op, a, b, e):
        """three-valued comparison made two-valued: raises NeedSymbol / NeedSplit / Imprecise when undecided"""
        swap = {'<': '>', '>': '<', '<=': '>=', '>=': '<=', '==': '==', '!=': '!='}
        ta, tb = a[0], b[0]
        # characters
        if ta == 'c' or tb == 'c':
            if ta != 'c':
                a, b, op = b, a, swap[op]
            if b[0] == 'c':
                raise Imprecise('comparison of two characters at %s' % fmt_loc(e.loc))
            b = self.as_int(b)
            if b[0] != 'i':
                raise Imprecise('character compared with %r at %s' % (b, fmt_loc(e.loc)))
            return self.cquery(a, ('cmp', op, b[1], e.loc))
        # value derived from one character, evaluated per member of its class
        if (ta == 'd' and tb == 'i') or (ta == 'i' and tb == 'd'):
            if ta != 'd':
                a, b, op = b, a, swap[op]
            yes = [sym for sym, val in a[2] if self.cmp_int(op, val, b[1])]
            if len(yes) == len(a[2]):
                return True
            if not yes:
                return False
            raise NeedSplit(a[1], yes)
        # integers
        if ta in ('i', 'r') and tb in ('i', 'r') and not (ta == 'i' and tb == 'i' and False):
            if ta == 'i' and tb == 'i':
                return self.cmp_int(op, a[1], b[1])
            alo, ahi = (a[1], a[1]) if ta == 'i' else (a[1], a[2])
            blo, bhi = (b[1], b[1]) if tb == 'i' else (b[1], b[2])
            r = None
            if op == '<':
                r = True if ahi < blo else (False if alo >= bhi else None)
            elif op == '<=':
                r = True if ahi <= blo else (False if alo > bhi else None)
            elif op == '>':
                r = True if alo > bhi else (False if ahi <= blo else None)
            elif op == '>=':
                r = True if alo >= bhi else (False if ahi < blo else None)
            elif op == '==':
                r = False if (ahi < blo or alo > bhi) else None
            elif op == '!=':
                r = True if (ahi < blo or alo > bhi) else None
            if r is None:
                self.split_src(a if ta == 'r' else b, e)
            return r
        # coarse register contents
        if ta == 'pin' or tb == 'pin':
            o = b if ta == 'pin' else a
            if o == NULL or o[0] in ('s', 'a', 'm'):
                if op == '==':
                    return False
                if op == '!=':
                    return True
            raise Unknown()
        # pointers
        ptrs = ('p', 'pp', 'e', 's', 'a', 'm')
        if (ta in ptrs or a == NULL) and (tb in ptrs or b == NULL):
            if a == NULL or b == NULL:
                if a == NULL and b == NULL:
                    return self.cmp_int(op, 0, 0)
                if op == '==':
                    return False
                if op == '!=':
                    return True
                # relational against NULL (errorPos > afterLast with errorPos NULL is guarded in the code)
                raise Imprecise('relational comparison with NULL at %s' % fmt_loc(e.loc))
            if tb in ('p', 'pp') and ta == 'e':
                a, b, op, ta, tb = b, a, swap[op], tb, ta
            if ta == 'p' and tb == 'p':
                return self.cmp_int(op, a[1], b[1])
            if a == b and ta in ('s', 'a', 'm'):
                return self.cmp_int(op, 0, 0)
            if ta == 'e' and tb == 'e':
                return self.cmp_int(op, 0, 0)
            if ta == 'p' and tb == 'e':
                if st.eof:
                    return self.cmp_int(op, a[1], 0)
                if a[1] < 0:
                    return self.cmp_int(op, 0, 1)
                raise NeedSymbol()
            if ta == 'pp' and tb == 'e':
                return self.cmp_int(op, 0, 1)
            if ta == 'pp' and tb == 'p' or ta == 'p' and tb == 'pp':
                if ta == 'p':
                    a, b, op = b, a, swap[op]
                if b[1] >= -(D - a[1]):
                    return self.cmp_int(op, 0, 1)
                raise Imprecise('comparison of a far-behind pointer with a pointer %d behind at %s' % (-b[1], fmt_loc(e.loc)))
            if ta == 'a' and tb == 'a':
                if a[1] == b[1] and a[2][:-1] == b[2][:-1] and a[2] and isinstance(a[2][-1], int) and isinstance(b[2][-1], int):
                    return self.cmp_int(op, a[2][-1], b[2][-1])
                if op in ('==', '!='):
                    return (a == b) == (op == '==')
            if op in ('==', '!=') and ta != tb and not (ta in ('p', 'pp', 'e') and tb in ('p', 'pp', 'e')):
                # different kinds of object never coincide (input text vs placeholder vs heap)
                return op == '!='
            if ta == 'pp' and tb == 'pp':
                if a[2] == b[2]:
                    return self.cmp_int(op, a[1], b[1])
                if a[2] < b[2] and a[1] <= b[1]:
                    return self.cmp_int(op, 0, 1)
                if a[2] > b[2] and a[1] >= b[1]:
                    return self.cmp_int(op, 1, 0)
            raise Imprecise('pointer comparison %r %s %r at %s' % (a, op, b, fmt_loc(e.loc)))
        if self.optimistic and (ta == 't' or tb == 't'):
            raise Unknown()
        raise Imprecise('comparison %r %s %r at %s' % (a, op, b, fmt_loc(e.loc)))

    @staticmethod
    def cmp_int(op, x, y):
        return {'==': x == y, '!=': x != y, '<': x < y, '>': x > y, '<=': x <= y, '>=': x >= y}[op]


STEP_LIMIT = 20000


class Runner(Machine):
    """execution: run() advances a state to the next nondeterministic event"""

    def finfo(self, name):
        return self.static.info[name]

    def leaf_places(self, tyname, prefix, out):
        """scalar leaf places of a struct type, for memset"""
        rec = self.prog.record(tyname)
        if rec is None:
            out.append(prefix)
            return
        for fld in rec.c:
            if fld.k != 'field':
                continue
            ft = fld.ty or ''
            if '[' in ft:
                out.append(prefix + (fld.v,))
                continue
            if '*' not in ft and self.prog.record(ft) is not None:
                self.leaf_places(ft, prefix + (fld.v,), out)
            else:
                out.append(prefix + (fld.v,))

    def push_frame(self, st, fname, args, retdst, tail, loc):
        f = self.irp.funcs[fname]
        if len(args) != len(f.params):
            raise Imprecise('call of %s with %d arguments at %s' % (fname, len(args), fmt_loc(loc)))
        if tail:
            old = st.frames.pop()
            d = old[3]
            retdst = old[4]
            for k in [k for k in st.env if k[0] == ('L', d)]:
                del st.env[k]
        d = len(st.frames)
        if d > 32:
            raise Imprecise('call depth exceeds 32 at %s: recursion that is not in tail position (grammar not right-linear here)'
                            % fmt_loc(loc))
        st.frames.append([fname, f.entry.id, 0, d, retdst])
        for p, a in zip(f.params, args):
            st.env[(('L', d), (p,))] = a

    def do_return(self, st, v):
        fr = st.frames.pop()
        d = fr[3]
        for k in [k for k in st.env if k[0] == ('L', d)]:
            del st.env[k]
        if not st.frames:
            return ('final', v)
        if fr[4] is not None and v is not None:
            st.env[fr[4]] = v
        st.frames[-1][2] += 1
        return None

    def run(self, st):
        while True:
            st.steps += 1
            if st.steps > STEP_LIMIT:
                fr = st.frames[-1]
                raise Finding('termination', 'no-progress:%s' % fr[0], self.irp.funcs[fr[0]].loc,
                              'more than %d instructions executed without consuming input' % STEP_LIMIT)
            fr = st.frames[-1]
            fi = self.finfo(fr[0])
            b = fi.byid[fr[1]]
            try:
                if fr[2] < len(b.ins):
                    ev = self.exec_ins(st, fr, fi, b, b.ins[fr[2]])
                else:
                    ev = self.exec_term(st, fr, fi, b)
            except NeedSymbol:
                return ('sym',)
            if ev is not None:
                return ev

    def exec_term(self, st, fr, fi, b):
        t = b.term
        if t[0] == 'jmp':
            fr[1], fr[2] = t[1].id, 0
            return None
        if t[0] == 'br':
            v = self.rv(st, t[1])
            try:
                tv = self.truth(v, t[1])
            except Unknown:
                return ('choice-br', [t[2].id, t[3].id])
            if tv:
                fr[1], fr[2] = t[2].id, 0
            else:
                fr[1], fr[2] = t[3].id, 0
            return None
        if t[0] == 'switch':
            v = self.rv(st, t[1])
            try:
                tgt = self.switch_target(v, t)
            except Unknown:
                return ('choice-br', sorted(set([t[3].id] + [cb.id for _, cb in t[2]])))
            fr[1], fr[2] = tgt.id, 0
            return None
        if t[0] == 'ret':
            v = self.rv(st, t[1]) if t[1] is not None else None
            if v is not None and v[0] == 'p' and v[1] > 0:
                raise Finding('range-inside-input', 'return-beyond', t[2], 'returns a pointer %d past the last character known '
                              'to lie inside the range' % v[1])
            return self.do_return(st, v)
        raise Imprecise('terminator %r' % (t[0],))

    def switch_target(self, v, t):
        cases, default = t[2], t[3]
        if v[0] == 'c':
            return self.cquery(v, ('switch', t))
        v = self.as_int(v)
        if v[0] == 'i':
            for cv, cb in cases:
                if cv == v[1]:
                    return cb
            return default
        if v[0] == 'r':
            tg = set()
            for x in range(v[1], v[2] + 1):
                hit = default
                for cv, cb in cases:
                    if cv == x:
                        hit = cb
                        break
                tg.add(hit.id)
            if len(tg) == 1:
                return [bb for bb in [default] + [cb for _, cb in cases] if bb.id in tg][0]
            self.split_src(v, t[1])
        if self.optimistic and v[0] == 't':
            raise Unknown()
        raise Imprecise('switch on unknown value %r at %s' % (v, fmt_loc(t[4])))

    def exec_ins(self, st, fr, fi, b, ins):
        if ins.op == 'decl':
            fr[2] += 1
            return None
        if ins.op == 'assign':
            if ins.src.k == 'initlist':
                pl = self.loc_of(st, ins.dst)
                st.env[pl] = TOP
                fr[2] += 1
                return None
            v = self.rv(st, ins.src)
            pl = self.loc_of(st, ins.dst)
            self.store(st, pl, v, ins.loc)
            fr[2] += 1
            return None
        if ins.op == 'call':
            mc = manager_call(ins)
            if mc is not None:
                kind = mc[0]
                if kind == 'free':
                    v = self.rv(st, ins.args[1])
                    self.do_free(st, v, ins.loc)
                    fr[2] += 1
                    return None
                site = '%s#%d' % (fr[0], sum(1 for j in b.ins[:fr[2]] if j.op == 'call' and manager_call(j)) + 100 * b.id)
                return ('alloc', site, kind)
            tname = call_target(ins)
            if tname is None:
                raise Imprecise('indirect call at %s' % fmt_loc(ins.loc))
            args = [self.rv(st, a) for a in ins.args]
            dst = self.loc_of(st, ins.dst) if ins.dst is not None else None
            if tname in self.summaries:
                r = self.summaries[tname](self, st, ins, args)
                if isinstance(r, tuple) and r and r[0] == 'choice':
                    return r
                if dst is not None and r is not None:
                    st.env[dst] = r
                fr[2] += 1
                return None
            if tname in self.interpreted:
                for a in args:
                    if a[0] == 'p' and a[1] > 0:
                        raise Finding('range-inside-input', 'arg-beyond', ins.loc, 'passes a pointer %d past the last character '
                                      'known to lie inside the range to %s' % (a[1], tname))
                tail = (b.id, fr[2]) in fi.tail
                self.push_frame(st, tname, args, dst, tail, ins.loc)
                return None
            # opaque leaf helper: unknown result, unknown writes through pointer arguments
            callee = self.irp.funcs.get(tname)
            decl = self.prog.decls.get(tname, [None])[0]
            for j, a in enumerate(args):
                if a[0] in ('p', 'pp', 'e'):
                    raise Imprecise('input pointer passed to uninterpreted function %s at %s' % (tname, fmt_loc(ins.loc)))
                if a[0] == 'a' and a[1][0] != 'H':
                    path = a[2]
                    if path and isinstance(path[-1], int):
                        path = path[:-1]
                    for k in [k for k in st.env if k[0] == a[1] and k[1][:len(path)] == path]:
                        del st.env[k]
                    st.env[(a[1], path)] = TOP
            if dst is not None:
                st.env[dst] = TOP
            self.obs.append(('opaque-call', tname, ins.loc))
            fr[2] += 1
            return None
        raise Imprecise('instruction %s' % ins.op)

    def do_free(self, st, v, loc):
        if v == NULL:
            return
        if v[0] == 'a' and v[1][0] == 'H' and v[2] == ():
            site = v[1][1]
            n = st.heap.get(site, 0)
            if n == 0:
                raise Finding('no-double-free', 'free:%s' % site, loc, 'frees a block from %s that is not live on this path' % site)
            if n == 1:
                del st.heap[site]
            return
        raise Imprecise('free of %r at %s' % (v, fmt_loc(loc)))

    # ---- applying the outcome of an event
    def apply_alloc(self, st, site, ok):
        fr = st.frames[-1]
        fi = self.finfo(fr[0])
        ins = fi.byid[fr[1]].ins[fr[2]]
        dst = self.loc_of(st, ins.dst) if ins.dst is not None else None
        if ok:
            if self.concrete_heap:
                self.alloc_counter += 1
                site = '%s@%d' % (site, self.alloc_counter)     # concrete mode: every block is its own object
            st.heap[site] = min(2, st.heap.get(site, 0) + 1)
            v = ('a', ('H', site), ())
            if self.concrete_heap:
                ins0 = self.finfo(st.frames[-1][0]).byid[st.frames[-1][1]].ins[st.frames[-1][2]]
                self.heap_zero[('H', site)] = manager_call(ins0)[0] == 'calloc'
        else:
            st.flags['oom'] = 1
            v = NULL
        if dst is not None:
            st.env[dst] = v
        fr[2] += 1

    def apply_choice(self, st, v):
        fr = st.frames[-1]
        fi = self.finfo(fr[0])
        ins = fi.byid[fr[1]].ins[fr[2]]
        if ins.dst is not None:
            st.env[self.loc_of(st, ins.dst)] = v
        fr[2] += 1

    def apply_branch(self, st, bid):
        fr = st.frames[-1]
        fr[1], fr[2] = bid, 0

    def apply_symbol(self, st, cls, bit=0):
        """self.pa must already be the pebble age AFTER this symbol"""
        env = st.env
        newrank = 1 + max([v[2] for v in env.values() if v[0] == 'pp'] + [-1])
        for k, v in list(env.items()):
            t = v[0]
            if t == 'p' or t == 'len':
                env[k] = shift_val(v, newrank, self.pa, self.tracking)
            elif t == 'pin' and v[1] == 'f':
                env[k] = ('pin', bool(bit))
        st.win = ((cls,) + st.win)[:W]

    def apply_eof(self, st, at_end=False):
        st.eof = True
        if self.tracking:
            for k, v in list(st.env.items()):
                if v[0] == 'pin' and v[1] == 'f':
                    st.env[k] = ('pin', bool(at_end))
                elif v[0] == 'p' and v[1] == 0:
                    pass

    # ---- canonical form
    def canon(self, st):
        need = 0
        env = st.env
        nfr = len(st.frames)
        cells = []
        finfo = {}
        for idx, fr in enumerate(st.frames):
            fi = self.static.info[fr[0]]
            pt = (fr[1], fr[2]) if idx == nfr - 1 else (fr[1], fr[2] + 1)
            finfo[fr[3]] = (fi, fi.live.get(pt, frozenset()), fi.dlive.get(pt, frozenset()))
        dels = []
        for k, v in env.items():
            obj = k[0]
            if obj[0] != 'L':
                continue
            fi, live, dl = finfo[obj[1]]
            name = k[1][0]
            if name in fi.addr_taken:
                cnt = fi.fill.get(name)
                if cnt is not None and len(k[1]) == 2 and isinstance(k[1][1], int):
                    c = env.get((obj, (cnt,)))
                    if c is not None and c[0] == 'i' and k[1][1] >= c[1]:
                        dels.append(k)
                    else:
                        cells.append(k)
                continue
            if name not in live:
                dels.append(k)
                continue
            if v[0] == 'p' and v[1] < 0 and name in dl:
                if -v[1] > need:
                    need = -v[1]
        for k in dels:
            del env[k]
        ranks = sorted(set(v[2] for v in env.values() if v[0] == 'pp'))
        if ranks and ranks != list(range(len(ranks))):
            rm = dict((r, i) for i, r in enumerate(ranks))
            for k, v in list(env.items()):
                if v[0] == 'pp':
                    env[k] = ('pp', v[1], rm[v[2]]) + tuple(v[3:])
        st.win = st.win[:need]
        st.steps = 0
        kept = []
        if cells:
            vals = [(k, env.pop(k)) for k in cells]
            base = frozenset(env.items())
            pkey = (tuple(tuple(f) for f in st.frames), base, st.win, st.eof,
                    frozenset(st.heap.items()), frozenset(st.flags.items()))
            if not self.optimistic:
                lk = pkey
                if self.tracking:
                    # the pre-analysis ran without pebble information: look its verdict up under the pebble-free view
                    nb = frozenset((k, (('pin', None) if v[0] == 'pin' else (v[:3] + (None,) if v[0] == 'pp' else v)))
                                   for k, v in base)
                    lk = (pkey[0], nb) + pkey[2:]
                needs = self.cellneeds.get(lk) if self.cellneeds is not None else None
                for k, v in vals:
                    if needs is None or (k[0][1], k[1][0], k[1][1]) in needs:
                        env[k] = v
                        kept.append((k, v))
            return pkey + (tuple(sorted(kept, key=repr)),)
        return (tuple(tuple(f) for f in st.frames), frozenset(env.items()), st.win, st.eof,
                frozenset(st.heap.items()), frozenset(st.flags.items()), ())
