"""CFG utilities: dominators, edge facts, constant folding of conditions."""
from .ir import const_value, strip_casts
from . import pp


def dominators(f):
    """idom-free simple dominator sets: dom[b.id] = set of block ids dominating b."""
    blocks = f.blocks
    allb = set(b.id for b in blocks)
    dom = {b.id: set(allb) for b in blocks}
    dom[f.entry.id] = {f.entry.id}
    changed = True
    order = blocks
    while changed:
        changed = False
        for b in order:
            if b is f.entry:
                continue
            ps = [dom[p.id] for p in b.preds]
            if ps:
                new = set.intersection(*ps) | {b.id}
            else:
                new = {b.id}
            if new != dom[b.id]:
                dom[b.id] = new
                changed = True
    return dom


def edge_conditions(f):
    """For every block B: list of (cond_expr, truth) that hold on every path reaching B,
    derived from branch edges (D --cond=truth--> S) where S has D as its only predecessor
    and S dominates B.  Also switch edges: (expr, ('case', values)) / (expr, ('default', values))."""
    dom = dominators(f)
    byid = {b.id: b for b in f.blocks}
    edge_fact = {}   # block id S -> list of facts established on entry to S
    for d in f.blocks:
        t = d.term
        if t[0] == 'br':
            for succ, truth in ((t[2], True), (t[3], False)):
                if len(succ.preds) == 1 and t[2] is not t[3]:
                    edge_fact.setdefault(succ.id, []).append((t[1], truth, d))
        elif t[0] == 'switch':
            targets = {}
            for v, b in t[2]:
                targets.setdefault(b.id, []).append(v)
            allvals = [v for v, _ in t[2]]
            for bid, vals in targets.items():
                b = byid.get(bid)
                if b is not None and all(p is d for p in b.preds) and bid != t[3].id:
                    edge_fact.setdefault(bid, []).append((t[1], ('case', tuple(vals)), d))
            db = t[3]
            if all(p is d for p in db.preds) and db.id not in targets:
                edge_fact.setdefault(db.id, []).append((t[1], ('default', tuple(allvals)), d))
    facts = {}
    for b in f.blocks:
        fl = []
        for did in dom[b.id]:
            fl.extend(edge_fact.get(did, []))
        facts[b.id] = fl
    return facts, dom


def assigned_vars(f):
    """names of locals/params that are assigned (other than their declaration init) and
    names whose address is taken."""
    assigned = {}
    addr = set()
    for b in f.blocks:
        for i in b.ins:
            if i.op in ('assign',) and i.dst.k == 'ref':
                assigned[i.dst.v] = assigned.get(i.dst.v, 0) + 1
            if i.op == 'call' and i.dst is not None and i.dst.k == 'ref':
                assigned[i.dst.v] = assigned.get(i.dst.v, 0) + 1
            for e in ([i.src] if i.src is not None else []) + (i.args or []) + ([i.dst] if i.dst is not None else []):
                for n in e.walk():
                    if n.k == 'un' and n.v == '&':
                        s = strip_casts(n.c[0])
                        if s.k == 'ref':
                            addr.add(s.v)
    return assigned, addr


def null_test(cond):
    """If cond is `e == NULL`, `e != NULL`, or bare pointer e, return (e, is_null_when_true)."""
    c = cond
    while c.k == 'cast' and c.v in ('IntegralCast', 'NoOp'):
        c = c.c[0]
    if c.k == 'bin' and c.v in ('==', '!='):
        a, b = c.c
        va, vb = const_value(a), const_value(b)
        ta = (a.ty or '')
        tb = (b.ty or '')
        if vb == 0 and ('*' in ta):
            return a, c.v == '=='
        if va == 0 and ('*' in tb):
            return b, c.v == '=='
        return None
    if c.k == 'cast' and c.v in ('PointerToBoolean',):
        return c.c[0], False
    if '*' in (c.ty or '') and c.k != 'bin':
        return c, False
    return None


def expr_key(n):
    """Structural key of a pure expression, ignoring casts and locations."""
    n2 = n
    return pp.expr(_strip_all(n2))


def _strip_all(n):
    from .frontend import N
    if n is None:
        return None
    if n.k == 'cast':
        return _strip_all(n.c[0])
    if not n.c:
        return n
    return N(n.k, n.v, n.ty, n.loc, [_strip_all(c) for c in n.c], n.x)
