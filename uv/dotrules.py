"""Dot-segment removal: which dot segments may survive, and which may not be dropped (path-sensitive fact flow over
uriRemoveDotSegmentsEx, every path through the loop body).

  dots-removed    (RFC 3986 5.2.4, needed by resolution) unless the function is in relative mode - the `relative`
                  parameter tested true on the path - a segment established to be "." or ".." is freed or overwritten by
                  the empty placeholder before the walk moves on or returns;
  essential-dot   (round trip) in relative mode a "." is dropped only after the path has established that it is not the
                  current head (`walker != uri->pathHead`, or its back link is non-NULL), or that it is the last segment,
                  or that the scan of the next segment's text reached its end without meeting ':';
  new-head-colon  (relative mode) a segment that becomes the head of the path through a removal has been scanned for ':'
                  (else "a/../b:c" turns into "b:c");
  updir-kept      (relative mode) ".." is dropped only when a predecessor exists and the path has established that the
                  predecessor is not ".." itself;
  absolute-entry  uriRemoveDotSegmentsAbsolute passes constant false for `relative`.

"Established to be a dot segment" = true edge of a comparison of `(w->text.first)[k]` with '.', the idiom of the
function; the rules key on those tests, on the parameter position of `relative`, and on what is freed - not on names of
flag locals (their constant values only prune infeasible branch combinations)."""
import re

from .ir import strip_casts, const_value, manager_call, call_target
from .cfgutil import expr_key, null_test
from .factflow import explore, Hooks
from .tables import base_name
from .frontend import fmt_loc, AnalysisBroken


def _ref(e):
    s = strip_casts(e)
    return s.v if s is not None and s.k == 'ref' else None


def _dot_compare(cond, prog):
    """(var, index, negated) if cond is `(var->text.first)[index] ==/!= '.'`"""
    c = strip_casts(cond)
    if c is None or c.k != 'bin' or c.v not in ('==', '!='):
        return None
    for a, b in ((c.c[0], c.c[1]), (c.c[1], c.c[0])):
        if const_value(b, prog) != 46:
            continue
        x = strip_casts(a)
        if x is None or x.k != 'index':
            continue
        idx = const_value(x.c[1], prog)
        base = strip_casts(x.c[0])
        if idx is None or base is None or base.k != 'member' or base.v != 'first':
            continue
        t = strip_casts(base.c[0])
        if t is None or t.k != 'member' or t.v != 'text':
            continue
        v = _ref(t.c[0])
        if v is not None:
            return v, idx, c.v == '!='
    return None


class DotHooks(Hooks):
    def __init__(self, f, prog):
        self.f = f
        self.prog = prog
        self.rel = f.params[1]
        self.uri = f.params[0]
        self.bad = []
        self.sites = {'dot-tests': set(), 'removals': set(), 'advances': set()}
        self.established = set()

    def _aliases(self, facts, v):
        out = {v}
        for x in facts:
            if x[0] == 'same':
                if x[1] == v:
                    out.add(x[2])
                if x[2] == v:
                    out.add(x[1])
        return out

    def _dots(self, facts, v):
        """[('dot', v, n)] if the path has established that the segment named by v is "." (n=1) or ".." (n=2)"""
        if ('seglen', v, 1) in facts and ('d0', v) in facts:
            self.established.add((v, 1))
            return [('dot', v, 1)]
        if ('seglen', v, 2) in facts and ('d0', v) in facts and ('d1', v) in facts:
            self.established.add((v, 2))
            return [('dot', v, 2)]
        return []

    def _seglen_of(self, e):
        """X if e is `X->text.afterLast - X->text.first`"""
        m = re.match(r'^\(?\(?([A-Za-z_][A-Za-z0-9_#]*)->text\.afterLast - ([A-Za-z_][A-Za-z0-9_#]*)->text\.first\)?\)?$', expr_key(e))
        if m and m.group(1) == m.group(2):
            return m.group(1)
        return None

    def case(self, b, e, value, facts):
        v = _ref(e)
        if v is None:
            return facts
        for x in facts:
            if x[0] == 'lenof' and x[1] == v:
                facts = frozenset(y for y in facts if not (y[0] == 'seglen' and y[1] == x[2]))
                if value is not None:
                    facts = facts | {('seglen', x[2], value)}
                else:
                    facts = facts | {('notupdir', x[2])}
        return facts

    def _leave(self, facts, v, loc):
        """the walk leaves the node named by v (v reassigned, or return)"""
        dots = self._dots(facts, v)
        if dots and ('removed', v) not in facts and ('rel', True) not in facts:
            self.bad.append((loc, 'dots-removed', v, 'a segment established to be "%s" is still in the list when the walk moves on, on a path '
                             'where `%s` was not tested true' % ('.' * dots[0][2], self.rel)))

    def _kill(self, facts, v, loc):
        self._leave(facts, v, loc)
        pat = re.compile(r'(?<![A-Za-z0-9_.>#])%s(?![A-Za-z0-9_#])' % re.escape(v))
        return frozenset(x for x in facts if x[0] == 'rel' or not any(isinstance(y, str) and pat.search(y) for y in x[1:]))

    def _removal(self, facts, v, loc, freed=False):
        self.sites['removals'].add(str(loc))
        for w in self._aliases(facts, v):
            dots = self._dots(facts, w)
            if not dots or ('removed', w) in facts:
                continue
            n = dots[0][2]
            if freed and n == 1 and ('last', w) in facts and any(('nonnull', x[2]) in facts for x in facts if x[0] == 'pred' and x[1] == w):
                self.bad.append((loc, 'trailing-dot', w, 'a "." established to be the last segment and not the head of the path is released: '
                                 'the trailing slash it stands for is lost unless it is rewritten to the empty segment'))
            if ('rel', True) in facts and n == 1:
                if not (('nothead', w) in facts or ('last', w) in facts or ('nocolon', w) in facts):
                    self.bad.append((loc, 'essential-dot', w, 'in relative mode a "." is dropped although the path has not established that it is '
                                     'not the current head of the path, nor that it is the last segment, nor that the next segment contains no ":"'))
            if ('rel', True) in facts and n == 2:
                preds = [x[2] for x in facts if x[0] == 'pred' and x[1] == w]
                ok = any(('nonnull', p) in facts and ('notupdir', p) in facts for p in preds)
                if not ok:
                    import os
                    if os.environ.get('DOTDBG'):
                        print('DBG', loc, sorted(facts, key=str))
                    self.bad.append((loc, 'updir-kept', w, 'in relative mode a ".." is dropped although the path has not established that a '
                                     'predecessor exists and is not ".." itself'))
            facts = facts | {('removed', w)}
        return facts

    def instr(self, b, idx, i, facts):
        if i.op == 'call':
            mc = manager_call(i)
            if mc and mc[0] == 'free' and len(i.args) > 1:
                v = _ref(i.args[1])
                if v is not None and 'PathSegment' in (self.f.locals.get(v) or ''):
                    facts = self._removal(facts, v, i.loc, freed=True)
                return facts
            if i.dst is not None and i.dst.k == 'ref':
                facts = self._kill(facts, i.dst.v, i.loc)
                t = call_target(i)
                if t is not None and base_name(t) == 'uriIsHostSet':
                    facts = facts | {('hostcall', i.dst.v)}
                return facts
            return facts
        if i.op != 'assign':
            return facts
        d = strip_casts(i.dst)
        s = strip_casts(i.src)
        if d is None:
            return facts
        if d.k == 'ref':
            v = d.v
            if 'PathSegment' in (d.ty or '') and self._dots(facts, v):
                self.sites['advances'].add(str(i.loc))
            walkvar = any(x[0] == 'lenof' and x[2] == v for x in facts)
            facts = self._kill(facts, v, i.loc)
            if walkvar:
                # the walk moves on to another node: what was established about the old one and about the locals of the
                # loop body is void; the mode and the host test are properties of the call
                return frozenset(x for x in facts if x[0] in ('rel', 'hostset'))
            cv = const_value(i.src, self.prog)
            if cv is not None:
                if cv == 0 and '*' in (d.ty or ''):
                    return facts | {('null', v)}
                return facts | {('cv', v, cv)}
            if s is not None:
                X = self._seglen_of(s)
                if X is not None:
                    return facts | {('lenof', v, X)}
            if 'PathSegment' not in (d.ty or ''):
                return facts
            if s is not None and s.k == 'ref' and s.v != v:
                return facts | {('same', v, s.v)}
            if s is not None and s.k == 'member' and s.v == 'reserved':
                n = _ref(s.c[0])
                if n is not None and n != v:
                    return facts | {('pred', n, v)}
            if s is not None and s.k == 'member' and s.v == 'next':
                n = _ref(s.c[0])
                if n is not None and n != v:
                    return facts | {('succ', n, v)}
            return facts
        # the node is turned into the empty placeholder: w->text.first = <address of the static empty text>
        if d.k == 'member' and d.v == 'first':
            t = strip_casts(d.c[0])
            if t is not None and t.k == 'member' and t.v == 'text':
                v = _ref(t.c[0])
                if v is not None and s is not None and 'SafeToPointTo' in expr_key(s):
                    facts = self._removal(facts, v, i.loc)
                    facts = facts | set(('placeholder', w) for w in self._aliases(facts, v))
        # a segment that was not the head becomes the head: in relative mode its text must be known to contain no ':'
        if d.k == 'member' and d.v == 'pathHead' and ('rel', False) not in facts and const_value(i.src, self.prog) is None:
            owner = None
            if s is not None and s.k == 'member' and s.v == 'next':
                owner = _ref(s.c[0])
            elif s is not None and s.k == 'ref':
                ow = [x[1] for x in facts if x[0] == 'succ' and x[2] == s.v]
                owner = ow[0] if ow else None
            if owner is not None:
                self.sites.setdefault('new-heads', set()).add(str(i.loc))
                if ('nocolon', owner) not in facts:
                    self.bad.append((i.loc, 'new-head-colon', owner, 'the segment behind `%s` becomes the first segment of the path on a path '
                                     'where relative mode is not excluded and its text was not scanned for ":": "a/../b:c" becomes "b:c", '
                                     'which is read back with scheme b' % owner))
        # the function itself makes the path of a relative reference empty
        if d.k == 'member' and d.v in ('pathHead', 'pathTail') and ('rel', True) in facts and ('hostset', True) not in facts:
            if d.v == 'pathHead' and const_value(i.src, self.prog) == 0:
                self.bad.append((i.loc, 'nonempty-relative', 'head-null', 'in relative mode, on a path that has not established a host, the '
                                 'last remaining segment is released and the path becomes empty'))
            sv = _ref(i.src)
            if sv is not None and ('placeholder', sv) in facts:
                other = 'pathTail' if d.v == 'pathHead' else 'pathHead'
                if ('is', other, sv) in facts or any(('is', other, a) in facts for a in self._aliases(facts, sv)):
                    self.bad.append((i.loc, 'nonempty-relative', 'placeholder-only', 'in relative mode, on a path that has not established a '
                                     'host, the empty placeholder becomes the only segment: the path is written as the empty string'))
                facts = facts | {('is', d.v, sv)}
        return facts

    def edge(self, b, cond, truth, facts):
        from .failclean import zero_test
        zt = zero_test(cond, self.prog)
        if zt is not None:
            var, zero_when_true = zt
            nonzero = (zero_when_true != truth)
            if ('hostcall', var) in facts:
                facts = facts | {('hostset', nonzero)}
            if var == self.rel:
                if ('rel', not nonzero) in facts:
                    return None
                facts = facts | {('rel', nonzero)}
            for x in facts:
                if x[0] == 'cv' and x[1] == var and ((x[2] != 0) != nonzero):
                    return None
        dc = _dot_compare(cond, self.prog)
        if dc is not None:
            v, idx, neg = dc
            self.sites['dot-tests'].add(str(getattr(cond, 'loc', None)))
            is_dot = (truth != neg)
            if is_dot:
                if idx in (0, 1):
                    facts = facts | {('d%d' % idx, v)}
            else:
                facts = facts | {('notupdir', v)}
            return facts
        c = strip_casts(cond)
        if c is not None and c.k == 'bin' and c.v in ('==', '!='):
            ka, kb = expr_key(c.c[0]), expr_key(c.c[1])
            head = '%s->pathHead' % self.uri
            if head in (ka, kb):
                other = _ref(c.c[0] if kb == head else c.c[1])
                if other is not None and ((c.v == '==') != truth):
                    facts = facts | {('nothead', other)}
                return facts
            # a length test of a segment: through the difference itself or through a local that holds it
            for side, val in ((c.c[0], c.c[1]), (c.c[1], c.c[0])):
                n = const_value(val, self.prog)
                if n is None:
                    continue
                X = self._seglen_of(side)
                if X is None:
                    r = _ref(side)
                    for x in facts:
                        if x[0] == 'lenof' and x[1] == r:
                            X = x[2]
                if X is None:
                    continue
                if (c.v == '==') == truth:
                    if any(x[0] == 'seglen' and x[1] == X and x[2] != n for x in facts):
                        return None
                    facts = facts | {('seglen', X, n)}
                else:
                    if ('seglen', X, n) in facts:
                        return None
                    if n == 2:
                        facts = facts | {('notupdir', X)}
        if c is not None and c.k == 'bin' and c.v in ('<', '>=', '!=', '=='):
            # scan of the next segment's text reached its end
            for side, lt_true in ((c.c[1], True), (c.c[0], False)):
                k = expr_key(side)
                m = re.match(r'^\(?([A-Za-z_][A-Za-z0-9_#]*)->next->text\.afterLast\)?$', k)
                owners = [m.group(1)] if m else []
                m2 = re.match(r'^\(?([A-Za-z_][A-Za-z0-9_#]*)->text\.afterLast\)?$', k)
                if m2:
                    owners += [x[1] for x in facts if x[0] == 'succ' and x[2] == m2.group(1)]
                for w in owners:
                    ended = (c.v in ('<', '!=') and not truth) or (c.v in ('>=', '==') and truth)
                    if ended:
                        facts = facts | {('nocolon', w)}
        nt = null_test(cond)
        if nt is not None:
            e, null_when_true = nt
            k = expr_key(e)
            is_null = (null_when_true == truth)
            if (('null', k) in facts and not is_null) or (('nonnull', k) in facts and is_null):
                return None
            facts = facts | {('null', k) if is_null else ('nonnull', k)}
            m = re.match(r'^\(?([A-Za-z_][A-Za-z0-9_#]*)->next\)?$', k)
            if m and is_null:
                facts = facts | {('last', m.group(1))}
            if is_null:
                for x in list(facts):
                    if x[0] == 'succ' and x[2] == k:
                        facts = facts | {('last', x[1])}
            if not is_null:
                for x in list(facts):
                    if x[0] == 'pred' and x[2] == k:
                        facts = facts | {('nothead', x[1])}
        return facts

    def ret(self, b, term, facts):
        for x in list(facts):
            if x[0] == 'd0':
                self._leave(facts, x[1], term[2])


def rule_dot_removal(ctx, chk, rules, prefix=''):
    """rules: subset of ('dots-removed', 'essential-dot', 'updir-kept', 'absolute-entry') mapped to rule names of chk"""
    irp = ctx.irp
    n = 0
    for suf in ('A', 'W'):
        name = 'uriRemoveDotSegmentsEx' + suf
        if name not in irp.funcs:
            raise AnalysisBroken('%s not found' % name)
        f = irp.funcs[name]
        if len(f.params) < 2 or 'UriBool' not in (f.param_types.get(f.params[1]) or ''):
            raise AnalysisBroken('%s: the relative-mode parameter is not where it was' % name)
        h = DotHooks(f, ctx.prog)
        explore(f, h, limit=60000)
        if len(h.sites['dot-tests']) < 2 or len(h.sites['removals']) < 4 or len(set(n for _, n in h.established)) < 2:
            raise AnalysisBroken('%s: dot tests / removals not recognised (%r)' % (name, dict((k, len(v)) for k, v in h.sites.items())))
        n += len(h.sites['removals'])
        if 'nonempty-relative' in rules:
            found = {}
            for loc, kind, site, detail in h.bad:
                if kind == 'nonempty-relative' and site not in found:
                    found[site] = (loc, detail)
            for site, (loc, detail) in sorted(found.items()):
                chk.bad(rules['nonempty-relative'], 'empty-path:%s' % site, loc, '%s, %s: %s' % (name, fmt_loc(loc), detail), func=name)
            if not found:
                chk.ok(rules['nonempty-relative'], 'empty-path:none:%s' % name, f.loc, 'no path through the loop body empties the path in '
                       'relative mode without an established host', func=name)
        for kind in ('dots-removed', 'essential-dot', 'updir-kept', 'new-head-colon', 'trailing-dot'):
            if kind not in rules:
                continue
            bad = [x for x in h.bad if x[1] == kind]
            if bad:
                loc, _, v, detail = bad[0]
                chk.bad(rules[kind], '%s:%s' % (kind, base_name(name)), loc, '%s, %s: %s' % (name, fmt_loc(loc), detail), func=name)
            else:
                chk.ok(rules[kind], '%s:%s' % (kind, name), f.loc, '%d removal sites, %d dot tests, all paths through the loop body'
                       % (len(h.sites['removals']), len(h.sites['dot-tests'])), func=name)
        if 'absolute-entry' in rules:
            an = 'uriRemoveDotSegmentsAbsolute' + suf
            g = irp.funcs.get(an)
            if g is None:
                raise AnalysisBroken('%s not found' % an)
            calls = [i for b in g.blocks for i in b.ins if i.op == 'call' and call_target(i) == name]
            ok = bool(calls) and all(len(i.args) > 1 and _const_arg(i.args[1], g, ctx.prog) == 0 for i in calls)
            chk.add(rules['absolute-entry'], 'absolute-entry:%s' % (an if ok else base_name(an)), ok, calls[0].loc if calls else g.loc,
                    '%s passes %s for `%s`' % (an, 'constant false' if ok else 'something other than constant false', f.params[1]), func=an)
    return n


def _const_arg(e, g, prog):
    v = const_value(e, prog)
    if v is not None:
        return v
    # a const local initialised once with a constant
    r = _ref(e)
    if r is None:
        return None
    vals = [const_value(i.src, prog) for b in g.blocks for i in b.ins if i.op == 'assign' and i.dst is not None and i.dst.k == 'ref' and i.dst.v == r]
    if len(vals) == 1:
        return vals[0]
    return None
