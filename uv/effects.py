"""E3: may-write / may-free summaries over access paths with alias edges, specialised by
known argument facts (integer constant, NULL, non-NULL).

Objects are (root, steps): root 'P:<param>' memory the parameter points to on entry,
'L:<local>' a local variable, 'G:<global>', 'F:<func>:<line>' a block obtained from a
manager call, 'S' string literal, 'FN:<f>' function, 'U' unknown.  steps are field names
and '*' (dereference of a pointer stored in the object); k-limited.
"""
from .frontend import AnalysisBroken, fmt_loc
from .ir import const_value, strip_casts, call_target, manager_call, is_tmp
from .cfgutil import edge_conditions, assigned_vars, null_test, expr_key
from . import pp

K = 7
_EMPTY = frozenset()
ELL = '\u2026'

PURE_EXTERNALS = {'memcmp', 'strlen', 'wcslen', 'strncmp', 'wcsncmp', '__errno_location', '__assert_fail',
                  'strcmp', 'wcscmp'}
ALLOC_EXTERNALS = {'malloc', 'calloc', 'realloc', 'reallocarray'}


def obj_add(o, *steps):
    root, st = o
    if st and st[-1] == ELL:
        return o
    for x in steps:
        if x != '*' and x in st:
            # recursive structure: a repeated field name collapses to its first occurrence
            st = st[:st.index(x) + 1]
        else:
            st = st + (x,)
    if len(st) > K:
        st = st[:K] + (ELL,)
    return (root, st)


def fmt_obj(o):
    root, st = o
    s = root
    for x in st:
        if x == '*':
            s = '*(' + s + ')'
        else:
            s = s + '.' + x
    return s


class Effect(object):
    __slots__ = ('kind', 'obj', 'guarded', 'loc', 'func', 'via')

    def __init__(self, kind, obj, guarded, loc, func, via=None):
        self.kind = kind        # 'w' write, 'f' free
        self.obj = obj
        # tags: 'owner' = dominated by an owner test of the URI the text handle belongs to;
        # 'nonempty' = free of R.first dominated by a test that range R is not empty
        self.guarded = frozenset(guarded) if guarded else frozenset()
        self.loc = loc
        self.func = func
        self.via = via

    def key(self):
        return (self.kind, self.obj, self.guarded)


class Summary(object):
    def __init__(self):
        self.effects = {}      # key -> Effect
        self.ret = set()
        self.heap = {}         # obj -> set(obj)   (only P:/G:/U/F: rooted keys exported)
        self.copy = {}         # obj -> set(obj)
        self.size = 0
        self.defaults = None   # location of a reachable `X = &defaultMemoryManager` (own or in a callee)
        self.mgr_use = set()   # manager parameters whose entry value may be the receiver of a manager call
        self.allocs = False    # a manager allocation is reachable in this context (transitively)

    def measure(self):
        return (len(self.effects), len(self.ret), sum(len(v) for v in self.heap.values()) + len(self.heap),
                sum(len(v) for v in self.copy.values()), self.defaults is not None, len(self.mgr_use), self.allocs)


def is_ptr_type(t):
    return bool(t) and ('*' in t or '[' in t)


def is_record_type(t, prog):
    if not t or '*' in t:
        return False
    return prog.record(t) is not None


class FuncAnalysis(object):
    """Flow-insensitive analysis of one function in one context."""

    def __init__(self, eng, f, ctx):
        self.eng = eng
        self.f = f
        self.ctx = ctx                # tuple of (param, value) value: int | 'nonnull'
        self.binding = dict(ctx)
        self.heap = {}
        self.copy = {}
        self.effects = {}
        self.ret = set()
        self.calls_ctx = {}
        self.defaults = None
        self.mgr_use = set()
        self.allocs = False
        for p in f.params:
            self.heap[('L:' + p, ())] = {('P:' + p, ())}
        self.facts, self.dom = eng.facts(f)
        self.assigned, self.addr = eng.assigned(f)
        self.consts = self._const_locals()
        self.reach = self._reachable()

    # ---- constants and pruning
    def _const_locals(self):
        """locals assigned exactly once with a constant and never address-taken."""
        out = {}
        for b in self.f.blocks:
            for i in b.ins:
                if i.op == 'assign' and i.dst.k == 'ref' and self.assigned.get(i.dst.v, 0) == 1 \
                        and i.dst.v not in self.addr and i.dst.v not in self.f.params:
                    v = const_value(i.src, self.eng.prog)
                    if v is not None:
                        out[i.dst.v] = v
        return out

    def value_of(self, e):
        """int | 'nonnull' | None for a pure expression under the context bindings."""
        v = const_value(e, self.eng.prog)
        if v is not None:
            return v
        k = e.k
        if k == 'cast':
            return self.value_of(e.c[0])
        if k == 'ref':
            if e.v in self.binding and self.assigned.get(e.v, 0) == 0 and e.v not in self.addr:
                return self.binding[e.v]
            if e.v in self.consts:
                return self.consts[e.v]
            return None
        if k == 'un' and e.v == '&':
            return 'nonnull'
        if k == 'un' and e.v == '!':
            v = self.value_of(e.c[0])
            if v is None:
                return None
            return 0 if v else 1
        if k == 'bin':
            a = self.value_of(e.c[0])
            b = self.value_of(e.c[1])
            op = e.v
            if op in ('==', '!='):
                if a is None or b is None:
                    return None
                if a == 'nonnull' or b == 'nonnull':
                    other = b if a == 'nonnull' else a
                    if other == 0:
                        return 0 if op == '==' else 1
                    return None
                return int((a == b) == (op == '=='))
            if op == '&':
                if a == 0 or b == 0:
                    return 0
            if op == '*':
                if a == 0 or b == 0:
                    return 0
            if isinstance(a, int) and isinstance(b, int):
                try:
                    return {'+': a + b, '-': a - b, '*': a * b, '&': a & b, '|': a | b, '<': int(a < b),
                            '>': int(a > b), '<=': int(a <= b), '>=': int(a >= b)}.get(op)
                except Exception:
                    return None
        return None

    def _reachable(self):
        seen = set()
        st = [self.f.entry]
        while st:
            b = st.pop()
            if b.id in seen:
                continue
            seen.add(b.id)
            t = b.term
            if t[0] == 'br':
                v = self.value_of(t[1])
                if v is None:
                    st.extend([t[2], t[3]])
                elif v == 'nonnull' or v:
                    st.append(t[2])
                else:
                    st.append(t[3])
            elif t[0] == 'switch':
                v = self.value_of(t[1])
                if isinstance(v, int):
                    tg = [bb for val, bb in t[2] if val == v]
                    st.append(tg[0] if tg else t[3])
                else:
                    st.extend(b.succs())
            else:
                st.extend(b.succs())
        return seen

    # ---- points-to
    def load(self, objs, depth=0):
        out = set()
        for o in objs:
            out |= self.heap.get(o, _EMPTY)
            r = o[0]
            if r[0] in 'PGU':
                out.add(obj_add(o, '*'))
            elif r[0] == 'F' and r in self.eng.foreign_fresh(self.f.name):
                pass
            # copy edges on prefixes
            if self.copy and depth < 3:
                root, st = o
                for i in range(len(st) + 1):
                    pre = (root, st[:i])
                    if pre in self.copy:
                        rest = st[i:]
                        srcs = set(obj_add(q, *rest) for q in self.copy[pre])
                        out |= self.load(srcs, depth + 1)
        return out

    def lv(self, e):
        k = e.k
        if k == 'ref':
            dk = e.x.get('dk') if e.x else None
            if dk == 'FunctionDecl':
                return {('FN:' + e.v, ())}
            if e.v in self.f.locals or e.v in self.f.param_types or (e.x and e.x.get('tmp')):
                return {('L:' + e.v, ())}
            if dk == 'EnumConstantDecl':
                return set()
            return {('G:' + e.v, ())}
        if k == 'member':
            if e.x['arrow']:
                return set(obj_add(o, e.v) for o in self.pts(e.c[0]))
            return set(obj_add(o, e.v) for o in self.lv(e.c[0]))
        if k == 'index':
            return self.pts(e.c[0])
        if k == 'un' and e.v == '*':
            return self.pts(e.c[0])
        if k == 'cast':
            return self.lv(e.c[0])
        if k == 'str':
            return {('S', ())}
        return set()

    def pts(self, e):
        k = e.k
        if k == 'cast':
            cv = e.v
            if cv == 'LValueToRValue':
                return self.load(self.lv(e.c[0]))
            if cv == 'ArrayToPointerDecay':
                return self.lv(e.c[0])
            if cv == 'NullToPointer':
                return set()
            if cv == 'FunctionToPointerDecay':
                return self.lv(e.c[0])
            return self.pts(e.c[0])
        if k == 'ref':
            if e.x and e.x.get('tmp'):
                return self.load({('L:' + e.v, ())})
            # bare ref used as rvalue (should be wrapped by LValueToRValue); be permissive
            return self.load(self.lv(e))
        if k == 'un':
            if e.v == '&':
                return self.lv(e.c[0])
            if e.v == '*':
                return self.load(self.pts(e.c[0]))
            return set()
        if k == 'bin':
            if e.v in ('+', '-'):
                out = set()
                for c in e.c:
                    if is_ptr_type(c.ty):
                        out |= self.pts(c)
                return out
            return set()
        if k in ('member', 'index'):
            return self.load(self.lv(e))
        if k == 'str':
            return {('S', ())}
        if k == 'initlist':
            out = set()
            for c in e.c:
                out |= self.pts(c)
            return out
        return set()

    # ---- owner guards
    def owner_guards(self, b):
        """set of URI objects whose owner flag is known true when block b runs."""
        out = set()
        for cond, truth, _d in self.facts.get(b.id, []):
            if not isinstance(truth, bool):
                continue
            c = strip_casts(cond)
            want = True
            # forms: X->owner ; X->owner == 1 ; X->owner != 0
            if c.k == 'bin' and c.v in ('==', '!='):
                cv = const_value(c.c[1], self.eng.prog)
                if cv is None:
                    continue
                side = strip_casts(c.c[0])
                if cv == 0:
                    want = (c.v == '!=')
                elif cv == 1:
                    want = (c.v == '==')
                    if c.v == '!=':
                        continue   # X->owner != 1 false -> owner==1 ; handle below
                else:
                    continue
                c2 = side
            else:
                c2 = c
            if c2.k == 'member' and c2.v == 'owner':
                if truth == want:
                    if c2.x['arrow']:
                        out |= self.pts(c2.c[0])
                    else:
                        out |= self.lv(c2.c[0])
        return out

    def ifparam_tags(self, b):
        """tags 'ifparam:<p>' for never-reassigned integer parameters p tested true on every path to b"""
        out = set()
        for cond, truth, _d in self.facts.get(b.id, []):
            if not isinstance(truth, bool):
                continue
            c = strip_casts(cond)
            want = True
            if c.k == 'bin' and c.v in ('==', '!='):
                cv = const_value(c.c[1], self.eng.prog)
                if cv == 0:
                    want = (c.v == '!=')
                elif cv == 1 and c.v == '==':
                    want = True
                else:
                    continue
                c = strip_casts(c.c[0])
            if c.k == 'ref' and c.v in self.f.param_types and not is_ptr_type(self.f.param_types[c.v]) \
                    and self.assigned.get(c.v, 0) == 0 and c.v not in self.addr and truth == want:
                out.add('ifparam:' + c.v)
        return out

    def witness(self, b, a):
        """what does a true value of boolean argument expression a (evaluated in block b) imply?
        returns (kind, tags): kind 'const0' | 'const1' | 'tags' | None"""
        v = self.value_of(a)
        if v == 0:
            return 'const0', set()
        if isinstance(v, int) or v == 'nonnull':
            return 'const1', set()
        c = strip_casts(a)
        if c.k == 'ref' and c.v in self.f.param_types and self.assigned.get(c.v, 0) == 0 and c.v not in self.addr:
            return 'tags', {'ifparam:' + c.v}
        t = self._owner_term(c)
        if t is not None:
            return 'tags', t
        if is_tmp(c):
            # short-circuit temporary: collect the edge conditions under which it is set to non-zero
            ones = []
            for bb in self.f.blocks:
                for ins in bb.ins:
                    if ins.op == 'assign' and ins.dst.k == 'ref' and ins.dst.v == c.v:
                        cv = const_value(ins.src, self.eng.prog)
                        if cv is None:
                            return None, set()
                        if cv:
                            ones.append(bb)
            terms = []
            for bb in ones:
                # every way into bb must carry an accepted condition
                st = [bb]
                seen = set()
                while st:
                    x = st.pop()
                    if x.id in seen:
                        continue
                    seen.add(x.id)
                    for p in x.preds:
                        tm = p.term
                        if tm[0] == 'jmp':
                            st.append(p)
                            continue
                        if tm[0] != 'br':
                            return None, set()
                        truth = (tm[2] is x)
                        tg = self._owner_term(strip_casts(tm[1]), truth)
                        if tg is None:
                            return None, set()
                        terms.append(tg)
            if terms:
                roots = set(t for tg in terms for t in tg if isinstance(t, tuple))
                if len(roots) <= 1:
                    out = set(roots)
                    if any('donemask' in tg for tg in terms):
                        out.add('donemask')
                    return 'tags', out
        return None, set()

    def _owner_term(self, c, truth=True):
        """tags implied by condition c having the given truth: owner test of a URI, or a test of a
        done-mask bit (the mask protocol is checked by the allocation typestate rules)"""
        want = True
        c0 = c
        if c.k == 'bin' and c.v in ('==', '!='):
            cv = const_value(c.c[1], self.eng.prog)
            if cv == 0:
                want = (c.v == '!=')
            elif cv == 1 and c.v == '==':
                want = True
            else:
                return None
            c = strip_casts(c.c[0])
        if truth != want:
            return None
        if c.k == 'member' and c.v == 'owner':
            objs = self.pts(c.c[0]) if c.x['arrow'] else self.lv(c.c[0])
            if len(objs) == 1:
                return {('owner', next(iter(objs)))}
            return None
        if c.k == 'bin' and c.v == '&':
            l = strip_casts(c.c[0])
            if l.k == 'ref' and 'Mask' in l.v:
                return {'donemask'}
        return None

    def handles_guarded(self, handles, guards):
        """{('owner', U)} if every handle lies inside the same URI object U whose owner flag is
        known true here, else empty."""
        if not handles or not guards:
            return frozenset()
        us = set()
        for h in handles:
            ok = None
            for g in guards:
                if h[0] == g[0] and h[1][:len(g[1])] == g[1]:
                    if ok is None or len(g[1]) > len(ok[1]):
                        ok = g
            if ok is None:
                return frozenset()
            us.add(ok)
        if len(us) != 1:
            return frozenset()
        return frozenset([('owner', us.pop())])

    def arg_handles(self, e):
        """lvalue objects from which the pointer value e was loaded (through casts and
        pointer arithmetic); None if not a simple load."""
        e2 = e
        while True:
            if e2.k == 'cast' and e2.v != 'LValueToRValue':
                e2 = e2.c[0]
            elif e2.k == 'bin' and e2.v in ('+', '-') and is_ptr_type(e2.c[0].ty):
                e2 = e2.c[0]
            else:
                break
        if e2.k == 'cast' and e2.v == 'LValueToRValue':
            inner = e2.c[0]
            if inner.k == 'ref' and (inner.v in self.f.locals or inner.v in self.f.param_types):
                # local pointer variable: follow its single defining assignment if any
                d = self.eng.single_def(self.f, inner.v)
                if d is not None:
                    return self.arg_handles(d)
                return None
            return self.lv(inner)
        if is_tmp(e2):
            d = self.eng.single_def(self.f, e2.v)
            if d is not None:
                return self.arg_handles(d)
        return None

    # ---- effects
    def add_effect(self, kind, obj, guarded, loc, func, via=None):
        r = obj[0]
        if r[0] == 'L':
            return False
        if r == 'S' or r.startswith('FN:'):
            pass
        e = Effect(kind, obj, guarded, loc, func, via)
        k = e.key()
        if k not in self.effects:
            self.effects[k] = e
            return True
        return False

    def store(self, targets, vals):
        ch = False
        for t in targets:
            s = self.heap.get(t)
            if s is None:
                if vals:
                    self.heap[t] = set(vals)
                    ch = True
            elif not vals <= s:
                s |= vals
                ch = True
        return ch

    def translate(self, o, amap, callee):
        """translate a callee object into caller objects; dereference steps are resolved in the
        caller's state (stores made by the caller and copy edges are followed)."""
        root, st = o
        if root.startswith('P:'):
            cur = set(amap.get(root[2:], ()))
            for x in st:
                if not cur:
                    break
                if x == '*':
                    cur = self.load(cur)
                elif x == ELL:
                    cur = set(obj_add(c, ELL) if c[1] and c[1][-1] == ELL else (c[0], c[1] + (ELL,)) for c in cur)
                else:
                    cur = set(obj_add(c, x) for c in cur)
            return cur
        if root.startswith('L:'):
            return set()
        return {o}

    def step(self):
        """one pass over all reachable instructions; returns True if anything grew."""
        ch = False
        f = self.f
        prog = self.eng.prog
        for b in f.blocks:
            if b.id not in self.reach:
                continue
            guards = None
            for i in b.ins:
                if i.op == 'assign':
                    targets = self.lv(i.dst)
                    dty = i.dst.ty or ''
                    if self.defaults is None and 'UriMemoryManager' in dty:
                        sv = strip_casts(i.src)
                        if sv.k == 'un' and sv.v == '&' and strip_casts(sv.c[0]).k == 'ref' \
                                and strip_casts(sv.c[0]).v == 'defaultMemoryManager':
                            trig = i.dst.v if (i.dst.k == 'ref' and i.dst.v in f.param_types) else None
                            self.defaults = (f.name, i.loc, trig)
                            ch = True
                    nonlocal_t = [t for t in targets if t[0][0] != 'L']
                    if nonlocal_t:
                        if guards is None:
                            guards = self.owner_guards(b)
                        hd = None
                        # store through a dereferenced pointer: handle = where pointer was loaded from
                        base = i.dst
                        if base.k == 'index' or (base.k == 'un' and base.v == '*'):
                            hd = self.arg_handles(base.c[0])
                        g = (self.handles_guarded(hd, guards) if hd else frozenset()) | self.ifparam_tags(b)
                        for t in nonlocal_t:
                            ch |= self.add_effect('w', t, g, i.loc, f.name)
                    if is_record_type(dty, prog):
                        src = i.src
                        if src.k == 'cast' and src.v == 'LValueToRValue':
                            srcs = self.lv(src.c[0])
                            for t in targets:
                                s = self.copy.setdefault(t, set())
                                if not srcs <= s:
                                    s |= srcs
                                    ch = True
                    else:
                        vals = self.pts(i.src) if (is_ptr_type(dty) or is_ptr_type(i.src.ty)) else set()
                        if vals:
                            ch |= self.store(targets, vals)
                elif i.op == 'call':
                    ch |= self.do_call(b, i)
            t = b.term
            if t[0] == 'ret' and t[1] is not None and is_ptr_type(f.ret_type):
                v = self.pts(t[1])
                if not v <= self.ret:
                    self.ret |= v
                    ch = True
        return ch

    def do_call(self, b, i):
        ch = False
        f = self.f
        eng = self.eng
        mc = manager_call(i)
        tgt = call_target(i)
        dst_t = self.lv(i.dst) if i.dst is not None else set()
        guards = self.owner_guards(b)
        if mc is not None:
            member = mc[0]
            rv = strip_casts(mc[1])
            if rv.k == 'ref' and rv.v in f.param_types and rv.v not in self.mgr_use:
                # receiver is (a possibly re-assigned) manager parameter
                if self.assigned.get(rv.v, 0) == 0 or True:
                    self.mgr_use.add(rv.v)
                    ch = True
            if member in ('malloc', 'calloc'):
                fresh = ('F:%s:%s' % (f.name, i.loc[1] if i.loc else '?'), ())
                ch |= self.store(dst_t, {fresh})
                if not self.allocs:
                    self.allocs = True
                    ch = True
            elif member in ('realloc', 'reallocarray'):
                fresh = ('F:%s:%s' % (f.name, i.loc[1] if i.loc else '?'), ())
                ch |= self.store(dst_t, {fresh} | self.pts(i.args[1]))
                for o in self.pts(i.args[1]):
                    ch |= self.add_effect('f', o, (), i.loc, f.name)
            elif member == 'free':
                arg = i.args[1] if len(i.args) > 1 else None
                if arg is not None:
                    hd = self.arg_handles(arg)
                    g = set(self.handles_guarded(hd, guards)) if hd else set()
                    g |= self.ifparam_tags(b)
                    if self.nonempty_guard(b, arg):
                        g.add('nonempty')
                    for o in self.pts(arg):
                        ch |= self.add_effect('f', o, g, i.loc, f.name)
            return ch
        if tgt is None:
            # indirect call through something else: unknown
            for a in i.args:
                for o in self.pts(a):
                    ch |= self.add_effect('w', o, (), i.loc, f.name, via='indirect call')
            return ch
        if tgt in eng.irp.funcs:
            callee = eng.irp.funcs[tgt]
            # context of the callee
            vals = []
            for p, a in zip(callee.params, i.args):
                v = self.value_of(a)
                if v is None:
                    nn = self.known_nonnull(b, a)
                    if nn:
                        v = 'nonnull'
                if v is not None:
                    vals.append((p, v))
            cctx = tuple(vals)
            cctx = eng.request(tgt, cctx)
            eng.deps.setdefault((tgt, cctx), set()).add((f.name, self.ctx))
            summ = eng.summaries.get((tgt, cctx))
            if summ is None:
                return ch
            amap = {}
            ahandles = {}
            for p, a in zip(callee.params, i.args):
                amap[p] = self.pts(a)
                ahandles[p] = self.arg_handles(a)
            if summ.allocs and not self.allocs:
                self.allocs = True
                ch = True
            if summ.defaults is not None and self.defaults is None:
                trig = summ.defaults[2]
                fires = True
                if trig is not None and trig in callee.params and callee.params.index(trig) < len(i.args):
                    av = i.args[callee.params.index(trig)]
                    vv = self.value_of(av)
                    if vv == 0:
                        fires = True
                    elif vv is not None:
                        fires = False
                    else:
                        sv = strip_casts(av)
                        # forwarding the caller's own manager variable: the callee defaults only if we were
                        # handed NULL ourselves, which is this function's own (checked) business
                        fires = not (sv.k == 'ref' and 'UriMemoryManager' in (sv.ty or ''))
                if fires:
                    self.defaults = (summ.defaults[0], summ.defaults[1], None)
                    ch = True
            for p, a in zip(callee.params, i.args):
                if p in summ.mgr_use:
                    av = strip_casts(a)
                    if av.k == 'ref' and av.v in f.param_types and av.v not in self.mgr_use:
                        self.mgr_use.add(av.v)
                        ch = True
            for e in list(summ.effects.values()):
                root = e.obj[0]
                g = set()
                skip = False
                for tag in e.guarded:
                    if isinstance(tag, tuple):
                        objs = self.translate(tag[1], amap, callee)
                        if len(objs) == 1:
                            g.add(('owner', next(iter(objs))))
                        continue
                    if tag.startswith('ifparam:'):
                        pn = tag[8:]
                        if pn in callee.params and callee.params.index(pn) < len(i.args):
                            kind, tg = self.witness(b, i.args[callee.params.index(pn)])
                            if kind == 'const0':
                                skip = True
                                break
                            if kind == 'tags':
                                g |= tg
                        continue
                    g.add(tag)
                if not any(isinstance(t, tuple) for t in g) and root.startswith('P:'):
                    hd = ahandles.get(root[2:])
                    # effect on the pointee of the argument itself (text reached via a handle)
                    if hd and len(e.obj[1]) == 0:
                        g |= self.handles_guarded(hd, guards)
                if skip:
                    continue
                g |= self.ifparam_tags(b)
                for o in self.translate(e.obj, amap, callee):
                    ch |= self.add_effect(e.kind, o, g, e.loc, e.func, via=(e.via or '') + '<-' + f.name)
            for ko, vs in summ.heap.items():
                kos = self.translate(ko, amap, callee)
                tv = set()
                for v in vs:
                    tv |= self.translate(v, amap, callee)
                kos = set(o for o in kos)
                if tv:
                    ch |= self.store(kos, tv)
            for ko, vs in summ.copy.items():
                kos = self.translate(ko, amap, callee)
                tv = set()
                for v in vs:
                    tv |= self.translate(v, amap, callee)
                for t in kos:
                    s = self.copy.setdefault(t, set())
                    if not tv <= s:
                        s |= tv
                        ch = True
            if i.dst is not None:
                rv = set()
                for v in summ.ret:
                    rv |= self.translate(v, amap, callee)
                if rv:
                    ch |= self.store(dst_t, rv)
            return ch
        # external function
        if tgt in ('memcpy', 'memmove'):
            d = self.pts(i.args[0])
            s = self.pts(i.args[1])
            hd = self.arg_handles(i.args[0])
            g = self.handles_guarded(hd, guards) if hd else frozenset()
            for o in d:
                ch |= self.add_effect('w', o, g, i.loc, f.name, via=tgt)
                cs = self.copy.setdefault(o, set())
                if not s <= cs:
                    cs |= s
                    ch = True
            if i.dst is not None:
                ch |= self.store(dst_t, d)
            return ch
        if tgt == 'memset':
            hd = self.arg_handles(i.args[0])
            g = self.handles_guarded(hd, guards) if hd else frozenset()
            for o in self.pts(i.args[0]):
                ch |= self.add_effect('w', o, g, i.loc, f.name, via=tgt)
            return ch
        if tgt in PURE_EXTERNALS:
            if tgt == '__errno_location' and i.dst is not None:
                ch |= self.store(dst_t, {('G:errno', ())})
            return ch
        if tgt in ALLOC_EXTERNALS:
            fresh = ('F:%s:%s' % (f.name, i.loc[1] if i.loc else '?'), ())
            vs = {fresh}
            if tgt in ('realloc', 'reallocarray'):
                vs |= self.pts(i.args[0])
                for o in self.pts(i.args[0]):
                    ch |= self.add_effect('f', o, (), i.loc, f.name)
            ch |= self.store(dst_t, vs)
            return ch
        if tgt == 'free':
            for o in self.pts(i.args[0]):
                ch |= self.add_effect('f', o, (), i.loc, f.name)
            return ch
        # unknown external: assume it may write through every pointer argument
        eng.unknown_externals.add(tgt)
        for a in i.args:
            for o in self.pts(a):
                ch |= self.add_effect('w', o, (), i.loc, f.name, via='external ' + tgt)
        return ch

    def nonempty_guard(self, b, arg):
        """free(R.first) dominated by a test implying R.first != R.afterLast"""
        a = strip_casts(arg)
        while a.k == 'cast':
            a = strip_casts(a.c[0])
        if a.k != 'member' or a.v != 'first':
            return False
        rkey = expr_key(a.c[0])
        dot = '->' if a.x['arrow'] else '.'
        kf = expr_key(a)
        for cond, truth, _d in self.facts.get(b.id, []):
            if not isinstance(truth, bool):
                continue
            c = strip_casts(cond)
            if c.k != 'bin' or c.v not in ('!=', '==', '<', '>', '<=', '>='):
                continue
            l, r = strip_casts(c.c[0]), strip_casts(c.c[1])
            if l.k != 'member' or r.k != 'member':
                continue
            names = {l.v, r.v}
            if names != {'first', 'afterLast'}:
                continue
            if expr_key(l.c[0]) != rkey or expr_key(r.c[0]) != rkey:
                continue
            op = c.v
            if l.v == 'afterLast':   # normalise to first OP afterLast
                op = {'<': '>', '>': '<', '<=': '>=', '>=': '<='}.get(op, op)
            if truth and op in ('!=', '<'):
                return True
            if (not truth) and op in ('==', '>='):
                return True
        return False

    def callee_ctx(self, b, callee, args):
        vals = []
        for p, a in zip(callee.params, args):
            v = self.value_of(a)
            if v is None and self.known_nonnull(b, a):
                v = 'nonnull'
            if v is not None:
                vals.append((p, v))
        return tuple(vals)

    def known_nonnull(self, b, a):
        """is pointer expression a known non-NULL at block b from dominating tests?"""
        if not is_ptr_type(a.ty):
            return False
        s = strip_casts(a)
        if s.k == 'un' and s.v == '&':
            return True
        if s.k == 'cast' and s.v == 'ArrayToPointerDecay':
            return True
        key = expr_key(a)
        base = s
        while base.k in ('member', 'index', 'un', 'cast'):
            base = base.c[0]
        if base.k == 'ref' and (self.assigned.get(base.v, 0) > 0 or base.v in self.addr) and base.v in self.f.param_types:
            return False
        if base.k == 'ref' and base.v not in self.f.param_types:
            # locals: only single-assignment ones
            if self.assigned.get(base.v, 0) > 1 or base.v in self.addr:
                return False
        for cond, truth, _d in self.facts.get(b.id, []):
            if not isinstance(truth, bool):
                continue
            nt = null_test(cond)
            if nt is None:
                continue
            e, null_when_true = nt
            if expr_key(e) == key:
                is_null = (null_when_true == truth)
                if not is_null:
                    return True
        return False

    def run(self):
        n = 0
        while self.step():
            n += 1
            if n > 200:
                raise AnalysisBroken('effect analysis did not converge in %s' % self.f.name)
        s = Summary()
        s.defaults = self.defaults
        s.mgr_use = set(self.mgr_use)
        s.allocs = self.allocs
        s.effects = dict(self.effects)
        s.ret = set(o for o in self.ret if o[0][0] != 'L')
        for k, v in self.heap.items():
            if k[0][0] in 'PGUF':
                vv = set(o for o in v if o[0][0] != 'L')
                if vv:
                    s.heap[k] = vv
        for k, v in self.copy.items():
            if k[0][0] in 'PGUF':
                vv = set(o for o in v if o[0][0] != 'L')
                if vv:
                    s.copy[k] = vv
        return s


class EffectEngine(object):
    MAX_CTX = 12

    def __init__(self, irp):
        self.irp = irp
        self.prog = irp.prog
        self.summaries = {}
        self.requested = {}       # fname -> list of ctx
        self._facts = {}
        self._assigned = {}
        self._defs = {}
        self.unknown_externals = set()
        self.work = []
        self.deps = {}
        self.analyses = 0

    def facts(self, f):
        if f.name not in self._facts:
            self._facts[f.name] = edge_conditions(f)
        return self._facts[f.name]

    def assigned(self, f):
        if f.name not in self._assigned:
            self._assigned[f.name] = assigned_vars(f)
        return self._assigned[f.name]

    def single_def(self, f, var):
        d = self._defs.get(f.name)
        if d is None:
            d = {}
            cnt = {}
            for b in f.blocks:
                for i in b.ins:
                    if i.op == 'assign' and i.dst.k == 'ref':
                        cnt[i.dst.v] = cnt.get(i.dst.v, 0) + 1
                        d[i.dst.v] = i.src
                    elif i.op == 'call' and i.dst is not None:
                        cnt[i.dst.v] = cnt.get(i.dst.v, 0) + 2
            for v, c in cnt.items():
                if c != 1:
                    d.pop(v, None)
            _, addr = self.assigned(f)
            for v in addr:
                d.pop(v, None)
            self._defs[f.name] = d
        return d.get(var)

    def foreign_fresh(self, fname):
        return ()

    def request(self, fname, ctx):
        lst = self.requested.setdefault(fname, [])
        if ctx in lst:
            return ctx
        if len(lst) >= self.MAX_CTX:
            ctx = ()
            if ctx in lst:
                return ctx
        lst.append(ctx)
        self.summaries[(fname, ctx)] = Summary()
        self.work.append((fname, ctx))
        return ctx

    def solve(self, roots):
        """roots: list of (fname, ctx). Computes summaries to a global fixpoint (worklist)."""
        for r in roots:
            self.request(*r)
        inq = set(self.work)
        while self.work:
            key = self.work.pop()
            inq.discard(key)
            fname, ctx = key
            f = self.irp.funcs[fname]
            fa = FuncAnalysis(self, f, ctx)
            s = fa.run()
            self.analyses += 1
            if self.analyses > 20000:
                raise AnalysisBroken('effect summaries did not converge')
            old = self.summaries[key]
            self.summaries[key] = s
            if s.measure() != old.measure():
                for d in self.deps.get(key, ()):
                    if d not in inq:
                        inq.add(d)
                        self.work.append(d)
            for k in self.work:
                inq.add(k)
        return self.analyses

    def summary(self, fname, ctx=()):
        return self.summaries.get((fname, ctx))
