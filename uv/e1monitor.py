"""Monitors run in product with the E1 machine.

DfaMonitor: tracks the RFC DFA state, how long ago it died, and the distance to the '[' of an
open IP literal, so that acceptance, error code and error position are decided as the property
states them."""
from .e1 import DMAX, NULL, END, TOP

CAP = DMAX + 1
LB, RB = 91, 93


class DfaMonitor(object):
    def __init__(self, dfa):
        self.dfa = dfa
        self.dead = min(dfa.dead_states) if dfa.dead_states else None

    def init(self, al):
        self.al = al
        self.cmap = []
        for s in al.sets:
            cs = set(self.dfa.class_of[min(x, 256)] for x in s)
            if len(cs) != 1:
                raise AssertionError('alphabet does not refine the DFA classes')
            self.cmap.append(cs.pop())
        self.lb = al.of[LB]
        self.rb = al.of[RB]
        if len(al.sets[self.lb]) != 1 or len(al.sets[self.rb]) != 1:
            self.lb = self.rb = None      # a grammar without bracketed literals
        # (q, dead_age, lit, dead_in_lit)
        return (self.dfa.start, None, None, False)

    def on_symbol(self, m, c, al):
        q, age, lit, dil = m
        if age is not None:
            return (q, min(CAP, age + 1), None if lit is None else min(CAP, lit + 1), dil)
        q2 = self.dfa.trans[q][self.cmap[c]]
        if q2 in self.dfa.dead_states:
            return (self.dead, 1, None if lit is None else min(CAP, lit + 1), lit is not None)
        if c == self.lb:
            return (q2, None, 1, False)
        if lit is not None:
            if c == self.rb:
                return (q2, None, None, False)
            return (q2, None, min(CAP, lit + 1), False)
        return (q2, None, None, False)

    def on_eof(self, m):
        return m

    def observe(self, m, st, obs, res, nid):
        pass

    def accepting(self, m):
        return m[1] is None and m[0] in self.dfa.accept


class ClassifierMonitor(DfaMonitor):
    """product of the URI-reference DFA with the indicator DFAs (component presence, host kind, absolute path,
    segments).  Monitor state = (tuple of DFA states, dead_age, lit, dead_in_lit); acceptance and error
    bookkeeping follow the first (URI-reference) component."""

    def __init__(self, names, dfas):
        DfaMonitor.__init__(self, dfas[0])
        self.names = names
        self.dfas = dfas
        self.tcache = {}

    def init(self, al):
        self.al = al
        self.cmaps = []
        for d in self.dfas:
            cm = []
            for s in al.sets:
                cs = set(d.class_of[min(x, 256)] for x in s)
                if len(cs) != 1:
                    raise AssertionError('alphabet does not refine the indicator DFA classes')
                cm.append(cs.pop())
            self.cmaps.append(cm)
        self.lb = al.of[LB]
        self.rb = al.of[RB]
        return (tuple(d.start for d in self.dfas), None, None, False)

    def on_symbol(self, m, c, al):
        qs, age, lit, dil = m
        if age is not None:
            return (qs, min(CAP, age + 1), None if lit is None else min(CAP, lit + 1), dil)
        key = (qs, c)
        q2 = self.tcache.get(key)
        if q2 is None:
            q2 = tuple(d.trans[q][cm[c]] for d, q, cm in zip(self.dfas, qs, self.cmaps))
            self.tcache[key] = q2
        if q2[0] in self.dfa.dead_states:
            return ((self.dead,) + (0,) * (len(qs) - 1), 1, None if lit is None else min(CAP, lit + 1), lit is not None)
        if c == self.lb:
            return (q2, None, 1, False)
        if lit is not None:
            if c == self.rb:
                return (q2, None, None, False)
            return (q2, None, min(CAP, lit + 1), False)
        return (q2, None, None, False)

    def indicators(self, m):
        qs = m[0]
        return dict((n, q in d.accept) for n, d, q in zip(self.names, self.dfas, qs))
