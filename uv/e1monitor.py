"""Monitors run in product with the E1 machine.

DfaMonitor: tracks the RFC DFA state, how long ago it died, and the distance to the '[' of an
open IP literal, so that acceptance, error code and error position are decided as the property
states them."""
from .e1 import DMAX, NULL, END, TOP

CAP = DMAX + 1
LB, RB = 91, 93


class DfaMonitor(object):
    def __init__(self, dfa):
        self.dfa = dfa
        self.dead = min(dfa.dead_states) if dfa.dead_states else None

    def init(self, al):
        self.al = al
        self.cmap = []
        for s in al.sets:
            cs = set(self.dfa.class_of[min(x, 256)] for x in s)
            if len(cs) != 1:
                raise AssertionError('alphabet does not refine the DFA classes')
            self.cmap.append(cs.pop())
        self.lb = al.of[LB]
        self.rb = al.of[RB]
        if len(al.sets[self.lb]) != 1 or len(al.sets[self.rb]) != 1:
            self.lb = self.rb = None      # a grammar without bracketed literals
        # (q, dead_age, lit, dead_in_lit)
        return (self.dfa.start, None, None, False)

    def on_symbol(self, m, c, al):
        q, age, lit, dil = m
        if age is not None:
            return (q, min(CAP, age + 1), None if lit is None else min(CAP, lit + 1), dil)
        q2 = self.dfa.trans[q][self.cmap[c]]
        if q2 in self.dfa.dead_states:
            return (self.dead, 1, None if lit is None else min(CAP, lit + 1), lit is not None)
        if c == self.lb:
            return (q2, None, 1, False)
        if lit is not None:
            if c == self.rb:
                return (q2, None, None, False)
            return (q2, None, min(CAP, lit + 1), False)
        return (q2, None, None, False)

    def on_eof(self, m):
        return m

    def observe(self, m, st, obs, res, nid):
        pass

    def accepting(self, m):
        return m[1] is None and m[0] in self.dfa.accept


class ClassifierMonitor(DfaMonitor):
    """product of the URI-reference DFA with the indicator DFAs (component presence, host kind, absolute path,
    segments).  Monitor state = (tuple of DFA states, dead_age, lit, dead_in_lit); acceptance and error
    bookkeeping follow the first (URI-reference) component."""

    def __init__(self, names, dfas):
        DfaMonitor.__init__(self, dfas[0])
        self.names = names
        self.dfas = dfas
        self.tcache = {}

    def init(self, al):
        self.al = al
        self.cmaps = []
        for d in self.dfas:
            cm = []
            for s in al.sets:
                cs = set(d.class_of[min(x, 256)] for x in s)
                if len(cs) != 1:
                    raise AssertionError('alphabet does not refine the indicator DFA classes')
                cm.append(cs.pop())
            self.cmaps.append(cm)
        self.lb = al.of[LB]
        self.rb = al.of[RB]
        return (tuple(d.start for d in self.dfas), None, None, False)

    def on_symbol(self, m, c, al):
        qs, age, lit, dil = m
        if age is not None:
            return (qs, min(CAP, age + 1), None if lit is None else min(CAP, lit + 1), dil)
        key = (qs, c)
        q2 = self.tcache.get(key)
        if q2 is None:
            q2 = tuple(d.trans[q][cm[c]] for d, q, cm in zip(self.dfas, qs, self.cmaps))
            self.tcache[key] = q2
        if q2[0] in self.dfa.dead_states:
            return ((self.dead,) + (0,) * (len(qs) - 1), 1, None if lit is None else min(CAP, lit + 1), lit is not None)
        if c == self.lb:
            return (q2, None, 1, False)
        if lit is not None:
            if c == self.rb:
                return (q2, None, None, False)
            return (q2, None, min(CAP, lit + 1), False)
        return (q2, None, None, False)

    def indicators(self, m):
        qs = m[0]
        return dict((n, q in d.accept) for n, d, q in zip(self.names, self.dfas, qs))


PCAP = 4

BOUNDARIES = [  # (name, register path in the URI or 'segment', tag, end, multi)
    ('scheme.first', ('scheme', 'first'), 'scheme', 'b', False),
    ('scheme.afterLast', ('scheme', 'afterLast'), 'scheme', 'e', False),
    ('userInfo.first', ('userInfo', 'first'), 'userInfo', 'b', False),
    ('userInfo.afterLast', ('userInfo', 'afterLast'), 'userInfo', 'e', False),
    ('hostText.first', ('hostText', 'first'), 'hostText', 'b', False),
    ('hostText.afterLast', ('hostText', 'afterLast'), 'hostText', 'e', False),
    ('portText.first', ('portText', 'first'), 'portText', 'b', False),
    ('portText.afterLast', ('portText', 'afterLast'), 'portText', 'e', False),
    ('query.first', ('query', 'first'), 'query', 'b', False),
    ('query.afterLast', ('query', 'afterLast'), 'query', 'e', False),
    ('fragment.first', ('fragment', 'first'), 'fragment', 'b', False),
    ('fragment.afterLast', ('fragment', 'afterLast'), 'fragment', 'e', False),
    ('segment.first', 'segment', 'segment', 'b', True),
    ('segment.afterLast', 'segment', 'segment', 'e', True),
]


class PebbleMonitor(DfaMonitor):
    """one pebble on one input position (or at the end, or none).  Monitor state:
    (q, dead_age, lit, dead_in_lit, qps, pa, segb, sege)
      qps  states of the pebbled DFAs, one per boundary
      pa   None: pebble not placed yet; k: placed k symbols ago; 'far'; 'end'; 'none' (input ended without pebble)
      segb / sege   0 / 1 / 'f': some pushed segment began / ended exactly at the pebble"""
    pebbles = True
    success_only = True     # allocation failures and rejected inputs are decided by C01 / C03

    def __init__(self, dfa, pdfas):
        DfaMonitor.__init__(self, dfa)
        self.pdfas = pdfas
        self.tc = {}
        self.pdead = []
        for d in pdfas:
            rev = [set() for _ in range(d.n)]
            for a in range(d.n):
                for b in d.trans[a]:
                    rev[b].add(a)
            live = set(d.accept) | set(d.accept_end)
            st = list(live)
            while st:
                x = st.pop()
                for y in rev[x]:
                    if y not in live:
                        live.add(y)
                        st.append(y)
            self.pdead.append(set(range(d.n)) - live)

    def init(self, al):
        m = DfaMonitor.init(self, al)
        self.pc = []
        for d in self.pdfas:
            cm = []
            for s in al.sets:
                cs = set(d.class_of[min(x, 256)] for x in s)
                if len(cs) != 1:
                    raise AssertionError('alphabet does not refine the pebbled DFA classes')
                cm.append(cs.pop())
            self.pc.append(cm)
        return m + (tuple(0 for _ in self.pdfas), None, 0, 0)

    def pebble_free(self, m):
        return m[5] is None and m[1] is None

    def pa_of(self, m):
        pa = m[5]
        return None if pa == 'none' else pa

    def on_symbol(self, m, c, al, bit=0):
        base = DfaMonitor.on_symbol(self, m[:4], c, al)
        qps, pa, sb, se = m[4], m[5], m[6], m[7]
        key = (qps, c, bit)
        q2 = self.tc.get(key)
        if q2 is None:
            q2 = tuple(d.trans[q][cm[c] * 2 + bit] for d, q, cm in zip(self.pdfas, qps, self.pc))
            self.tc[key] = q2
        if bit:
            pa2 = 1
        elif pa is None or pa in ('far', 'end', 'none'):
            pa2 = pa
        else:
            pa2 = pa + 1 if pa + 1 <= PCAP else 'far'
        if sb == 'f':
            sb = 1 if bit else 0
        if se == 'f':
            se = 1 if bit else 0
        if base[1] is not None:
            # the specification is dead: boundaries are irrelevant from here on
            return None     # rejected inputs have no components; their handling is C01's business
        if pa2 is not None and all(q in dd for q, dd in zip(q2, self.pdead)):
            # the pebble sits where no component boundary can be: nothing to decide on this branch
            return None
        return base + (q2, pa2, sb, se)

    def eof_options(self, m):
        qps, pa, sb, se = m[4], m[5], m[6], m[7]
        out = []
        if pa is None and m[1] is None and qps:
            for at_end in (False, True):
                if at_end and not any(q in d.accept_end for q, d in zip(qps, self.pdfas)):
                    continue
                out.append((m[:4] + (qps, 'end' if at_end else 'none', (1 if at_end else 0) if sb == 'f' else sb,
                                     (1 if at_end else 0) if se == 'f' else se), at_end))
        else:
            out.append((m[:4] + (qps, pa, 0 if sb == 'f' else sb, 0 if se == 'f' else se), False))
        return out

    def after_step(self, m, obs):
        sb, se = m[6], m[7]
        ch = False
        for o in obs:
            if o[0] == 'heap-store' and len(o) > 5 and len(o[2]) >= 2 and o[2][-2] == 'text':
                at = o[5]
                if at in (True, 'f'):
                    v = 1 if at is True else 'f'
                    if o[2][-1] == 'first' and sb != 1:
                        sb, ch = v, True
                    elif o[2][-1] == 'afterLast' and se != 1:
                        se, ch = v, True
        if ch:
            return m[:6] + (sb, se)
        return m

    def verdicts(self, m):
        """per boundary: does the specification accept the pebbled string read so far (at end of input)?"""
        qps, pa = m[4], m[5]
        out = []
        for d, q in zip(self.pdfas, qps):
            out.append(q in (d.accept_end if pa == 'end' else d.accept))
        return out
