"""Pretty printer for reduced AST nodes (reports and debugging)."""


def expr(n):
    if n is None:
        return '<none>'
    k = n.k
    if k == 'int':
        if n.x and n.x.get('char') and 32 <= n.v < 127:
            return "'%s'" % chr(n.v)
        return str(n.v)
    if k == 'str':
        return '"%s"' % n.v
    if k == 'ref':
        return n.v
    if k == 'member':
        return '%s%s%s' % (expr(n.c[0]), '->' if n.x['arrow'] else '.', n.v)
    if k == 'index':
        return '%s[%s]' % (expr(n.c[0]), expr(n.c[1]))
    if k == 'un':
        if n.x and n.x.get('postfix'):
            return '(%s%s)' % (expr(n.c[0]), n.v)
        return '(%s%s)' % (n.v, expr(n.c[0]))
    if k == 'bin' or k == 'assign':
        return '(%s %s %s)' % (expr(n.c[0]), n.v, expr(n.c[1]))
    if k == 'cast':
        if n.x and n.x.get('explicit'):
            return '(%s)%s' % (n.ty, expr(n.c[0]))
        return expr(n.c[0])
    if k == 'call':
        return '%s(%s)' % (expr(n.c[0]), ', '.join(expr(a) for a in n.c[1:]))
    if k == 'cond':
        return '(%s ? %s : %s)' % (expr(n.c[0]), expr(n.c[1]), expr(n.c[2]))
    if k == 'sizeof':
        if n.c:
            return 'sizeof(%s)' % expr(n.c[0])
        return 'sizeof(%s)' % n.x.get('argType')
    if k == 'initlist':
        return '{%s}' % ', '.join(expr(a) for a in n.c)
    return '<%s %s>' % (k, n.v)


def stmt(n, ind=0, out=None):
    top = out is None
    if out is None:
        out = []
    p = '  ' * ind
    if n is None:
        out.append(p + ';')
    elif n.k == 'block':
        out.append(p + '{')
        for c in n.c:
            stmt(c, ind + 1, out)
        out.append(p + '}')
    elif n.k == 'if':
        out.append(p + 'if %s  // L%s' % (expr(n.c[0]), n.loc[1] if n.loc else '?'))
        stmt(n.c[1], ind + 1, out)
        if len(n.c) > 2:
            out.append(p + 'else')
            stmt(n.c[2], ind + 1, out)
    elif n.k == 'while':
        out.append(p + 'while %s' % expr(n.c[0]))
        stmt(n.c[1], ind + 1, out)
    elif n.k == 'do':
        out.append(p + 'do')
        stmt(n.c[0], ind + 1, out)
        out.append(p + 'while %s' % expr(n.c[1]))
    elif n.k == 'for':
        out.append(p + 'for (%s; %s; %s)' % tuple(
            (expr(x) if x is not None and x.k not in ('declstmt',) else ('decl' if x is not None else ''))
            for x in (n.c[0], n.c[2], n.c[3])))
        stmt(n.c[4], ind + 1, out)
    elif n.k == 'switch':
        out.append(p + 'switch %s' % expr(n.c[0]))
        stmt(n.c[1], ind + 1, out)
    elif n.k == 'case':
        out.append(p + 'case %s:' % expr(n.c[0]))
        for c in n.c[1:]:
            stmt(c, ind + 1, out)
    elif n.k == 'default':
        out.append(p + 'default:')
        for c in n.c:
            stmt(c, ind + 1, out)
    elif n.k == 'return':
        out.append(p + 'return %s;  // L%s' % (expr(n.c[0]) if n.c else '', n.loc[1] if n.loc else '?'))
    elif n.k == 'declstmt':
        for v in n.c:
            if v.k == 'var':
                out.append(p + '%s %s%s;' % (v.ty, v.v, (' = ' + expr(v.c[0])) if v.c else ''))
            else:
                out.append(p + '<decl %s>' % v.k)
    elif n.k in ('break', 'continue', 'null'):
        out.append(p + n.k + ';')
    else:
        out.append(p + expr(n) + ';  // L%s' % (n.loc[1] if n.loc else '?'))
    if top:
        return '\n'.join(out)
