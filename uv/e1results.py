"""Cached, parallel E1 explorations shared by C01 / C02 / C03.

An exploration result is reduced to a picklable summary (final outcomes with their monitor state,
findings with witnesses, observations, counts) and cached under /verif/.cache keyed by the hash of
the analysed sources (the front end's key) and of the engine's own files, so it is recomputed whenever
/repo or the engine changes and never otherwise."""
import hashlib
import os
import pickle
import sys
import time
import fcntl

from .frontend import CACHE, VERIF, AnalysisBroken, fmt_loc
from .abnf import rfc3986_dfa
from .e1 import END, MEM, NULL, Imprecise
from .e1explore import explore, witness, URI, STATE, ERRPOS
from .e1monitor import DfaMonitor

ENGINE_FILES = ['e1.py', 'e1monitor.py', 'e1static.py', 'e1explore.py', 'e1monitor.py', 'e1results.py', 'abnf.py', 'rfc3986.abnf', 'ir.py',
                'frontend.py']


def engine_hash():
    h = hashlib.sha256()
    d = os.path.dirname(os.path.abspath(__file__))
    for f in ENGINE_FILES:
        h.update(open(os.path.join(d, f), 'rb').read())
    return h.hexdigest()[:16]


# entry points: name -> (function base name, argument builder, nul-terminated?, where the error position is reported)
def _args_single_mm(m):
    return [('a', URI, ()), ('p', 0), END, ('a', ERRPOS, ()), MEM]


def _args_single_ex(m):
    return [('a', URI, ()), ('p', 0), END, ('a', ERRPOS, ())]


def _args_single_ex_nul(m):
    return [('a', URI, ()), ('p', 0), NULL, ('a', ERRPOS, ())]


def _args_single(m):
    return [('a', URI, ()), ('p', 0), ('a', ERRPOS, ())]


def _args_state_ex(m):
    return [('a', STATE, ()), ('p', 0), END]


def _args_state(m):
    return [('a', STATE, ()), ('p', 0)]


def _args_ip4(m):
    return [('a', ('G', 'OCT'), (0,)), ('p', 0), END]


ENTRIES = {
    'ip4': ('uriParseIpFourAddress', _args_ip4, False, None),
    'single-mm': ('uriParseSingleUriExMm', _args_single_mm, False, 'ERRPOS'),
    'single-ex': ('uriParseSingleUriEx', _args_single_ex, False, 'ERRPOS'),
    'single-ex-nul': ('uriParseSingleUriEx', _args_single_ex_nul, True, 'ERRPOS'),
    'single': ('uriParseSingleUri', _args_single, True, 'ERRPOS'),
    'state-ex': ('uriParseUriEx', _args_state_ex, False, 'STATE'),
    'state': ('uriParseUri', _args_state, True, 'STATE'),
}


class NeedsCache(object):
    """disk cache of the cell-liveness pre-analysis (it depends on the sources, the entry and the alphabet only)"""

    def __init__(self, ctx, suf, entry):
        self.base = os.path.join(CACHE, 'needs_%s_%s_%s_%s' % (ctx.prog.meta['key'][:24], engine_hash(), suf, entry))

    def path(self, key):
        return '%s_%s.pkl' % (self.base, hashlib.sha256(repr(key).encode()).hexdigest()[:16])

    def get(self, key):
        try:
            with open(self.path(key), 'rb') as f:
                return pickle.load(f)
        except Exception:
            return None

    def put(self, key, needs, nstates):
        try:
            os.makedirs(CACHE, exist_ok=True)
            tmp = self.path(key) + '.%d.tmp' % os.getpid()
            with open(tmp, 'wb') as f:
                pickle.dump(needs, f, protocol=pickle.HIGHEST_PROTOCOL)
            os.replace(tmp, self.path(key))
        except OSError:
            pass


def _compute(ctx, suf, entry, monitor_kind, log=None):
    dfa, info = rfc3986_dfa('ipv4address' if entry == 'ip4' else 'uri-reference')
    base, mkargs, nul, where = ENTRIES[entry]
    fname = base + suf
    if fname not in ctx.irp.funcs:
        raise AnalysisBroken('E1: entry point %s not found' % fname)

    def setup(m, st):
        if where == 'STATE':
            st.env[(STATE, ('uri',))] = ('a', URI, ())
        m.tracking = monitor_kind.startswith('peb') and not m.optimistic
        m.push_frame(st, fname, mkargs(m), None, False, None)
    if monitor_kind == 'cls':
        from .abnf import indicator_dfas
        from .e1monitor import ClassifierMonitor
        names, dfas, joint = indicator_dfas()
        mon = ClassifierMonitor(names, dfas)
        base_classes = joint
        dfa = dfas[0]
    elif monitor_kind.startswith('peb'):
        from .abnf import pebble_dfa, symbol_partition, NSYM
        from .e1monitor import PebbleMonitor, BOUNDARIES
        sel = [int(x) for x in monitor_kind.split(':')[1].split(',')] if ':' in monitor_kind else list(range(len(BOUNDARIES)))
        pdfas = [pebble_dfa(tag, end, multi) for (_n, _p, tag, end, multi) in [BOUNDARIES[k] for k in sel]]
        mon = PebbleMonitor(dfa, pdfas)
        sig = {}
        base_classes = [0] * NSYM
        for sym in range(NSYM):
            k = (dfa.class_of[sym],) + tuple(d.class_of[sym] for d in pdfas)
            base_classes[sym] = sig.setdefault(k, len(sig))
    else:
        mon = DfaMonitor(dfa)
        base_classes = dfa.class_of
    workers = int(os.environ.get('E1_WORKERS', '12'))
    res = explore(ctx, suf, fname, setup, mon, base_classes, nul=nul, log=log, workers=workers,
                  needs_cache=NeedsCache(ctx, suf, entry + ('-x' if monitor_kind.startswith('peb') else '')),
                  exact_regs=monitor_kind.startswith('peb'))
    al = res.alphabet
    finals = []
    for (m, st, val, nid) in res.finals:
        if where == 'ERRPOS':
            ep = st.env.get((ERRPOS, ()))
        elif where == 'STATE':
            ep = st.env.get((STATE, ('errorPos',)))
        else:
            ep = None
        code2 = st.env.get((STATE, ('errorCode',))) if where == 'STATE' else None
        regs = dict((k[1], v) for k, v in st.env.items() if k[0] == URI)
        if monitor_kind.startswith('peb'):
            res.machine.pa = mon.pa_of(m)
            res.machine.tracking = True
            for k, v in list(regs.items()):
                if v[0] in ('p', 'pp', 'e'):
                    regs[k] = ('pin', res.machine.at_of(st, v))
        ind = mon.indicators(m) if monitor_kind == 'cls' else None
        pebv = None
        if monitor_kind.startswith('peb'):
            pebv = {'spec': mon.verdicts(m) if m[1] is None and m[4] else None, 'sel': sel, 'pa': m[5], 'segb': m[6], 'sege': m[7]}
            m = tuple(m[:4])
        if monitor_kind == 'cls':
            m = (m[0][0],) + tuple(m[1:])
        finals.append({'ind': ind, 'peb': pebv, 'm': m, 'ret': val, 'errpos': ep, 'errcode': code2, 'eof': st.eof, 'oom': bool(st.flags.get('oom')),
                       'heap': dict(st.heap), 'nid': nid, 'regs': regs})
    finds = []
    for (f, nid, m) in res.findings:
        text, notes = witness(res, nid, al)
        finds.append({'rule': f.rule, 'key': f.key, 'loc': f.loc, 'detail': f.detail, 'witness': text, 'notes': notes, 'm': m})
    out = {'entry': entry, 'suffix': suf, 'function': fname, 'finals': finals, 'findings': finds,
           'states': res.states, 'transitions': res.transitions, 'runs': res.runs, 'shared': res.shared,
           'pre_states': getattr(res, 'pre_states', 0), 'restarts': res.restarts, 'classes': [sorted(s) for s in al.sets],
           'functions': res.functions, 'max_depth': res.max_depth, 'wall': res.wall, 'dfa': info,
           'regstores': dict(((p, l), sorted(v, key=repr)) for (p, l), v in res.obs_regstores.items()),
           'ip4calls': dict((k, sorted(v, key=repr)) for k, v in res.obs_ip4.items()),
           'heapstores': dict(((p, l), sorted(v, key=repr)) for (p, l), v in res.obs_heapstores.items()),
           'opaque': sorted(res.obs_opaque), 'free_members_sites': sorted(res.obs_free_members, key=repr),
           'sampled': bool(getattr(res, 'sampled', False)), 'parent': res.parent, 'accept': sorted(dfa.accept), 'dfa_dead': sorted(dfa.dead_states)}
    return out


def trim_cache(limit_bytes=2500 * 1024 * 1024):
    """keep /verif/.cache below the limit: oldest exploration / pre-analysis files go first"""
    try:
        files = []
        for f in os.listdir(CACHE):
            if f.startswith(('e1_', 'needs_')):
                p = os.path.join(CACHE, f)
                files.append((os.path.getmtime(p), os.path.getsize(p), p))
        total = sum(x[1] for x in files)
        for _, size, p in sorted(files):
            if total <= limit_bytes:
                break
            try:
                os.unlink(p)
                total -= size
            except OSError:
                pass
    except OSError:
        pass


def witness_of(r, nid):
    """witness string for node nid of a cached result"""
    class _R(object):
        pass
    x = _R()
    x.parent = r['parent']
    from .e1 import Alphabet
    al = Alphabet(r['classes'], r['suffix'])
    return witness(x, nid, al)


def get(ctx, suf, entry='single-mm', monitor_kind='dfa', log=None):
    key = '%s_%s_%s_%s_%s' % (ctx.prog.meta['key'][:24], engine_hash(), suf, entry, monitor_kind)
    os.makedirs(CACHE, exist_ok=True)
    path = os.path.join(CACHE, 'e1_%s.pkl' % key)
    lock = open(path + '.lock', 'w')
    try:
        fcntl.flock(lock, fcntl.LOCK_EX)
        if os.path.exists(path):
            try:
                with open(path, 'rb') as f:
                    r = pickle.load(f)
                r['cache'] = 'hit'
                return r
            except Exception:
                pass
        r = _compute(ctx, suf, entry, monitor_kind, log=log)
        r['cache'] = 'miss'
        tmp = path + '.%d.tmp' % os.getpid()
        with open(tmp, 'wb') as f:
            pickle.dump(r, f, protocol=pickle.HIGHEST_PROTOCOL)
        os.replace(tmp, path)
        trim_cache()
        return r
    finally:
        fcntl.flock(lock, fcntl.LOCK_UN)
        lock.close()


def _worker(args):
    suf, entry, mk = args
    sys.setrecursionlimit(20000)
    from .main import Ctx
    ctx = Ctx()
    try:
        r = get(ctx, suf, entry, mk)
        return (suf, entry, None, r)
    except (AnalysisBroken, Imprecise) as e:
        return (suf, entry, '%s: %s' % (type(e).__name__, e), None)


def get_many(jobs):
    """jobs: list of (suffix, entry, monitor kind); explored in parallel processes; returns dict"""
    from concurrent.futures import ProcessPoolExecutor
    out = {}
    big = sum(1 for j in jobs if j[1] != 'ip4')
    os.environ['E1_WORKERS'] = str(max(1, 14 // max(1, big)))
    with ProcessPoolExecutor(max_workers=min(12, len(jobs))) as ex:
        for suf, entry, err, r in ex.map(_worker, jobs):
            if err:
                raise AnalysisBroken('E1 exploration %s/%s: %s' % (entry, suf, err))
            out[(suf, entry)] = r
    return out


# ------------------------------------------------------------------ thin wrappers (quick tier)

WRAPPERS = {
    # entry -> (callee base name, expected arguments of the callee)
    'single': ('uriParseSingleUriExMm', [('a', URI, ()), ('p', 0), END, ('a', ERRPOS, ()), NULL]),
    'single-ex': ('uriParseSingleUriExMm', [('a', URI, ()), ('p', 0), END, ('a', ERRPOS, ()), NULL]),
    'single-ex-nul': ('uriParseSingleUriExMm', [('a', URI, ()), ('p', 0), END, ('a', ERRPOS, ()), NULL]),
    'state': ('uriParseUriEx', [('a', STATE, ()), ('p', 0), END]),
    'state-ex': ('uriParseUriExMm', [('a', STATE, ()), ('p', 0), END, NULL]),
}
TOKEN = ('f', '<result of the callee>')


def wrapper_check(ctx, suf, entry):
    """the entry point forwards (first, afterLast) = the caller's range or (text, text + strlen(text)) and the
    other arguments unchanged to the callee and returns its result unchanged; decided by interpreting the
    wrapper with the callee replaced by an opaque result token"""
    from .e1 import Runner, St, Alphabet, Finding
    from .e1explore import make_summaries, NullMonitor, _explore_once, reachable_interpreted
    base, mkargs, nul, where = ENTRIES[entry]
    callee, expect = WRAPPERS[entry]
    fname = base + suf
    seen_args = []

    def handler(m, st, ins, args):
        seen_args.append((tuple(args), ins.loc))
        return TOKEN
    summaries = make_summaries(suf)
    summaries[callee + suf] = handler
    funcs = reachable_interpreted(ctx.irp, fname, summaries)
    al = Alphabet([set(Alphabet.all_symbols(suf))], suf)
    mach = Runner(ctx, suf, al, funcs, summaries, nul_terminated=nul)

    def setup(m, st):
        if where == 'STATE':
            st.env[(STATE, ('uri',))] = ('a', URI, ())
        m.push_frame(st, fname, mkargs(m), None, False, None)
    res = _explore_once(mach, fname, setup, NullMonitor(), 10000)
    problems = []
    for f, nid, m in res.findings:
        problems.append('%s at %s' % (f.detail, fmt_loc(f.loc)))
    if not seen_args:
        problems.append('%s is never called' % (callee + suf))
    for a, loc in seen_args:
        if list(a) != expect:
            problems.append('%s called with %r, expected %r (at %s)' % (callee + suf, a, expect, fmt_loc(loc)))
    rets = set(v for (_m, _st, v, _nid) in res.finals)
    if rets != {TOKEN}:
        problems.append('returns %r instead of the callee result on every path' % (sorted(rets, key=repr),))
    return {'entry': entry, 'function': fname, 'callee': callee + suf, 'ok': not problems, 'problems': problems,
            'states': res.states, 'loc': ctx.irp.funcs[fname].loc, 'functions': funcs}
