"""E5: small symbolic executor over the mini-IR for bounded-write / size rules.

Integers are linear expressions over opaque terms (Lin); pointers are (base, Lin offset).
Branch conditions that are decided by constants or by known linear facts are followed on
one side; undecided ones fork and become path atoms.  Constant-trip loops are unrolled;
other loops are summarised: variables assigned in the loop are replaced by fresh symbols
at the first entry and the body is explored once (per-iteration deltas are recorded).
"""
from .frontend import AnalysisBroken, fmt_loc
from .ir import const_value, strip_casts, call_target, manager_call, sizeof_type, is_tmp
from .cfgutil import dominators, expr_key, _strip_all
from . import pp


def wrap_int(v, ty):
    """value of integer v converted to C type ty (LP64, char signed, wchar_t = int)"""
    t = (ty or '').replace('const ', '').strip()
    bits, signed = {'char': (8, True), 'signed char': (8, True), 'unsigned char': (8, False), 'short': (16, True),
                    'unsigned short': (16, False), 'int': (32, True), 'unsigned int': (32, False), 'wchar_t': (32, True),
                    'long': (64, True), 'unsigned long': (64, False), 'UriBool': (32, True), 'size_t': (64, False)}.get(t, (None, None))
    if bits is None:
        return v
    v &= (1 << bits) - 1
    if signed and v >= (1 << (bits - 1)):
        v -= (1 << bits)
    return v


class Lin(object):
    __slots__ = ('t', 'c')

    def __init__(self, t=None, c=0):
        self.t = dict((k, v) for k, v in (t or {}).items() if v != 0)
        self.c = c

    @staticmethod
    def const(c):
        return Lin({}, c)

    @staticmethod
    def sym(name):
        return Lin({name: 1}, 0)

    def is_const(self):
        return not self.t

    def __add__(self, o):
        t = dict(self.t)
        for k, v in o.t.items():
            t[k] = t.get(k, 0) + v
        return Lin(t, self.c + o.c)

    def __sub__(self, o):
        return self + o.scale(-1)

    def scale(self, k):
        return Lin(dict((a, b * k) for a, b in self.t.items()), self.c * k)

    def key(self):
        return (tuple(sorted(self.t.items())), self.c)

    def __eq__(self, o):
        return isinstance(o, Lin) and self.key() == o.key()

    def __hash__(self):
        return hash(self.key())

    def __repr__(self):
        parts = []
        for k, v in sorted(self.t.items()):
            parts.append(('%s' % k) if v == 1 else ('%d*%s' % (v, k)))
        if self.c or not parts:
            parts.append(str(self.c))
        return ' + '.join(parts)

    def subst(self, m):
        out = Lin({}, self.c)
        for k, v in self.t.items():
            if k in m:
                out = out + m[k].scale(v)
            else:
                out = out + Lin({k: v}, 0)
        return out


class Ptr(object):
    __slots__ = ('base', 'off')

    def __init__(self, base, off=None):
        self.base = base
        self.off = off if off is not None else Lin.const(0)

    def key(self):
        return ('ptr', self.base, self.off.key())

    def __eq__(self, o):
        return isinstance(o, Ptr) and self.key() == o.key()

    def __hash__(self):
        return hash(self.key())

    def __repr__(self):
        return '%s+(%r)' % (self.base, self.off)


NULLP = Ptr('NULL')


class PState(object):
    def __init__(self):
        self.env = {}          # lvalue key -> Lin | Ptr
        self.facts = set()     # Lin keys l meaning l <= 0
        self.atoms = []        # (text, truth)
        self.events = []
        self.visits = {}       # block id -> count on this path
        self.loopsyms = {}     # header id -> {var: symbol}
        self.notes = {}

    def copy(self):
        s = PState()
        s.env = dict(self.env)
        s.facts = set(self.facts)
        s.atoms = list(self.atoms)
        s.events = list(self.events)
        s.visits = dict(self.visits)
        s.loopsyms = dict(self.loopsyms)
        s.notes = dict(self.notes)
        return s


class SymExec(object):
    MAX_PATHS = 200000

    def __init__(self, prog, f, char_size=1):
        self.prog = prog
        self.f = f
        self.char_size = char_size
        self.paths = []        # finished: (state, ret value, loc)
        self.iterations = []   # (header id, state at back edge)
        self.dom = dominators(f)
        self.loops = self._loops()
        self.npaths = 0
        self.opaque_calls = {}
        self.on_call = None    # hook(i, state, args) -> value or None
        self.on_load = None    # hook(se, state, base, offset Lin, expr) -> value or None
        self.stop_blocks = set()
        self.stops = []
        self.no_summarise = False
        self.nonneg = None     # predicate on term names: symbol is known >= 0
        self.pure_calls = set()
        self.merge_vars = None     # list of lvalue keys widened at join blocks (None = no merging)
        self.invariants = None     # fn(state) -> list of Lin that must be <= 0 (re-established after widening)
        self.regions = []          # (start, end, atoms, events, env, facts, retval, loc)
        self.seen_join = set()
        self.cut_blocks = None     # block ids where merging is allowed (None = every join)
        self.lazy_merge = False
        self.keep_vars = set()
        self.volatile_names = ()   # facts mentioning these names do not survive a merge point
        self.live = self._liveness()

    # ---- loops
    def _loops(self):
        f = self.f
        loops = {}
        for b in f.blocks:
            for p in b.preds:
                if b.id in self.dom[p.id]:
                    # back edge p -> b ; natural loop body
                    body = {b.id}
                    st = [p]
                    while st:
                        x = st.pop()
                        if x.id in body:
                            continue
                        body.add(x.id)
                        st.extend(x.preds)
                    L = loops.setdefault(b.id, {'body': set(), 'assigned': set()})
                    L['body'] |= body
        byid = {b.id: b for b in f.blocks}
        for h, L in loops.items():
            for bid in L['body']:
                for i in byid[bid].ins:
                    if i.op == 'assign':
                        L['assigned'].add(expr_key(i.dst))
                    elif i.op == 'call' and i.dst is not None:
                        L['assigned'].add(i.dst.v)
        return loops

    def _liveness(self):
        """block id -> set of variable names live at block entry"""
        f = self.f

        def uses(e, out):
            if e is None:
                return
            for n in e.walk():
                if n.k == 'ref':
                    out.add(n.v)
        gen, kill = {}, {}
        for b in f.blocks:
            g, k = set(), set()
            for i in b.ins:
                u = set()
                if i.op == 'assign':
                    uses(i.src, u)
                    if i.dst.k != 'ref':
                        uses(i.dst, u)
                elif i.op == 'call':
                    uses(i.src, u)
                    for a in i.args:
                        uses(a, u)
                g |= (u - k)
                if i.op in ('assign', 'decl') and i.dst.k == 'ref':
                    k.add(i.dst.v)
                elif i.op == 'call' and i.dst is not None:
                    k.add(i.dst.v)
            u = set()
            t = b.term
            if t[0] in ('br', 'switch', 'ret') and t[1] is not None:
                uses(t[1], u)
            g |= (u - k)
            gen[b.id], kill[b.id] = g, k
        live_in = {b.id: set() for b in f.blocks}
        changed = True
        while changed:
            changed = False
            for b in reversed(f.blocks):
                out = set()
                for s in b.succs():
                    out |= live_in[s.id]
                new = gen[b.id] | (out - kill[b.id])
                if new != live_in[b.id]:
                    live_in[b.id] = new
                    changed = True
        return live_in

    def _flush_region(self, st, end, retval=None, loc=None):
        self.regions.append((st.notes.get('region_start', 'entry'), end, list(st.atoms), list(st.events), dict(st.env),
                             set(st.facts), retval, loc, dict(st.notes)))

    def _merge_at(self, b, st):
        """flush the region and continue from block b with widened merge variables; returns new state or None if an
        equivalent state was already continued from here"""
        changed = False
        snap = st.notes.get('region_env', {})
        for k in self.merge_vars or ():
            v = st.env.get(k)
            if (v.key() if hasattr(v, 'key') else v) != snap.get(k, ('unset',)):
                changed = True
        if self.lazy_merge and not changed and st.notes.get('region_start') is not None:
            # nothing to merge: plain continuation, de-duplicated on the full state
            live = self.live[b.id]
            key = ('cont', b.id,
                   frozenset((k, v.key() if hasattr(v, 'key') else v) for k, v in st.env.items()
                             if k.lstrip('(*').split('-')[0].split('.')[0].split('[')[0].split(')')[0] in live or k in self.merge_vars),
                   frozenset((k, v) for k, v in st.notes.items() if k not in ('region_start', 'region_env') and not (isinstance(k, tuple) and k[0] == 'atom')),
                   frozenset(st.facts), len(st.events))
            if key in self.seen_join:
                return None
            self.seen_join.add(key)
            return st
        self._flush_region(st, b.id)
        live = self.live[b.id]
        invs = self.invariants(self, st) if self.invariants else []
        keep_inv = []
        for (name, l) in invs:
            if self.decide_le(l, st) is True:
                keep_inv.append(name)
        env = {}
        for k, v in st.env.items():
            base = k
            for ch in '-.[*( ':
                base = base.split(ch)[0] if ch in base and not base.startswith('(') else base
            root = k.lstrip('(*').split('-')[0].split('.')[0].split('[')[0].split(')')[0]
            if root in live or k in (self.merge_vars or ()) or k in self.keep_vars:
                env[k] = v
        in_loop = b.id in self.loops and st.visits.get(b.id, 0) >= 1
        for k in self.merge_vars or ():
            if k in env and isinstance(env[k], Lin) and (in_loop or not env[k].is_const()):
                env[k] = Lin.sym('%s@J%d' % (k, b.id))
            elif k in env and isinstance(env[k], Ptr) and env[k].base != 'NULL' and (in_loop or not env[k].off.is_const()):
                env[k] = Ptr(env[k].base, Lin.sym('%s@J%d' % (k, b.id)))
        key = (b.id, frozenset((k, v.key() if hasattr(v, 'key') else v) for k, v in env.items()),
               frozenset((k, v) for k, v in st.notes.items() if k not in ('region_start', 'region_env', 'start_vals') and not (isinstance(k, tuple) and k[0] == 'atom')
                         and not (isinstance(k, tuple) and len(k) > 1 and isinstance(k[1], str) and any(vn in k[1] for vn in (self.volatile_names if b.id in self.loops else ())))),
               frozenset(keep_inv))
        if key in self.seen_join:
            return None
        self.seen_join.add(key)
        s2 = PState()
        s2.env = env
        s2.notes = dict((k, v) for k, v in st.notes.items() if not (isinstance(k, tuple) and k[0] == 'atom') and k not in ('region_env', 'start_vals')
                        and not (isinstance(k, tuple) and len(k) > 1 and isinstance(k[1], str) and any(vn in k[1] for vn in (self.volatile_names if b.id in self.loops else ()))))
        s2.notes['region_start'] = b.id
        s2.notes['start_vals'] = tuple(sorted(((k, env[k] if isinstance(env[k], Lin) else env[k].off) for k in (self.merge_vars or ()) if isinstance(env.get(k), (Lin, Ptr))), key=lambda x: x[0]))
        s2.notes['region_env'] = dict((k, (env[k].key() if hasattr(env.get(k), 'key') else env.get(k, ('unset',)))) for k in (self.merge_vars or ()))
        s2.visits = dict(st.visits)
        s2.loopsyms = dict(st.loopsyms)
        mv = tuple(self.merge_vars or ())
        for (terms, c) in st.facts:
            if all(not any(tn.startswith(m) for m in mv) and not any(vn in tn for vn in (self.volatile_names if b.id in self.loops else ())) for tn, _ in terms):
                s2.facts.add((terms, c))
        if self.invariants:
            for (name, l) in self.invariants(self, s2):
                if name in keep_inv:
                    s2.facts.add(l.key())
                else:
                    s2.notes[('inv-lost', name)] = True
        return s2

    # ---- evaluation
    def opaque(self, text):
        return Lin.sym(text)

    def text_of(self, e, st):
        """expression text with concrete values of known integer variables substituted"""
        e2 = _strip_all(e)

        def rec(n):
            if n.k == 'ref':
                v = st.env.get(n.v)
                if isinstance(v, Lin) and v.is_const():
                    return str(v.c)
                return n.v
            if n.k == 'int':
                return str(n.v)
            if n.k == 'member':
                return '%s%s%s' % (rec(n.c[0]), '->' if n.x['arrow'] else '.', n.v)
            if n.k == 'index':
                return '%s[%s]' % (rec(n.c[0]), rec(n.c[1]))
            if n.k == 'un':
                return '(%s%s)' % (n.v, rec(n.c[0]))
            if n.k == 'bin':
                return '(%s %s %s)' % (rec(n.c[0]), n.v, rec(n.c[1]))
            return pp.expr(n)
        return rec(e2)

    def ev(self, e, st):
        """Lin | Ptr"""
        cv = const_value(e, self.prog)
        if cv is not None and e.k != 'ref':
            if e.k == 'cast' and e.v == 'NullToPointer':
                return NULLP
            if '*' in (e.ty or '') and cv == 0:
                return NULLP
            return Lin.const(cv)
        k = e.k
        if k == 'cast':
            if e.v == 'LValueToRValue':
                key = expr_key(e.c[0])
                if key in st.env:
                    return st.env[key]
                if self.on_load is not None and (e.c[0].k == 'index' or (e.c[0].k == 'un' and e.c[0].v == '*')):
                    return self.ev(e.c[0], st)
                # unknown memory: opaque by text; pointers become bases
                txt = self.text_of(e.c[0], st)
                if '*' in (e.ty or ''):
                    return Ptr(txt)
                return self.opaque(txt)
            if e.v == 'ArrayToPointerDecay':
                if e.c[0].k == 'str':
                    return Ptr('"%s"' % e.c[0].v)
                return Ptr('&' + self.text_of(e.c[0], st))
            v = self.ev(e.c[0], st)
            if isinstance(v, Lin) and v.is_const() and e.v in ('IntegralCast',):
                return Lin.const(wrap_int(v.c, (e.x or {}).get('dty') or e.ty))
            return v
        if k == 'ref':
            if e.v in st.env:
                return st.env[e.v]
            if e.x and e.x.get('dk') == 'EnumConstantDecl':
                return Lin.const(self.prog.enums.get(e.v, 0))
            if '*' in (e.ty or ''):
                return Ptr(e.v)
            return self.opaque(e.v)
        if k == 'sizeof':
            sz = const_value(e, self.prog)
            at = (e.x.get('argDesugared') or '') if e.x else ''
            if sz is None:
                return self.opaque('sizeof(%s)' % at)
            return Lin.const(sz)
        if k == 'bin':
            a = self.ev(e.c[0], st)
            b = self.ev(e.c[1], st)
            op = e.v
            if isinstance(a, Ptr) or isinstance(b, Ptr):
                if op == '+' and isinstance(a, Ptr) and isinstance(b, Lin):
                    return Ptr(a.base, a.off + b)
                if op == '+' and isinstance(b, Ptr) and isinstance(a, Lin):
                    return Ptr(b.base, b.off + a)
                if op == '-' and isinstance(a, Ptr) and isinstance(b, Lin):
                    return Ptr(a.base, a.off - b)
                if op == '-' and isinstance(a, Ptr) and isinstance(b, Ptr):
                    if a.base == b.base:
                        return a.off - b.off
                    # difference of two opaque pointers: length term
                    return self.opaque('(%s - %s)' % (self._ptxt(a), self._ptxt(b)))
                return self.opaque(self.text_of(e, st))
            if op == '+':
                return a + b
            if op == '-':
                return a - b
            if op == '*':
                if a.is_const():
                    return b.scale(a.c)
                if b.is_const():
                    return a.scale(b.c)
            if a.is_const() and b.is_const():
                try:
                    r = {'/': lambda: a.c // b.c if b.c else None, '%': lambda: a.c % b.c if b.c else None,
                         '&': lambda: a.c & b.c, '|': lambda: a.c | b.c, '<<': lambda: a.c << b.c,
                         '>>': lambda: a.c >> b.c,
                         '<': lambda: int(a.c < b.c), '>': lambda: int(a.c > b.c), '<=': lambda: int(a.c <= b.c),
                         '>=': lambda: int(a.c >= b.c), '==': lambda: int(a.c == b.c), '!=': lambda: int(a.c != b.c)}[op]()
                    if r is not None:
                        return Lin.const(r)
                except KeyError:
                    pass
            return self.opaque(self.text_of(e, st))
        if k == 'un':
            if e.v == '-':
                v = self.ev(e.c[0], st)
                if isinstance(v, Lin):
                    return v.scale(-1)
            if e.v == '&':
                return Ptr('&' + self.text_of(e.c[0], st))
            if e.v == '*':
                if self.on_load is not None:
                    p = self.ev(e.c[0], st)
                    if isinstance(p, Ptr):
                        r = self.on_load(self, st, p.base, p.off, e)
                        if r is not None:
                            return r
                key = expr_key(e)
                if key in st.env:
                    return st.env[key]
            return self.opaque(self.text_of(e, st))
        if k == 'index' and self.on_load is not None:
            p = self.ev(e.c[0], st)
            idx = self.ev(e.c[1], st)
            if isinstance(p, Ptr) and isinstance(idx, Lin):
                r = self.on_load(self, st, p.base, p.off + idx, e)
                if r is not None:
                    return r
        if k in ('member', 'index'):
            key = expr_key(e)
            if key in st.env:
                return st.env[key]
            txt = self.text_of(e, st)
            if '*' in (e.ty or ''):
                return Ptr(txt)
            return self.opaque(txt)
        if k == 'str':
            return Ptr('"%s"' % e.v)
        return self.opaque(self.text_of(e, st))

    def _ptxt(self, p):
        if p.off.is_const() and p.off.c == 0:
            return p.base
        return '%s+%r' % (p.base, p.off)

    # ---- conditions
    def nonpos(self, l):
        """l <= 0 for all valuations with the non-negative symbols >= 0"""
        if l.c > 0:
            return False
        for k, v in l.t.items():
            if v > 0 or not self.is_nonneg(k):
                return False
        return True

    def is_nonneg(self, term):
        return self.nonneg is not None and self.nonneg(term)

    def decide_le(self, l, st):
        """is Lin l <= 0 known true (True), known false (False) or unknown (None)?"""
        if l.is_const():
            return l.c <= 0
        if self.nonpos(l):
            return True
        r = self._decide_le_basic(l, st)
        if r is not None:
            return r
        # l <= f (+ g) for known facts f, g <= 0 and a remainder that is non-positive
        fl = [Lin(dict(t), c) for (t, c) in st.facts]
        for f in fl:
            if self.nonpos(l - f):
                return True
            for tn, cf in f.t.items():
                cl = l.t.get(tn, 0)
                if cf > 0 and cl > cf and cl % cf == 0 and self.nonpos(l - f.scale(cl // cf)):
                    return True
        if len(fl) <= 40:
            for i, f in enumerate(fl):
                for g in fl[i:]:
                    if self.nonpos(l - f - g):
                        return True
        neg = l.scale(-1) + Lin.const(1)
        for f in fl:
            if self.nonpos(neg - f):
                return False
        return None

    def _decide_le_basic(self, l, st):
        if l.is_const():
            return l.c <= 0
        k = l.key()
        if k in st.facts:
            return True
        # implied by a stronger fact with the same terms: l' <= 0 with l = l' - d, d >= 0
        for (terms, c) in st.facts:
            if terms == k[0] and c >= l.c:
                return True
        # known false if -(l) + 1 <= 0 i.e. l >= 1 is a fact
        neg = l.scale(-1) + Lin.const(1)
        nk = neg.key()
        if nk in st.facts:
            return False
        for (terms, c) in st.facts:
            if terms == nk[0] and c >= neg.c:
                return False
        return None

    def cond(self, e, st):
        """returns list of (truth, state) successors"""
        c = e
        while c.k == 'cast':
            c = c.c[0]
        if c.k == 'bin' and c.v in ('<', '>', '<=', '>=', '==', '!='):
            a = self.ev(c.c[0], st)
            b = self.ev(c.c[1], st)
            op = c.v
            if isinstance(a, Ptr) and isinstance(b, Ptr) and a.base == b.base and op in ('<', '>', '<=', '>='):
                a, b = a.off, b.off
            if isinstance(a, Ptr) or isinstance(b, Ptr):
                if op in ('==', '!=') and isinstance(a, Ptr) and isinstance(b, Ptr):
                    if a.base == b.base:
                        if a.off == b.off:
                            return [(op == '==', st)]
                        d = a.off - b.off
                        if d.is_const():
                            return [((d.c == 0) == (op == '=='), st)]
                    # compare against NULL: decided if the pointer is a known non-null base
                    other = a if b.base == 'NULL' else (b if a.base == 'NULL' else None)
                    if other is not None:
                        if other.base == 'NULL':
                            return [(op == '==', st)]
                        nn = st.notes.get(('nonnull', other.base))
                        if nn is True:
                            return [(op == '!=', st)]
                        if nn is False:
                            return [(op == '==', st)]
                        # fork and remember
                        s1, s2 = st.copy(), st.copy()
                        s1.notes[('nonnull', other.base)] = False     # equals NULL
                        s2.notes[('nonnull', other.base)] = True
                        txt = '%s == NULL' % other.base
                        s1.atoms.append((txt, True))
                        s2.atoms.append((txt, False))
                        return [(op == '==', s1), (op != '==', s2)]
                return self._fork(self.text_of(c, st), st)
            # integer comparison  a OP b
            d = a - b
            if op == '<=':
                l, negl = d, d.scale(-1) + Lin.const(1)
            elif op == '<':
                l, negl = d + Lin.const(1), d.scale(-1)
            elif op == '>=':
                l, negl = d.scale(-1), d + Lin.const(1)
            elif op == '>':
                l, negl = d.scale(-1) + Lin.const(1), d
            else:
                if d.is_const():
                    return [((d.c == 0) == (op == '=='), st)]
                # canonical text: operands ordered, so `a == 0` and `0 == a` are one atom; the equal side learns d = 0
                ka, kb = repr(a), repr(b)
                txt = '(%s == %s)' % ((ka, kb) if (kb.lstrip('-').isdigit() or ka <= kb) and not ka.lstrip('-').isdigit() else (kb, ka))
                outs = self._fork(txt, st)
                res = []
                for truth, s2 in outs:
                    if truth:
                        if s2 is st:
                            s2 = st.copy()
                        s2.facts.add(d.key())
                        s2.facts.add(d.scale(-1).key())
                    res.append(((truth if op == '==' else not truth), s2))
                return res
            r = self.decide_le(l, st)
            if r is not None:
                return [(r, st)]
            s1, s2 = st.copy(), st.copy()
            s1.facts.add(l.key())
            s2.facts.add(negl.key())
            txt = '%r <= 0' % l
            s1.atoms.append((txt, True))
            s2.atoms.append((txt, False))
            s1.events.append(('check', l, True, e.loc))
            s2.events.append(('check', l, False, e.loc))
            return [(True, s1), (False, s2)]
        v = self.ev(c, st)
        if isinstance(v, Lin) and v.is_const():
            return [(v.c != 0, st)]
        if isinstance(v, Ptr):
            if v.base == 'NULL':
                return [(False, st)]
            nn = st.notes.get(('nonnull', v.base))
            if nn is not None:
                return [(nn, st)]
            s1, s2 = st.copy(), st.copy()
            s1.notes[('nonnull', v.base)] = True
            s2.notes[('nonnull', v.base)] = False
            s1.atoms.append(('%s == NULL' % v.base, False))
            s2.atoms.append(('%s == NULL' % v.base, True))
            return [(True, s1), (False, s2)]
        return self._fork(repr(v), st)

    def _fork(self, txt, st):
        known = st.notes.get(('atom', txt))
        if known is not None:
            return [(known, st)]
        s1, s2 = st.copy(), st.copy()
        s1.notes[('atom', txt)] = True
        s2.notes[('atom', txt)] = False
        s1.atoms.append((txt, True))
        s2.atoms.append((txt, False))
        return [(True, s1), (False, s2)]

    # ---- instructions
    def assign(self, i, st):
        key = expr_key(i.dst)
        v = self.ev(i.src, st)
        base = i.dst
        if base.k in ('index',) or (base.k == 'un' and base.v == '*'):
            p = self.ev(base.c[0], st)
            if isinstance(p, Ptr):
                off = p.off
                if base.k == 'index':
                    idx = self.ev(base.c[1], st)
                    if isinstance(idx, Lin):
                        off = off + idx
                st.events.append(('store', p.base, off, Lin.const(1), i.loc, v, dict(st.env), set(st.facts)))
                if base.k == 'un':
                    st.env[key] = v
                return
        if i.dst.k == 'member':
            st.events.append(('field', key, v, i.loc))
        st.env[key] = v
        # invalidate facts mentioning the overwritten variable symbol (none: facts use symbols, not variables)

    def call(self, i, st):
        t = call_target(i)
        args = [self.ev(a, st) for a in i.args]
        res = None
        if self.on_call is not None:
            res = self.on_call(self, i, st, args)
        if res is None:
            if t in ('memcpy', 'memmove', 'memset'):
                dst = args[0]
                n = args[2]
                if isinstance(dst, Ptr):
                    st.events.append(('store-bytes', dst.base, dst.off, n, i.loc, t, dict(st.env), set(st.facts),
                                      self.text_of(i.args[2], st)))
                res = dst
            else:
                txt = '%s(%s)' % (t or pp.expr(i.src), ', '.join(self.text_of(a, st) for a in i.args))
                if '*' in (i.dst.ty or '') if i.dst is not None else False:
                    res = Ptr(txt)
                else:
                    res = self.opaque(txt)
        if i.dst is not None:
            st.env[i.dst.v] = res

    # ---- driver
    def run(self, st0, start=None):
        f = self.f
        work = [(start or f.entry, st0)]
        first = True
        while work:
            b, st = work.pop()
            self.npaths += 1
            if not first and b.id in self.stop_blocks:
                self.stops.append((b.id, st))
                continue
            first = False
            if self.npaths > self.MAX_PATHS:
                raise AnalysisBroken('symbolic execution of %s exceeds %d block visits' % (f.name, self.MAX_PATHS))
            if self.merge_vars is not None and len(b.preds) >= 2 and b.id not in self.loops \
                    and (self.cut_blocks is None or b.id in self.cut_blocks):
                st = self._merge_at(b, st)
                if st is None:
                    continue
            if b.id in self.loops:
                L = self.loops[b.id]
                n = st.visits.get(b.id, 0)
                if b.id in st.loopsyms:
                    if n >= 1:
                        # back at the header of a summarised loop: record the iteration and stop this path
                        self.iterations.append((b.id, st))
                        if self.merge_vars is not None:
                            if self.invariants:
                                for (name, l) in self.invariants(self, st):
                                    if self.decide_le(l, st) is not True:
                                        st.events.append(('invariant-broken', name, b.loc))
                            self._flush_region(st, ('back', b.id))
                        continue
                elif self.merge_vars is not None and (self.cut_blocks is None or b.id in self.cut_blocks):
                    st = self._merge_at(b, st)
                    if st is None:
                        continue
                elif n == 0 and not self.no_summarise and not self._concrete_loop(b, st):
                    # summarise: fresh symbols for everything assigned in the loop
                    syms = {}
                    for k in L['assigned']:
                        if k in st.env or True:
                            v = st.env.get(k)
                            if isinstance(v, Ptr):
                                continue
                            s = '%s@L%d' % (k, b.id)
                            syms[k] = (s, v)
                            st.env[k] = Lin.sym(s)
                    st.loopsyms[b.id] = syms
                    st.events.append(('loop-enter', b.id, syms, dict(st.notes)))
                st.visits[b.id] = n + 1
                if n > 64:
                    raise AnalysisBroken('loop at %s in %s does not unroll' % (fmt_loc(b.loc), f.name))
            for i in b.ins:
                if i.op == 'assign':
                    self.assign(i, st)
                elif i.op == 'call':
                    self.call(i, st)
                elif i.op == 'decl':
                    st.env.pop(i.dst.v, None)
            t = b.term
            if t[0] == 'jmp':
                work.append((t[1], st))
            elif t[0] == 'br':
                for truth, s2 in self.cond(t[1], st):
                    work.append((t[2] if truth else t[3], s2))
            elif t[0] == 'switch':
                v = self.ev(t[1], st)
                if isinstance(v, Lin) and v.is_const():
                    tg = [bb for val, bb in t[2] if val == v.c]
                    work.append((tg[0] if tg else t[3], st))
                else:
                    seen = set()
                    txt = self.text_of(t[1], st)
                    for val, bb in t[2]:
                        s2 = st.copy()
                        s2.atoms.append(('%s == %s' % (txt, val), True))
                        s2.notes[('switch', txt)] = val
                        work.append((bb, s2))
                    s2 = st.copy()
                    s2.atoms.append(('%s in default' % txt, True))
                    s2.notes[('switch', txt)] = 'default'
                    work.append((t[3], s2))
            elif t[0] == 'ret':
                v = self.ev(t[1], st) if t[1] is not None else None
                self.paths.append((st, v, t[2]))
                if self.merge_vars is not None:
                    self._flush_region(st, 'ret', v, t[2])
        return self.paths

    def _concrete_loop(self, hdr, st):
        """a loop is unrolled if its controlling condition is decided by concrete integers on entry"""
        # find the exit test: a 'br' in the loop body with one successor outside the body
        L = self.loops[hdr.id]
        byid = {b.id: b for b in self.f.blocks}
        for bid in sorted(L['body']):
            b = byid[bid]
            t = b.term
            if t[0] == 'br' and ((t[2].id in L['body']) != (t[3].id in L['body'])):
                c = t[1]
                while c.k == 'cast':
                    c = c.c[0]
                if c.k == 'bin' and c.v in ('<', '>', '<=', '>=', '!='):
                    a = self.ev(c.c[0], st)
                    bb = self.ev(c.c[1], st)
                    if isinstance(a, Lin) and isinstance(bb, Lin) and a.is_const() and bb.is_const():
                        return True
                return False
        return False
