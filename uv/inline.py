"""Inlining of small static helper functions on the mini-IR.

Used by rules that reason per function (ownership, revert protocol): when a maintainer extracts a helper, the
facts the rule needs (which URI component a range is, which flag guards a call, which mask bit is set) live at the
call site.  Inlining substitutes stable argument expressions for the helper's parameters and simplifies `*&x`,
`(&x)->f`, so the inlined body reads like the code before the extraction.  Semantics are preserved: a parameter is
substituted only if the helper never assigns it or takes its address and the argument cannot change while the helper
runs; otherwise the argument is first copied into a fresh local."""
from .frontend import N, AnalysisBroken
from .ir import Func, Block, Instr, strip_casts, call_target, manager_call, is_tmp

MAX_INSTRS = 80


def _size(f):
    return sum(len(b.ins) + 1 for b in f.blocks)


def _calls(f):
    out = set()
    for b in f.blocks:
        for i in b.ins:
            if i.op == 'call':
                t = call_target(i)
                if t:
                    out.add(t)
    return out


def _stored_fields(f, irp, seen=None):
    """names of struct members stored to by f or its direct callees (defined in the program)"""
    seen = seen if seen is not None else set()
    if f.name in seen:
        return set()
    seen.add(f.name)
    out = set()
    for b in f.blocks:
        for i in b.ins:
            if i.op == 'assign':
                d = strip_casts(i.dst)
                if d.k == 'member':
                    out.add(d.v)
                elif d.k in ('un', 'index'):
                    out.add(('*', (d.ty or '').replace('const ', '').strip()))
            elif i.op == 'call':
                t = call_target(i)
                if t in irp.funcs:
                    out |= _stored_fields(irp.funcs[t], irp, seen)
                elif t is not None or manager_call(i) is None:
                    out.add('*')
    return out


def simplify(e):
    """*&x -> x ; (&x)->f -> x.f ; &*p -> p"""
    if e is None or not e.c:
        return e
    cs = [simplify(c) for c in e.c]
    k = e.k
    if k == 'un' and e.v == '*':
        inner = cs[0]
        while inner.k == 'cast' and inner.v in ('NoOp', 'LValueToRValue') and inner.c and inner.c[0].k == 'un' and inner.c[0].v == '&':
            inner = inner.c[0]
        if inner.k == 'un' and inner.v == '&':
            return inner.c[0]
    if k == 'un' and e.v == '&':
        inner = cs[0]
        if inner.k == 'un' and inner.v == '*':
            return inner.c[0]
    if k == 'member' and e.x and e.x.get('arrow'):
        inner = cs[0]
        while inner.k == 'cast' and inner.v in ('NoOp', 'LValueToRValue') and inner.c and \
                (inner.c[0].k == 'cast' or (inner.c[0].k == 'un' and inner.c[0].v == '&')):
            inner = inner.c[0]
        if inner.k == 'un' and inner.v == '&':
            x = dict(e.x)
            x['arrow'] = False
            return N('member', e.v, e.ty, e.loc, [inner.c[0]], x)
    return N(k, e.v, e.ty, e.loc, cs, e.x)


class Inliner(object):
    def __init__(self, irp, names=None):
        self.irp = irp
        self.counter = 0
        self.candidates = {}
        from .tables import BASELINE_STATIC, base_name
        base = set(BASELINE_STATIC)
        taken = set()
        for f in irp.funcs.values():
            for b in f.blocks:
                for i in b.ins:
                    exprs = [x for x in ([i.src] if i.op != 'call' else []) + (i.args or []) + [i.dst] if x is not None]
                    for e in exprs:
                        for n in e.walk():
                            if n.k == 'ref' and n.x and n.x.get('dk') == 'FunctionDecl':
                                taken.add(n.v)
        for g in getattr(irp.prog, 'globals', []):
            for n in g.walk():
                if n.k == 'ref' and n.x and n.x.get('dk') == 'FunctionDecl':
                    taken.add(n.v)
        for name, f in irp.funcs.items():
            if not f.static or _size(f) > MAX_INSTRS or name in taken:
                continue
            if name in base or base_name(name) in base:
                continue        # a function the rules know: analysed as a function
            if names is not None and name not in names:
                continue
            self.candidates[name] = f
        # drop recursive ones
        for name in list(self.candidates):
            seen, st = set(), [name]
            rec = False
            while st:
                x = st.pop()
                for t in _calls(self.irp.funcs[x]) if x in self.irp.funcs else ():
                    if t == name:
                        rec = True
                    if t not in seen and t in self.irp.funcs:
                        seen.add(t)
                        st.append(t)
            if rec:
                del self.candidates[name]

    def stable(self, arg, callee, other_args):
        a = strip_casts(arg)
        if a is None:
            return False
        if a.k in ('int', 'sizeof', 'str'):
            return True
        if a.k == 'un' and a.v == '&':
            return True
        if a.k == 'ref':
            if a.x and a.x.get('dk') in ('EnumConstantDecl', 'FunctionDecl'):
                return True
            for o in other_args:
                so = strip_casts(o)
                if so is not None and so.k == 'un' and so.v == '&':
                    t = strip_casts(so.c[0])
                    if t is not None and t.k == 'ref' and t.v == a.v:
                        return False
            return True
        if a.k == 'member':
            stored = _stored_fields(callee, self.irp)
            ty = (a.ty or '').replace('const ', '').strip()
            if a.v in stored or '*' in stored:
                return False
            # a store through a pointer can change the field only if it stores an object of the field's type
            return not any(isinstance(x, tuple) and x[1] == ty for x in stored)
        return False

    def inline_into(self, f):
        """returns a new Func with every call to a candidate inlined (one level; callers iterate)"""
        changed = False
        nf = Func(f.name, f.node)
        nf.params, nf.param_types, nf.locals = list(f.params), dict(f.param_types), dict(f.locals)
        nf.ret_type, nf.unit, nf.static, nf.loc = f.ret_type, f.unit, f.static, f.loc
        bmap = {}
        for b in f.blocks:
            nb = Block(len(nf.blocks))
            nb.loc = b.loc
            nf.blocks.append(nb)
            bmap[b.id] = nb
        tails = {}

        def newblock():
            nb = Block(len(nf.blocks))
            nf.blocks.append(nb)
            return nb
        for b in f.blocks:
            cur = bmap[b.id]
            for ins in b.ins:
                t = call_target(ins) if ins.op == 'call' else None
                g = self.candidates.get(t) if t and t != f.name else None
                if g is None or len(ins.args) != len(g.params):
                    cur.ins.append(ins)
                    continue
                changed = True
                self.counter += 1
                tag = '%s$%d' % (g.name, self.counter)
                assigned = set()
                for gb in g.blocks:
                    for gi in gb.ins:
                        if gi.dst is not None and gi.dst.k == 'ref' and gi.dst.v in g.param_types:
                            assigned.add(gi.dst.v)
                        for e in [x for x in [gi.src] + (gi.args or []) + [gi.dst] if x is not None]:
                            for n in e.walk():
                                if n.k == 'un' and n.v == '&':
                                    s = strip_casts(n.c[0])
                                    if s is not None and s.k == 'ref':
                                        assigned.add(s.v)
                sub = {}
                for p, a in zip(g.params, ins.args):
                    others = [x for x in ins.args if x is not a]
                    if p not in assigned and self.stable(a, g, others):
                        sub[p] = a
                    else:
                        nm = '%s.%s' % (tag, p)
                        nf.locals[nm] = g.param_types.get(p)
                        ref = N('ref', nm, g.param_types.get(p), ins.loc, None, {'dk': 'VarDecl', 'local': True, 'id': nm})
                        cur.ins.append(Instr('assign', ref, a, loc=ins.loc, x={'inlined_param': True}))
                        sub[p] = ref
                ren = {}
                for nm, ty in g.locals.items():
                    if nm in g.param_types:
                        continue
                    ren[nm] = '%s.%s' % (tag, nm)
                    nf.locals[ren[nm]] = ty

                def sx(e):
                    if e is None:
                        return None
                    if e.k == 'ref':
                        if e.v in sub and not (e.x and e.x.get('dk') in ('EnumConstantDecl', 'FunctionDecl')):
                            return sub[e.v]
                        if e.v in ren:
                            x = dict(e.x or {})
                            return N('ref', ren[e.v], e.ty, e.loc, None, x)
                        return e
                    if not e.c:
                        return e
                    return N(e.k, e.v, e.ty, e.loc, [sx(c) for c in e.c], e.x)

                def sxs(e):
                    return simplify(sx(e))
                cont = newblock()
                gmap = dict((gb.id, newblock()) for gb in g.blocks)
                cur.term = ('jmp', gmap[g.entry.id])
                for gb in g.blocks:
                    tb = gmap[gb.id]
                    tb.loc = gb.loc
                    for gi in gb.ins:
                        tb.ins.append(Instr(gi.op, sxs(gi.dst) if gi.dst is not None else None, sxs(gi.src) if gi.src is not None else None,
                                            [sxs(a) for a in gi.args] if gi.args is not None else None, loc=gi.loc, x=gi.x))
                    gt = gb.term
                    if gt[0] == 'jmp':
                        tb.term = ('jmp', gmap[gt[1].id])
                    elif gt[0] == 'br':
                        tb.term = ('br', sxs(gt[1]), gmap[gt[2].id], gmap[gt[3].id], gt[4])
                    elif gt[0] == 'switch':
                        tb.term = ('switch', sxs(gt[1]), [(v, gmap[bb.id]) for v, bb in gt[2]], gmap[gt[3].id], gt[4])
                    elif gt[0] == 'ret':
                        if ins.dst is not None and gt[1] is not None:
                            tb.ins.append(Instr('assign', ins.dst, sxs(gt[1]), loc=gt[2], x={'inlined_ret': True}))
                        tb.term = ('jmp', cont)
                cur = cont
            tails[b.id] = cur
        for b in f.blocks:
            cur = tails[b.id]
            t = b.term
            if t[0] == 'jmp':
                cur.term = ('jmp', bmap[t[1].id])
            elif t[0] == 'br':
                cur.term = ('br', t[1], bmap[t[2].id], bmap[t[3].id], t[4])
            elif t[0] == 'switch':
                cur.term = ('switch', t[1], [(v, bmap[bb.id]) for v, bb in t[2]], bmap[t[3].id], t[4])
            else:
                cur.term = t
        nf.entry = bmap[f.entry.id]
        # reachable blocks, ids, preds
        reach, st = [], [nf.entry]
        seen = set()
        while st:
            x = st.pop()
            if id(x) in seen:
                continue
            seen.add(id(x))
            reach.append(x)
            st.extend(x.succs())
        order = [b for b in nf.blocks if id(b) in seen]
        for i, b in enumerate(order):
            b.id = i
            b.preds = []
        for b in order:
            for s in b.succs():
                s.preds.append(b)
        nf.blocks = order
        return nf, changed


class InlinedProgram(object):
    """same interface as IRProgram (funcs, prog, callees) with static helpers inlined and removed"""

    def __init__(self, irp, rounds=4):
        self.prog = irp.prog
        inl = Inliner(irp)
        funcs = dict(irp.funcs)
        for _ in range(rounds):
            inl.irp = type('P', (), {'funcs': funcs, 'prog': irp.prog})()
            any_change = False
            new = {}
            for name, f in funcs.items():
                nf, ch = inl.inline_into(f)
                new[name] = nf if ch else f
                any_change = any_change or ch
            funcs = new
            if not any_change:
                break
        # helpers that are no longer called by anyone disappear
        called = set()
        for f in funcs.values():
            called |= _calls(f)
        self.removed = sorted(n for n in inl.candidates if n not in called and n in funcs)
        self.funcs = dict((n, f) for n, f in funcs.items() if n not in self.removed)
        self.inlined_calls = inl.counter

    def callees(self, f):
        direct, indirect = [], []
        for b in f.blocks:
            for i in b.ins:
                if i.op == 'call':
                    t = call_target(i)
                    if t is not None:
                        direct.append((t, i))
                    else:
                        indirect.append(i)
        return direct, indirect
