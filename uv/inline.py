"""Inlining of small static helper functions on the mini-IR.

Used by rules that reason per function (ownership, revert protocol): when a maintainer extracts a helper, the
facts the rule needs (which URI component a range is, which flag guards a call, which mask bit is set) live at the
call site.  Inlining substitutes stable argument expressions for the helper's parameters and simplifies `*&x`,
`(&x)->f`, so the inlined body reads like the code before the extraction.  Semantics are preserved: a parameter is
substituted only if the helper never assigns it or takes its address and the argument cannot change while the helper
runs; otherwise the argument is first copied into a fresh local."""
from .frontend import N, AnalysisBroken
from .ir import Func, Block, Instr, strip_casts, call_target, manager_call, is_tmp

MAX_INSTRS = 80


def _size(f):
    return sum(len(b.ins) + 1 for b in f.blocks)


def _calls(f):
    out = set()
    for b in f.blocks:
        for i in b.ins:
            if i.op == 'call':
                t = call_target(i)
                if t:
                    out.add(t)
    return out


def _stored_fields(f, irp, seen=None):
    """names of struct members stored to by f or its direct callees (defined in the program)"""
    seen = seen if seen is not None else set()
    if f.name in seen:
        return set()
    seen.add(f.name)
    out = set()
    for b in f.blocks:
        for i in b.ins:
            if i.op == 'assign':
                d = strip_casts(i.dst)
                if d.k == 'member':
                    out.add(d.v)
                elif d.k in ('un', 'index'):
                    out.add(('*', (d.ty or '').replace('const ', '').strip()))
            elif i.op == 'call':
                t = call_target(i)
                if t in irp.funcs:
                    out |= _stored_fields(irp.funcs[t], irp, seen)
                elif t is not None or manager_call(i) is None:
                    out.add('*')
    return out


def simplify(e):
    """*&x -> x ; (&x)->f -> x.f ; &*p -> p"""
    if e is None or not e.c:
        return e
    cs = [simplify(c) for c in e.c]
    k = e.k
    if k == 'un' and e.v == '*':
        inner = cs[0]
        while inner.k == 'cast' and inner.v in ('NoOp', 'LValueToRValue') and inner.c and inner.c[0].k == 'un' and inner.c[0].v == '&':
            inner = inner.c[0]
        if inner.k == 'un' and inner.v == '&':
            return inner.c[0]
    if k == 'un' and e.v == '&':
        inner = cs[0]
        if inner.k == 'un' and inner.v == '*':
            return inner.c[0]
    if k == 'member' and e.x and e.x.get('arrow'):
        inner = cs[0]
        while inner.k == 'cast' and inner.v in ('NoOp', 'LValueToRValue') and inner.c and \
                (inner.c[0].k == 'cast' or (inner.c[0].k == 'un' and inner.c[0].v == '&')):
            inner = inner.c[0]
        if inner.k == 'un' and inner.v == '&':
            x = dict(e.x)
            x['arrow'] = False
            return N('member', e.v, e.ty, e.loc, [inner.c[0]], x)
    return N(k, e.v, e.ty, e.loc, cs, e.x)


class Inliner(object):
    def __init__(self, irp, names=None):
        self.irp = irp
        self.counter = 0
        self.candidates = {}
        from .tables import BASELINE_STATIC, base_name
        base = set(BASELINE_STATIC)
        taken = set()
        for f in irp.funcs.values():
            for b in f.blocks:
                for i in b.ins:
                    exprs = [x for x in ([i.src] if i.op != 'call' else []) + (i.args or []) + [i.dst] if x is not None]
                    for e in exprs:
                        for n in e.walk():
                            if n.k == 'ref' and n.x and n.x.get('dk') == 'FunctionDecl':
                                taken.add(n.v)
        for g in getattr(irp.prog, 'globals', []):
            for n in g.walk():
                if n.k == 'ref' and n.x and n.x.get('dk') == 'FunctionDecl':
                    taken.add(n.v)
        for name, f in irp.funcs.items():
            if not f.static or _size(f) > MAX_INSTRS or name in taken:
                continue
            if name in base or base_name(name) in base:
                continue        # a function the rules know: analysed as a function
            if names is not None and name not in names:
                continue
            self.candidates[name] = f
        # drop recursive ones
        for name in list(self.candidates):
            seen, st = set(), [name]
            rec = False
            while st:
                x = st.pop()
                for t in _calls(self.irp.funcs[x]) if x in self.irp.funcs else ():
                    if t == name:
                        rec = True
                    if t not in seen and t in self.irp.funcs:
                        seen.add(t)
                        st.append(t)
            if rec:
                del self.candidates[name]

    def stable(self, arg, callee, other_args):
        a = strip_casts(arg)
        if a is None:
            return False
        if a.k in ('int', 'sizeof', 'str'):
            return True
        if a.k == 'un' and a.v == '&':
            return True
        if a.k == 'ref':
            if a.x and a.x.get('dk') in ('EnumConstantDecl', 'FunctionDecl'):
                return True
            for o in other_args:
                so = strip_casts(o)
                if so is not None and so.k == 'un' and so.v == '&':
                    t = strip_casts(so.c[0])
                    if t is not None and t.k == 'ref' and t.v == a.v:
                        return False
            return True
        if a.k == 'member':
            stored = _stored_fields(callee, self.irp)
            ty = (a.ty or '').replace('const ', '').strip()
            if a.v in stored or '*' in stored:
                return False
            # a store through a pointer can change the field only if it stores an object of the field's type
            return not any(isinstance(x, tuple) and x[1] == ty for x in stored)
        return False

    def inline_into(self, f):
        """returns a new Func with every call to a candidate inlined (one level; callers iterate)"""
        changed = False
        nf = Func(f.name, f.node)
        nf.params, nf.param_types, nf.locals = list(f.params), dict(f.param_types), dict(f.locals)
        nf.ret_type, nf.unit, nf.static, nf.loc = f.ret_type, f.unit, f.static, f.loc
        bmap = {}
        for b in f.blocks:
            nb = Block(len(nf.blocks))
            nb.loc = b.loc
            nf.blocks.append(nb)
            bmap[b.id] = nb
        tails = {}

        def newblock():
            nb = Block(len(nf.blocks))
            nf.blocks.append(nb)
            return nb
        for b in f.blocks:
            cur = bmap[b.id]
            for ins in b.ins:
                t = call_target(ins) if ins.op == 'call' else None
                g = self.candidates.get(t) if t and t != f.name else None
                if g is None or len(ins.args) != len(g.params):
                    cur.ins.append(ins)
                    continue
                changed = True
                self.counter += 1
                tag = '%s$%d' % (g.name, self.counter)
                assigned = set()
                for gb in g.blocks:
                    for gi in gb.ins:
                        if gi.dst is not None and gi.dst.k == 'ref' and gi.dst.v in g.param_types:
                            assigned.add(gi.dst.v)
                        for e in [x for x in [gi.src] + (gi.args or []) + [gi.dst] if x is not None]:
                            for n in e.walk():
                                if n.k == 'un' and n.v == '&':
                                    s = strip_casts(n.c[0])
                                    if s is not None and s.k == 'ref':
                                        assigned.add(s.v)
                sub = {}
                for p, a in zip(g.params, ins.args):
                    others = [x for x in ins.args if x is not a]
                    if p not in assigned and self.stable(a, g, others):
                        sub[p] = a
                    else:
                        nm = '%s.%s' % (tag, p)
                        nf.locals[nm] = g.param_types.get(p)
                        ref = N('ref', nm, g.param_types.get(p), ins.loc, None, {'dk': 'VarDecl', 'local': True, 'id': nm})
                        cur.ins.append(Instr('assign', ref, a, loc=ins.loc, x={'inlined_param': True}))
                        sub[p] = ref
                ren = {}
                for nm, ty in g.locals.items():
                    if nm in g.param_types:
                        continue
                    ren[nm] = '%s.%s' % (tag, nm)
                    nf.locals[ren[nm]] = ty

                def sx(e):
                    if e is None:
                        return None
                    if e.k == 'ref':
                        if e.v in sub and not (e.x and e.x.get('dk') in ('EnumConstantDecl', 'FunctionDecl')):
                            return sub[e.v]
                        if e.v in ren:
                            x = dict(e.x or {})
                            return N('ref', ren[e.v], e.ty, e.loc, None, x)
                        return e
                    if not e.c:
                        return e
                    return N(e.k, e.v, e.ty, e.loc, [sx(c) for c in e.c], e.x)

                def sxs(e):
                    return simplify(sx(e))
                cont = newblock()
                gmap = dict((gb.id, newblock()) for gb in g.blocks)
                cur.term = ('jmp', gmap[g.entry.id])
                for gb in g.blocks:
                    tb = gmap[gb.id]
                    tb.loc = gb.loc
                    for gi in gb.ins:
                        tb.ins.append(Instr(gi.op, sxs(gi.dst) if gi.dst is not None else None, sxs(gi.src) if gi.src is not None else None,
                                            [sxs(a) for a in gi.args] if gi.args is not None else None, loc=gi.loc, x=gi.x))
                    gt = gb.term
                    if gt[0] == 'jmp':
                        tb.term = ('jmp', gmap[gt[1].id])
                    elif gt[0] == 'br':
                        tb.term = ('br', sxs(gt[1]), gmap[gt[2].id], gmap[gt[3].id], gt[4])
                    elif gt[0] == 'switch':
                        tb.term = ('switch', sxs(gt[1]), [(v, gmap[bb.id]) for v, bb in gt[2]], gmap[gt[3].id], gt[4])
                    elif gt[0] == 'ret':
                        if ins.dst is not None and gt[1] is not None:
                            tb.ins.append(Instr('assign', ins.dst, sxs(gt[1]), loc=gt[2], x={'inlined_ret': True}))
                        tb.term = ('jmp', cont)
                cur = cont
            tails[b.id] = cur
        for b in f.blocks:
            cur = tails[b.id]
            t = b.term
            if t[0] == 'jmp':
                cur.term = ('jmp', bmap[t[1].id])
            elif t[0] == 'br':
                cur.term = ('br', t[1], bmap[t[2].id], bmap[t[3].id], t[4])
            elif t[0] == 'switch':
                cur.term = ('switch', t[1], [(v, bmap[bb.id]) for v, bb in t[2]], bmap[t[3].id], t[4])
            else:
                cur.term = t
        nf.entry = bmap[f.entry.id]
        # reachable blocks, ids, preds
        reach, st = [], [nf.entry]
        seen = set()
        while st:
            x = st.pop()
            if id(x) in seen:
                continue
            seen.add(id(x))
            reach.append(x)
            st.extend(x.succs())
        order = [b for b in nf.blocks if id(b) in seen]
        for i, b in enumerate(order):
            b.id = i
            b.preds = []
        for b in order:
            for s in b.succs():
                s.preds.append(b)
        nf.blocks = order
        return nf, changed


class InlinedProgram(object):
    """same interface as IRProgram (funcs, prog, callees) with static helpers inlined and removed"""

    def __init__(self, irp, rounds=4):
        self.prog = irp.prog
        inl = Inliner(irp)
        funcs = dict(irp.funcs)
        for _ in range(rounds):
            inl.irp = type('P', (), {'funcs': funcs, 'prog': irp.prog})()
            any_change = False
            new = {}
            for name, f in funcs.items():
                nf, ch = inl.inline_into(f)
                new[name] = nf if ch else f
                any_change = any_change or ch
            funcs = new
            if not any_change:
                break
        # single-assignment pointer locals (`r = &x->range`, `head = x->pathHead`) are replaced by what they stand for
        self.propagated = 0
        for name in list(funcs):
            f = funcs[name]
            for _ in range(12):
                f, ch = copy_propagate(f)
                if not ch:
                    break
                self.propagated += 1
            funcs[name] = f
        # helpers that are no longer called by anyone disappear
        called = set()
        for f in funcs.values():
            called |= _calls(f)
        self.removed = sorted(n for n in inl.candidates if n not in called and n in funcs)
        self.funcs = dict((n, f) for n, f in funcs.items() if n not in self.removed)
        self.inlined_calls = inl.counter

    def callees(self, f):
        direct, indirect = [], []
        for b in f.blocks:
            for i in b.ins:
                if i.op == 'call':
                    t = call_target(i)
                    if t is not None:
                        direct.append((t, i))
                    else:
                        indirect.append(i)
        return direct, indirect


# ---- copy propagation of single-assignment locals (address aliases and value copies) -------------------------------
def _pure(e):
    if e is None:
        return False
    for n in e.walk():
        if n.k not in ('ref', 'member', 'un', 'index', 'cast', 'int', 'paren', 'bin', 'sizeof'):
            return False
        if n.k == 'un' and n.v not in ('*', '&', '-', '!', '~'):
            return False
        if n.k == 'bin' and n.v not in ('+', '-'):
            return False
    return True


def _refs(e):
    return set(n.v for n in e.walk() if n.k == 'ref' and not (n.x and n.x.get('dk') in ('EnumConstantDecl', 'FunctionDecl')))


def _loads_memory(e):
    """does evaluating e read memory other than plain variables?  (`&x->a.b` does not: it is address arithmetic on x)"""
    e = strip_casts(e)
    if e is None:
        return False
    if e.k == 'un' and e.v == '&':
        return _addr_loads(e.c[0])
    if e.k in ('ref', 'int', 'sizeof'):
        return False
    if e.k in ('member', 'index') or (e.k == 'un' and e.v == '*'):
        return True
    return any(_loads_memory(c) for c in (e.c or []))


def _addr_loads(lv):
    """does computing the ADDRESS of lvalue lv read memory?"""
    lv = strip_casts(lv)
    if lv is None or lv.k == 'ref':
        return False
    if lv.k == 'member':
        if lv.x and lv.x.get('arrow'):
            return _loads_memory(lv.c[0])       # value of the pointer expression
        return _addr_loads(lv.c[0])
    if lv.k == 'index':
        return _loads_memory(lv.c[0]) or _loads_memory(lv.c[1])
    if lv.k == 'un' and lv.v == '*':
        return _loads_memory(lv.c[0])
    return True


def copy_propagate(f):
    """returns (new Func or f, changed)"""
    defs = {}
    taken = set()
    for b in f.blocks:
        for idx, i in enumerate(b.ins):
            for e in [x for x in [i.src] + list(i.args or []) + [i.dst] if x is not None]:
                for n in e.walk():
                    if n.k == 'un' and n.v == '&':
                        s = strip_casts(n.c[0])
                        if s is not None and s.k == 'ref':
                            taken.add(s.v)
            if i.dst is not None and i.dst.k == 'ref' and i.op in ('assign', 'call'):
                defs.setdefault(i.dst.v, []).append((b, idx, i))
    assigned = set(defs)
    byid = dict((b.id, b) for b in f.blocks)
    succs = dict((b.id, [s.id for s in b.succs()]) for b in f.blocks)
    preds = {}
    for k, ss in succs.items():
        for s in ss:
            preds.setdefault(s, []).append(k)

    def reach(start, edges):
        seen, st = set(), list(start)
        while st:
            x = st.pop()
            if x in seen:
                continue
            seen.add(x)
            st.extend(edges.get(x, []))
        return seen

    def uses_in(e, v):
        return e is not None and any(n.k == 'ref' and n.v == v for n in e.walk())

    for v, ds in sorted(defs.items()):
        if len(ds) != 1 or v in f.param_types or v in taken or v.startswith('%') or v not in f.locals:
            continue
        b0, i0, ins0 = ds[0]
        if ins0.op != 'assign' or ins0.src is None or not _pure(ins0.src) or '*' not in (f.locals.get(v) or ''):
            continue
        E = ins0.src
        if v in _refs(E) or any(r.startswith('%') for r in _refs(E)):
            continue
        er = _refs(E)
        # variables E depends on must not change while v is in use
        if any(r in assigned and not (r in f.param_types and r not in defs) for r in er):
            # a dependency that is itself assigned somewhere: only safe if never assigned inside the live region (checked below)
            pass
        use_sites = []
        for b in f.blocks:
            for idx, i in enumerate(b.ins):
                if i is ins0:
                    continue
                if any(uses_in(e, v) for e in [i.src] + list(i.args or [])) or (i.dst is not None and i.dst.k != 'ref' and uses_in(i.dst, v)):
                    use_sites.append((b.id, idx))
            t = b.term
            if t[0] in ('br', 'switch') and uses_in(t[1], v):
                use_sites.append((b.id, len(b.ins)))
            if t[0] == 'ret' and t[1] is not None and uses_in(t[1], v):
                use_sites.append((b.id, len(b.ins)))
        if not use_sites:
            continue
        F = reach(succs[b0.id], succs) | {b0.id}
        if any(bid not in F for bid, _ in use_sites):
            continue
        ublocks = set(bid for bid, _ in use_sites)
        Bk = reach(list(ublocks), preds)
        # the definition block must not be re-entered (v defined inside a loop keeps its value only for that iteration)
        in_loop = b0.id in reach(succs[b0.id], succs)
        memory_dependent = _loads_memory(E)
        ok = True
        last_use = {}
        for bid, idx in use_sites:
            last_use[bid] = max(last_use.get(bid, -1), idx)
        for bid in F & Bk:
            blk = byid[bid]
            lo = i0 + 1 if bid == b0.id else 0
            leads_on = any(s in Bk for s in succs[bid])
            hi = len(blk.ins) if (leads_on or bid not in last_use) else last_use[bid]
            if in_loop and bid == b0.id:
                lo, hi = 0, len(blk.ins)
            for idx in range(lo, hi):
                i = blk.ins[idx]
                if i is ins0:
                    continue
                if i.dst is not None and i.dst.k == 'ref' and i.dst.v in er:
                    ok = False
                if memory_dependent and (i.op == 'call' or (i.op == 'assign' and i.dst is not None and i.dst.k != 'ref')):
                    ok = False
            if not ok:
                break
        if not ok:
            continue

        def sx(e):
            if e is None:
                return None
            if e.k == 'ref' and e.v == v:
                return E
            if not e.c:
                return e
            return N(e.k, e.v, e.ty, e.loc, [sx(c) for c in e.c], e.x)

        def sxs(e):
            return simplify(sx(e)) if e is not None else None
        nf = Func(f.name, f.node)
        nf.params, nf.param_types, nf.locals = list(f.params), dict(f.param_types), dict(f.locals)
        nf.ret_type, nf.unit, nf.static, nf.loc = f.ret_type, f.unit, f.static, f.loc
        bmap = {}
        for b in f.blocks:
            nb = Block(b.id)
            nb.loc = b.loc
            nf.blocks.append(nb)
            bmap[b.id] = nb
        for b in f.blocks:
            nb = bmap[b.id]
            for i in b.ins:
                if i is ins0:
                    continue
                nb.ins.append(Instr(i.op, i.dst if (i.dst is None or i.dst.k == 'ref') else sxs(i.dst), sxs(i.src) if i.src is not None else None,
                                    [sxs(a) for a in i.args] if i.args is not None else None, loc=i.loc, x=i.x))
            t = b.term
            if t[0] == 'jmp':
                nb.term = ('jmp', bmap[t[1].id])
            elif t[0] == 'br':
                nb.term = ('br', sxs(t[1]), bmap[t[2].id], bmap[t[3].id], t[4])
            elif t[0] == 'switch':
                nb.term = ('switch', sxs(t[1]), [(val, bmap[bb.id]) for val, bb in t[2]], bmap[t[3].id], t[4])
            elif t[0] == 'ret':
                nb.term = ('ret', sxs(t[1]) if t[1] is not None else None) + tuple(t[2:])
            else:
                nb.term = t
        nf.entry = bmap[f.entry.id]
        for nb in nf.blocks:
            nb.preds = []
        for nb in nf.blocks:
            for s in nb.succs():
                s.preds.append(nb)
        nf.locals.pop(v, None)
        return nf, True
    return f, False
