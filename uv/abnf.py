"""ABNF (RFC 5234) -> NFA -> DFA -> minimal DFA, for the RFC 3986 oracle.

Alphabet: code points 0..255 plus OTHER (256) standing for every character value outside
that range (negative char values are mapped to 128..255 by the caller; out-of-range wide
characters to OTHER).  The grammar only mentions ASCII, so everything >= 128 is dead.

The NFA keeps *marker* epsilon transitions ('m', tag) at the entry and exit of every rule
reference, which the pebble construction (component boundaries) uses; plain language
questions treat them as epsilon.
"""
import os
import re

OTHER = 256
NSYM = 257


class AbnfError(Exception):
    pass


# ------------------------------------------------------------------ parsing

def _strip_comment(line):
    out = []
    inq = False
    for ch in line:
        if ch == '"':
            inq = not inq
        if ch == ';' and not inq:
            break
        out.append(ch)
    return ''.join(out).rstrip()


def parse_rules(text):
    """returns dict rule-name(lower) -> AST.  AST nodes:
    ('alt', [..]) ('cat', [..]) ('rep', lo, hi|None, node) ('set', frozenset) ('str', [frozenset,..])
    ('ref', name)"""
    rules = {}
    cur = None
    buf = []
    for raw in text.splitlines():
        line = _strip_comment(raw)
        if not line.strip():
            continue
        m = re.match(r'^([A-Za-z][A-Za-z0-9-]*)\s*=(/?)\s*(.*)$', line)
        if m and not raw[0].isspace():
            if cur:
                rules[cur] = ' '.join(buf)
            cur = m.group(1).lower()
            buf = [m.group(3)]
        else:
            if cur is None:
                raise AbnfError('continuation without rule: %r' % raw)
            buf.append(line.strip())
    if cur:
        rules[cur] = ' '.join(buf)
    return dict((k, _Parser(v).parse()) for k, v in rules.items())


class _Parser(object):
    def __init__(self, s):
        self.s = s
        self.i = 0

    def ws(self):
        while self.i < len(self.s) and self.s[self.i].isspace():
            self.i += 1

    def peek(self):
        self.ws()
        return self.s[self.i] if self.i < len(self.s) else ''

    def parse(self):
        n = self.alt()
        self.ws()
        if self.i != len(self.s):
            raise AbnfError('trailing input in %r at %d' % (self.s, self.i))
        return n

    def alt(self):
        items = [self.cat()]
        while self.peek() == '/':
            self.i += 1
            items.append(self.cat())
        return items[0] if len(items) == 1 else ('alt', items)

    def cat(self):
        items = []
        while True:
            c = self.peek()
            if c == '' or c in '/)]':
                break
            items.append(self.rep())
        if not items:
            raise AbnfError('empty concatenation in %r at %d' % (self.s, self.i))
        return items[0] if len(items) == 1 else ('cat', items)

    def rep(self):
        self.ws()
        m = re.match(r'(\d*)\*(\d*)', self.s[self.i:])
        lo, hi = 1, 1
        if m and (m.group(0) != ''):
            self.i += len(m.group(0))
            lo = int(m.group(1)) if m.group(1) else 0
            hi = int(m.group(2)) if m.group(2) else None
        else:
            m = re.match(r'(\d+)', self.s[self.i:])
            if m:
                self.i += len(m.group(0))
                lo = hi = int(m.group(1))
        e = self.elem()
        if (lo, hi) == (1, 1):
            return e
        return ('rep', lo, hi, e)

    def elem(self):
        c = self.peek()
        if c == '(':
            self.i += 1
            n = self.alt()
            if self.peek() != ')':
                raise AbnfError('missing ) in %r' % self.s)
            self.i += 1
            return n
        if c == '[':
            self.i += 1
            n = self.alt()
            if self.peek() != ']':
                raise AbnfError('missing ] in %r' % self.s)
            self.i += 1
            return ('rep', 0, 1, n)
        if c == '"':
            j = self.s.index('"', self.i + 1)
            lit = self.s[self.i + 1:j]
            self.i = j + 1
            sets = []
            for ch in lit:
                if ch.isalpha():
                    sets.append(frozenset((ord(ch.lower()), ord(ch.upper()))))
                else:
                    sets.append(frozenset((ord(ch),)))
            return ('str', sets)
        if c == '%':
            m = re.match(r'%x([0-9A-Fa-f]+)(?:-([0-9A-Fa-f]+)|((?:\.[0-9A-Fa-f]+)+))?', self.s[self.i:])
            if not m:
                raise AbnfError('bad num-val in %r at %d' % (self.s, self.i))
            self.i += len(m.group(0))
            a = int(m.group(1), 16)
            if m.group(2):
                return ('set', frozenset(range(a, int(m.group(2), 16) + 1)))
            if m.group(3):
                seq = [a] + [int(x, 16) for x in m.group(3).split('.')[1:]]
                return ('str', [frozenset((v,)) for v in seq])
            return ('set', frozenset((a,)))
        m = re.match(r'[A-Za-z][A-Za-z0-9-]*', self.s[self.i:])
        if m:
            self.i += len(m.group(0))
            return ('ref', m.group(0).lower())
        raise AbnfError('unexpected %r in %r at %d' % (c, self.s, self.i))


# ------------------------------------------------------------------ NFA

class NFA(object):
    def __init__(self):
        self.n = 0
        self.eps = []     # state -> list of (target, tag or None)
        self.trans = []   # state -> list of (frozenset symbols, target)
        self.start = None
        self.final = None

    def new(self):
        self.eps.append([])
        self.trans.append([])
        self.n += 1
        return self.n - 1

    def e(self, a, b, tag=None):
        self.eps[a].append((b, tag))

    def t(self, a, s, b):
        self.trans[a].append((s, b))


def build_nfa(rules, start, mark=None):
    """Thompson construction with every rule reference inlined (the grammar is not recursive).
    mark: optional function(rule name, occurrence path) -> tag or None; a tagged reference gets marker
    epsilons ('b', tag) on entry and ('e', tag) on exit."""
    nfa = NFA()
    depth = [0]

    def comp(node, path):
        k = node[0]
        a, b = nfa.new(), nfa.new()
        if k == 'set':
            nfa.t(a, node[1], b)
        elif k == 'str':
            cur = a
            for s in node[1]:
                nx = nfa.new()
                nfa.t(cur, s, nx)
                cur = nx
            nfa.e(cur, b)
        elif k == 'cat':
            cur = a
            for idx, c in enumerate(node[1]):
                x, y = comp(c, path)
                nfa.e(cur, x)
                cur = y
            nfa.e(cur, b)
        elif k == 'alt':
            for c in node[1]:
                x, y = comp(c, path)
                nfa.e(a, x)
                nfa.e(y, b)
        elif k == 'rep':
            lo, hi, c = node[1], node[2], node[3]
            cur = a
            for _ in range(lo):
                x, y = comp(c, path)
                nfa.e(cur, x)
                cur = y
            if hi is None:
                x, y = comp(c, path)
                nfa.e(cur, x)
                nfa.e(y, cur)
                nfa.e(cur, b)
            else:
                nfa.e(cur, b)
                for _ in range(hi - lo):
                    x, y = comp(c, path)
                    nfa.e(cur, x)
                    cur = y
                    nfa.e(cur, b)
        elif k == 'ref':
            name = node[1]
            if name not in rules:
                raise AbnfError('undefined rule %s' % name)
            if name in path:
                raise AbnfError('recursive rule %s' % name)
            x, y = comp(rules[name], path + (name,))
            tag = mark(name, path) if mark else None
            if tag is not None:
                nfa.e(a, x, ('b', tag))
                nfa.e(y, b, ('e', tag))
            else:
                nfa.e(a, x)
                nfa.e(y, b)
        else:
            raise AbnfError('bad node %r' % (node,))
        return a, b
    s, f = comp(('ref', start), ())
    nfa.start, nfa.final = s, f
    return nfa


# ------------------------------------------------------------------ DFA

class DFA(object):
    """states 0..n-1, start 0 ... trans[state][class] -> state ; classes partition 0..256"""

    def __init__(self, n, start, accept, trans, class_of, nclasses):
        self.n = n
        self.start = start
        self.accept = accept          # set
        self.trans = trans            # list of lists
        self.class_of = class_of      # list len NSYM -> class index
        self.nclasses = nclasses
        self.dead = None
        self._find_dead()

    def _find_dead(self):
        # states from which no accepting state is reachable
        rev = [set() for _ in range(self.n)]
        for s in range(self.n):
            for t in self.trans[s]:
                rev[t].add(s)
        live = set(self.accept)
        st = list(self.accept)
        while st:
            x = st.pop()
            for p in rev[x]:
                if p not in live:
                    live.add(p)
                    st.append(p)
        self.live = live
        deads = [s for s in range(self.n) if s not in live]
        self.dead_states = set(deads)

    def step(self, s, sym):
        return self.trans[s][self.class_of[sym]]

    def accepts(self, seq):
        s = self.start
        for c in seq:
            s = self.step(s, c if 0 <= c < 256 else OTHER)
        return s in self.accept

    def class_members(self):
        out = [[] for _ in range(self.nclasses)]
        for sym, c in enumerate(self.class_of):
            out[c].append(sym)
        return out


def symbol_partition(sets):
    """coarsest partition of 0..256 such that every given set is a union of blocks; returns class_of, n"""
    sig = {}
    class_of = [0] * NSYM
    sets = list(sets)
    for sym in range(NSYM):
        key = tuple(sym in s for s in sets)
        if key not in sig:
            sig[key] = len(sig)
        class_of[sym] = sig[key]
    return class_of, len(sig)


def determinize(nfa, eps_filter=None):
    """subset construction over the symbol classes induced by the NFA's own sets."""
    allsets = set()
    for st in nfa.trans:
        for s, _ in st:
            allsets.add(s)
    class_of, ncls = symbol_partition(allsets)
    rep = [None] * ncls
    for sym in range(NSYM):
        if rep[class_of[sym]] is None:
            rep[class_of[sym]] = sym
    # per state: class -> targets
    by_class = []
    for st in nfa.trans:
        d = {}
        for s, tgt in st:
            for c in set(class_of[x] for x in s):
                d.setdefault(c, []).append(tgt)
        by_class.append(d)

    def closure(states):
        seen = set(states)
        stack = list(states)
        while stack:
            x = stack.pop()
            for y, _tag in nfa.eps[x]:
                if y not in seen:
                    seen.add(y)
                    stack.append(y)
        return frozenset(seen)
    start = closure([nfa.start])
    index = {start: 0}
    order = [start]
    trans = []
    i = 0
    while i < len(order):
        S = order[i]
        row = []
        for c in range(ncls):
            tg = set()
            for x in S:
                tg.update(by_class[x].get(c, ()))
            T = closure(tg) if tg else frozenset()
            if T not in index:
                index[T] = len(order)
                order.append(T)
            row.append(index[T])
        trans.append(row)
        i += 1
    accept = set(i for i, S in enumerate(order) if nfa.final in S)
    return DFA(len(order), 0, accept, trans, class_of, ncls)


def minimize(dfa):
    """Moore partition refinement; afterwards merges symbol classes with identical columns."""
    n = dfa.n
    part = [1 if s in dfa.accept else 0 for s in range(n)]
    while True:
        sig = {}
        newp = [0] * n
        for s in range(n):
            key = (part[s],) + tuple(part[t] for t in dfa.trans[s])
            if key not in sig:
                sig[key] = len(sig)
            newp[s] = sig[key]
        if len(sig) == len(set(part)):
            part = newp
            break
        part = newp
    # renumber with start = 0 in BFS order
    nb = len(set(part))
    rep = {}
    for s in range(n):
        rep.setdefault(part[s], s)
    order = []
    idx = {}
    queue = [part[dfa.start]]
    idx[part[dfa.start]] = 0
    while queue:
        b = queue.pop(0)
        order.append(b)
        for t in dfa.trans[rep[b]]:
            bt = part[t]
            if bt not in idx:
                idx[bt] = len(idx)
                queue.append(bt)
    trans = [[idx[part[t]] for t in dfa.trans[rep[b]]] for b in order]
    accept = set(idx[part[s]] for s in dfa.accept if part[s] in idx)
    # merge identical symbol columns
    cols = {}
    cmap = [0] * dfa.nclasses
    for c in range(dfa.nclasses):
        key = tuple(row[c] for row in trans)
        if key not in cols:
            cols[key] = len(cols)
        cmap[c] = cols[key]
    ncls = len(cols)
    trans2 = []
    for row in trans:
        r2 = [None] * ncls
        for c in range(dfa.nclasses):
            r2[cmap[c]] = row[c]
        trans2.append(r2)
    class_of = [cmap[c] for c in dfa.class_of]
    return DFA(len(order), 0, accept, trans2, class_of, ncls)


_cache = {}


def rfc3986_rules():
    if 'rules' not in _cache:
        path = os.path.join(os.path.dirname(os.path.abspath(__file__)), 'rfc3986.abnf')
        _cache['rules'] = parse_rules(open(path).read())
    return _cache['rules']


def rfc3986_dfa(start='uri-reference'):
    key = ('dfa', start)
    if key not in _cache:
        nfa = build_nfa(rfc3986_rules(), start)
        d = determinize(nfa)
        m = minimize(d)
        _cache[key] = (m, {'nfa_states': nfa.n, 'dfa_states': d.n, 'min_states': m.n, 'symbol_classes': m.nclasses})
    return _cache[key]


if __name__ == '__main__':
    import sys
    import time
    t0 = time.time()
    m, info = rfc3986_dfa(sys.argv[1] if len(sys.argv) > 1 else 'uri-reference')
    print(info, 'dead states', len(m.dead_states), '%.1fs' % (time.time() - t0))
    for s in ['', 'a:b', 'http://[::1]/x?y#z', 'http://[::1', '1.2.3.4', '//[v1.a]:80', 'a b', '%4', '%41', '//[::ffff:1.2.3.256]',
              '//[1:2:3:4:5:6:7:8]', '//[1:2:3:4:5:6:7]', '//[1::3:4:5:6:7:8]', '//[1::2:3:4:5:6:7:8]']:
        print(repr(s), m.accepts([ord(c) for c in s]))


# ------------------------------------------------------------------ indicator languages (component presence / kind)

AUTH_ONLY = {'hier-part': '"//" authority path-abempty', 'relative-part': '"//" authority path-abempty'}

INDICATORS = {
    # name -> rule overrides (ABNF text); every language is a subset of URI-reference
    'scheme': {'uri-reference': 'URI'},
    'authority': dict(AUTH_ONLY),
    'userinfo': dict(AUTH_ONLY, authority='userinfo "@" host [ ":" port ]'),
    'port': dict(AUTH_ONLY, authority='[ userinfo "@" ] host ":" port'),
    'query': {'uri': 'scheme ":" hier-part "?" query [ "#" fragment ]', 'relative-ref': 'relative-part "?" query [ "#" fragment ]'},
    'fragment': {'uri': 'scheme ":" hier-part [ "?" query ] "#" fragment',
                 'relative-ref': 'relative-part [ "?" query ] "#" fragment'},
    'ip6': dict(AUTH_ONLY, host='"[" IPv6address "]"'),
    'future': dict(AUTH_ONLY, host='"[" IPvFuture "]"'),
    'ip4': dict(AUTH_ONLY, host='IPv4address'),
    'host-empty': dict(AUTH_ONLY, host='""'),
    'abs': {'hier-part': 'path-absolute', 'relative-part': 'path-absolute'},
    'segments': {'hier-part': '"//" authority 1*( "/" segment ) / "/" segment-nz *( "/" segment ) / path-rootless',
                 'relative-part': '"//" authority 1*( "/" segment ) / "/" segment-nz *( "/" segment ) / path-noscheme'},
}


def indicator_dfas():
    """minimal DFA per indicator language plus the URI-reference DFA; returns (names, [dfa...], joint class_of)"""
    if 'ind' in _cache:
        return _cache['ind']
    import hashlib
    import pickle
    here = os.path.dirname(os.path.abspath(__file__))
    h = hashlib.sha256(open(os.path.join(here, 'abnf.py'), 'rb').read() + open(os.path.join(here, 'rfc3986.abnf'), 'rb').read())
    cdir = os.path.join(os.path.dirname(here), '.cache')
    cpath = os.path.join(cdir, 'ind_%s.pkl' % h.hexdigest()[:24])
    if os.path.exists(cpath):
        try:
            with open(cpath, 'rb') as f:
                _cache['ind'] = pickle.load(f)
            return _cache['ind']
        except Exception:
            pass
    base = rfc3986_rules()
    names = ['uri-reference'] + sorted(INDICATORS)
    dfas = []
    for n in names:
        rules = dict(base)
        for k, v in INDICATORS.get(n, {}).items():
            rules[k.lower()] = _Parser(v).parse()
        nfa = build_nfa(rules, 'uri-reference')
        dfas.append(minimize(determinize(nfa)))
    sig = {}
    joint = [0] * NSYM
    for sym in range(NSYM):
        key = tuple(d.class_of[sym] for d in dfas)
        if key not in sig:
            sig[key] = len(sig)
        joint[sym] = sig[key]
    _cache['ind'] = (names, dfas, joint)
    try:
        os.makedirs(cdir, exist_ok=True)
        tmp = cpath + '.%d.tmp' % os.getpid()
        with open(tmp, 'wb') as f:
            pickle.dump(_cache['ind'], f, protocol=pickle.HIGHEST_PROTOCOL)
        os.replace(tmp, cpath)
    except OSError:
        pass
    return _cache['ind']


# ------------------------------------------------------------------ pebbled languages (component boundaries)

def _tag_of(name, path):
    """which uriparser component a rule occurrence is (None = untagged)"""
    up = path[-1] if path else None
    if name == 'scheme':
        return 'scheme'
    if name == 'userinfo':
        return 'userInfo'
    if name == 'port':
        return 'portText'
    if name == 'query':
        return 'query'
    if name == 'fragment':
        return 'fragment'
    if name in ('ipv6address', 'ipvfuture') and up == 'ip-literal':
        return 'hostText'
    if name in ('ipv4address', 'reg-name') and up == 'host':
        return 'hostText'
    if name in ('segment', 'segment-nz', 'segment-nz-nc'):
        return 'segment'
    return None


class PebbleDFA(object):
    """DFA over (symbol class, pebble bit); accept_end = states accepting when the pebble sits at the end of input"""

    def __init__(self, n, trans, accept, accept_end, class_of, ncls):
        self.n, self.trans, self.accept, self.accept_end, self.class_of, self.ncls = n, trans, accept, accept_end, class_of, ncls


def pebble_dfa(tag, end, multi=False):
    """language of pebbled URI-references in which the pebble marks the begin (end='b') / the position after the
    end (end='e') of the occurrence of component `tag` (no pebble when it is absent).  multi: the pebble marks one
    of the non-empty occurrences (path segments)."""
    key = ('peb', tag, end, multi)
    if key in _cache:
        return _cache[key]
    import hashlib
    import pickle
    here = os.path.dirname(os.path.abspath(__file__))
    h = hashlib.sha256(open(os.path.join(here, 'abnf.py'), 'rb').read() + open(os.path.join(here, 'rfc3986.abnf'), 'rb').read())
    cdir = os.path.join(os.path.dirname(here), '.cache')
    cpath = os.path.join(cdir, 'peb_%s_%s_%s.pkl' % (tag, end, h.hexdigest()[:20]))
    if os.path.exists(cpath):
        try:
            with open(cpath, 'rb') as f:
                _cache[key] = pickle.load(f)
            return _cache[key]
        except Exception:
            pass
    nfa = build_nfa(rfc3986_rules(), 'uri-reference', mark=_tag_of)
    allsets = set()
    for st in nfa.trans:
        for s, _ in st:
            allsets.add(s)
    class_of, ncls = symbol_partition(allsets)
    by_class = []
    for st in nfa.trans:
        d = {}
        for s, tgt in st:
            for c in set(class_of[x] for x in s):
                d.setdefault(c, []).append(tgt)
        by_class.append(d)
    # phases: 0 outside, 'b' just entered an occurrence (nothing consumed), 'c' inside with >= 1 symbol,
    #         1 marker crossed: the next symbol carries the pebble, 2 pebble placed
    def eps_closure(states):
        seen = set(states)
        stack = list(states)
        while stack:
            s, ph = stack.pop()
            for t, mk in nfa.eps[s]:
                outs = []
                if mk is None or mk[1] != tag:
                    outs = [(t, ph)]
                else:
                    kind = mk[0]
                    if not multi:
                        if kind == end:
                            if ph == 0:
                                outs = [(t, 1)]
                            elif ph == 2:
                                outs = [(t, 2)]
                            else:
                                outs = []
                        else:
                            outs = [(t, ph)]
                    else:
                        if kind == 'b':
                            if ph in (0, 'b', 'c'):
                                outs = [(t, 'b')] + ([(t, 1)] if end == 'b' else [])
                            elif ph == 2:
                                outs = [(t, 2)]
                            else:
                                outs = []          # a second begin while waiting for the pebbled symbol
                        else:
                            if ph == 1:
                                outs = [] if end == 'b' else [(t, 1)]
                            elif ph == 'c':
                                outs = [(t, 0)] + ([(t, 1)] if end == 'e' else [])
                            elif ph == 'b':
                                outs = [(t, 0)]
                            else:
                                outs = [(t, ph)]
                for o in outs:
                    if o not in seen:
                        seen.add(o)
                        stack.append(o)
        return frozenset(seen)

    def step(S, c, bit):
        tg = set()
        for s, ph in S:
            for t in by_class[s].get(c, ()):
                if bit == 0:
                    if ph == 0 or ph == 2:
                        tg.add((t, ph))
                    elif ph in ('b', 'c'):
                        tg.add((t, 'c'))
                else:
                    if ph == 1:
                        tg.add((t, 2))
        return eps_closure(tg) if tg else frozenset()
    start = eps_closure([(nfa.start, 0)])
    index = {start: 0}
    order = [start]
    trans = []
    i = 0
    while i < len(order):
        S = order[i]
        row = []
        for c in range(ncls):
            for bit in (0, 1):
                T = step(S, c, bit)
                if T not in index:
                    index[T] = len(order)
                    order.append(T)
                row.append(index[T])
        trans.append(row)
        i += 1
    accept = set(i for i, S in enumerate(order) if any(s == nfa.final and ph in (0, 2, 'b', 'c') for s, ph in S))
    accept_end = set(i for i, S in enumerate(order) if any(s == nfa.final and ph == 1 for s, ph in S))
    # minimise (Moore) with two acceptance bits
    n = len(order)
    part = [(1 if s in accept else 0) + (2 if s in accept_end else 0) for s in range(n)]
    while True:
        sig = {}
        newp = [0] * n
        for s in range(n):
            k = (part[s],) + tuple(part[t] for t in trans[s])
            if k not in sig:
                sig[k] = len(sig)
            newp[s] = sig[k]
        done = len(sig) == len(set(part))
        part = newp
        if done:
            break
    rep = {}
    for s in range(n):
        rep.setdefault(part[s], s)
    idx = {part[0]: 0}
    queue = [part[0]]
    blocks = []
    while queue:
        b = queue.pop(0)
        blocks.append(b)
        for t in trans[rep[b]]:
            if part[t] not in idx:
                idx[part[t]] = len(idx)
                queue.append(part[t])
    trans2 = [[idx[part[t]] for t in trans[rep[b]]] for b in blocks]
    acc2 = set(idx[part[s]] for s in accept if part[s] in idx)
    acce2 = set(idx[part[s]] for s in accept_end if part[s] in idx)
    d = PebbleDFA(len(blocks), trans2, acc2, acce2, class_of, ncls)
    _cache[key] = d
    try:
        os.makedirs(cdir, exist_ok=True)
        tmp = cpath + '.%d.tmp' % os.getpid()
        with open(tmp, 'wb') as f:
            pickle.dump(d, f, protocol=pickle.HIGHEST_PROTOCOL)
        os.replace(tmp, cpath)
    except OSError:
        pass
    return d
