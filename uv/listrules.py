"""List integrity at every return (success AND failure) of functions that allocate or free path-segment nodes.

After a failed call the caller's ordinary cleanup walks the path list from pathHead along `next`.  Two structural
necessary conditions of "no leak, no double release, no touch of released memory" are decided here on all paths:

  unlink-before-free   a node that is freed is no longer reachable: the `next` of its predecessor (or pathHead when
                       it has none) is reassigned, or the predecessor is freed as well, before the function returns.
                       The predecessor of a node is what the function itself reads from the node's back link
                       (`p = n->reserved`, the "Prev pointer" dot removal maintains).
  linked-terminated    a node obtained from malloc (uninitialised `next`) that has been linked into the list has its
                       `next` written before the function returns.

Facts are per path (no join); names are local variables, `same` facts keep copies of a pointer together."""
import re

from .ir import strip_casts, const_value, manager_call
from .cfgutil import expr_key, null_test
from .factflow import explore, Hooks
from .tables import base_name
from .frontend import fmt_loc

HEAD = '<head>'


def _ref(e):
    s = strip_casts(e)
    return s.v if s is not None and s.k == 'ref' else None


class ListHooks(Hooks):
    def __init__(self, f, prog):
        self.f = f
        self.prog = prog
        self.bad = []            # (loc, kind, var, detail)
        self.free_sites = set()
        self.link_sites = set()

    # ---- helpers over fact sets
    def _aliases(self, facts, v):
        out = {v}
        changed = True
        while changed:
            changed = False
            for x in facts:
                if x[0] == 'same':
                    if x[1] in out and x[2] not in out:
                        out.add(x[2])
                        changed = True
                    if x[2] in out and x[1] not in out:
                        out.add(x[1])
                        changed = True
        return out

    def _has(self, facts, kind, v):
        return any((kind, a) in facts for a in self._aliases(facts, v))

    def _drop(self, facts, kind, v):
        al = self._aliases(facts, v)
        return frozenset(x for x in facts if not (x[0] == kind and x[1] in al))

    def _kill_var(self, facts, v, loc):
        """v is reassigned: facts naming it die; obligations move to an alias or are reported"""
        al = self._aliases(facts, v) - {v}
        keep = sorted(al)[0] if al else None
        out = set()
        pat = re.compile(r'(?<![A-Za-z0-9_.>#])%s(?![A-Za-z0-9_#])' % re.escape(v))
        for x in facts:
            if x[0] == 'same':
                if v in (x[1], x[2]):
                    continue
                out.add(x)
            elif x[0] in ('fresh', 'unterm', 'linked', 'dangling', 'freed', 'relinked', 'tailis'):
                if x[1] != v:
                    out.add(x)
                elif keep is not None and x[0] in ('fresh', 'unterm', 'linked', 'dangling'):
                    out.add((x[0], keep))
                elif x[0] == 'dangling':
                    self.bad.append((loc, 'unlink-before-free', v, 'the name `%s` is reassigned while `%s->next` still points to a freed node' % (v, v)))
            elif x[0] == 'pred':
                if v in (x[1], x[2]):
                    continue
                out.add(x)
            elif x[0] in ('null', 'eq', 'nonnull'):
                if x[1] == v or pat.search(str(x[1])) or (len(x) > 2 and x[2] is not None and pat.search(str(x[2]))):
                    continue
                out.add(x)
            elif x[0] in ('cv', 'alloc'):
                if x[1] != v:
                    out.add(x)
            else:
                out.add(x)
        # other aliases of v stay tied to each other
        al2 = sorted(al)
        for a in al2[1:]:
            out.add(('same', al2[0], a))
        return frozenset(out)

    def _is_null(self, facts, v):
        return any(('null', a, None) in facts for a in self._aliases(facts, v))

    def _nonnull(self, facts, v):
        return any(('nonnull', a, None) in facts for a in self._aliases(facts, v))

    # ---- transfer
    def instr(self, b, idx, i, facts):
        if i.op == 'call':
            mc = manager_call(i)
            if mc and mc[0] == 'free' and len(i.args) > 1:
                v = _ref(i.args[1])
                if v is None or 'PathSegment' not in (self.f.locals.get(v) or self.f.param_types.get(v) or ''):
                    return facts
                self.free_sites.add(str(i.loc))
                facts = self._drop(facts, 'dangling', v)          # the holder of the stale pointer is gone itself
                facts = facts | {('freed', v)}
                preds = [x[2] for x in facts if x[0] == 'pred' and x[1] in self._aliases(facts, v)]
                for p in preds:
                    if self._has(facts, 'freed', p):
                        continue
                    if self._is_null(facts, p):
                        if (('relinked', HEAD) not in facts):
                            facts = facts | {('dangling', HEAD)}
                    elif self._nonnull(facts, p):
                        if not self._has(facts, 'relinked', p):
                            facts = facts | {('dangling', p)}
                    else:
                        if not self._has(facts, 'relinked', p) and ('relinked', HEAD) not in facts:
                            facts = facts | {('dangling', p)}
                return facts
            if mc and mc[0] in ('malloc', 'calloc') and i.dst is not None and i.dst.k == 'ref':
                facts = self._kill_var(facts, i.dst.v, i.loc)
                return facts | {('alloc', i.dst.v, mc[0])}
            if i.dst is not None and i.dst.k == 'ref':
                return self._kill_var(facts, i.dst.v, i.loc)
            return facts
        if i.op != 'assign':
            return facts
        d = strip_casts(i.dst)
        s = strip_casts(i.src)
        if d is None:
            return facts
        if d.k == 'ref':
            v = d.v
            al = [x for x in facts if s is not None and s.k == 'ref' and x[0] == 'alloc' and x[1] == s.v]
            facts = self._kill_var(facts, v, i.loc)
            cv = const_value(i.src, self.prog)
            if cv is not None:
                if cv == 0 and '*' in (d.ty or ''):
                    return facts | {('null', v, None)}
                return facts | {('cv', v, cv)}
            if 'PathSegment' not in (d.ty or ''):
                return facts
            if al:
                facts = facts | {('fresh', v)}
                if al[0][2] == 'malloc':
                    facts = facts | {('unterm', v)}
                return facts
            if s is not None and s.k == 'ref' and s.v != v:
                facts = facts | {('same', v, s.v)}
                return facts
            if s is not None and s.k == 'member' and s.v == 'reserved':
                n = _ref(s.c[0])
                if n is not None and n != v:
                    # a removal starts here: v is the predecessor of n
                    facts = frozenset(x for x in facts if not (x[0] == 'relinked' and x[1] == HEAD))
                    return facts | {('pred', n, v)}
            if s is not None:
                sk = expr_key(s)
                facts = facts | {('eq', v, sk)}
                if ('null', sk, None) in facts:
                    facts = facts | {('null', v, None)}
            return facts
        if d.k == 'member' and d.v == 'next':
            base = strip_casts(d.c[0])
            bv = base.v if base.k == 'ref' else None
            if bv is None and base.k == 'member' and base.v == 'reserved':
                n = _ref(base.c[0])
                ps = [x[2] for x in facts if x[0] == 'pred' and x[1] == n]
                bv = ps[0] if ps else None
            if bv is None and base.k == 'member' and base.v == 'pathTail':
                ts = [x[1] for x in facts if x[0] == 'tailis']
                bv = ts[0] if ts else None
            if bv is not None:
                facts = self._drop(facts, 'unterm', bv)
                facts = self._drop(facts, 'dangling', bv)
                facts = facts | {('relinked', bv)}
            sv = _ref(i.src)
            if sv is not None and self._has(facts, 'fresh', sv):
                self.link_sites.add(str(i.loc))
                facts = facts | {('linked', sv)}
            return facts
        if d.k == 'member' and d.v == 'pathHead':
            # a node whose predecessor is not known to exist may have been the first one: the head now bypasses it
            facts = frozenset(x for x in facts if not (x[0] == 'dangling' and (x[1] == HEAD or not self._nonnull(facts, x[1])))) \
                | {('relinked', HEAD)}
            sv = _ref(i.src)
            if sv is not None and self._has(facts, 'fresh', sv):
                self.link_sites.add(str(i.loc))
                facts = facts | {('linked', sv)}
            return facts
        if d.k == 'member' and d.v == 'pathTail':
            facts = frozenset(x for x in facts if x[0] != 'tailis')
            sv = _ref(i.src)
            if sv is not None:
                facts = facts | {('tailis', sv)}
            return facts
        return facts

    def edge(self, b, cond, truth, facts):
        from .failclean import zero_test
        zt = zero_test(cond, self.prog)
        if zt is not None:
            var, zero_when_true = zt
            for x in facts:
                if x[0] == 'cv' and x[1] == var:
                    is_zero = (x[2] == 0)
                    if (is_zero == zero_when_true) != truth:
                        return None
        nt = null_test(cond)
        if nt is not None:
            e, null_when_true = nt
            k = expr_key(e)
            is_null = (null_when_true == truth)
            known_null = ('null', k, None) in facts
            known_nn = ('nonnull', k, None) in facts
            if (known_null and not is_null) or (known_nn and is_null):
                return None
            if is_null:
                add = {('null', k, None)}
                for x in facts:
                    if x[0] == 'eq' and x[2] == k:
                        add.add(('null', x[1], None))
                    if x[0] == 'eq' and x[1] == k:
                        add.add(('null', x[2], None))
                facts = facts | add
                # the predecessor turns out not to exist: the stale pointer is the head
                for a in self._aliases(facts, k):
                    if ('dangling', a) in facts:
                        facts = facts - {('dangling', a)}
                        if ('relinked', HEAD) not in facts:
                            facts = facts | {('dangling', HEAD)}
                # a fresh node that turned out to be NULL is no node
                if ('fresh', k) in facts:
                    facts = frozenset(x for x in facts if not (x[0] in ('fresh', 'unterm', 'linked') and x[1] == k))
            else:
                facts = facts | {('nonnull', k, None)}
        return facts

    def ret(self, b, term, facts):
        for x in facts:
            if x[0] == 'dangling':
                who = 'pathHead' if x[1] == HEAD else '`%s->next`' % x[1]
                self.bad.append((term[2], 'unlink-before-free', x[1], '%s still points to a node this path has freed' % who))
            if x[0] == 'unterm' and self._has(facts, 'linked', x[1]):
                self.bad.append((term[2], 'linked-terminated', x[1], 'the malloc\'ed node `%s` is linked into the list but its `next` was never written' % x[1]))


def rule_list_integrity(ctx, chk, rule='list-integrity'):
    """returns (#functions, #free sites, #link sites)"""
    nf = nfree = nlink = 0
    for name in sorted(ctx.irp.funcs):
        f = ctx.irp.funcs[name]
        tys = list(f.locals.values()) + list(f.param_types.values())
        if not any('PathSegment' in (t or '') for t in tys):
            continue
        h = ListHooks(f, ctx.prog)
        explore(f, h, limit=60000)
        if not (h.free_sites or h.link_sites):
            continue
        nf += 1
        nfree += len(h.free_sites)
        nlink += len(h.link_sites)
        if h.bad:
            seen = set()
            for loc, kind, var, detail in h.bad:
                key = '%s:%s:%s' % (kind, base_name(name), var)
                if key in seen:
                    continue
                seen.add(key)
                chk.bad(rule, key, loc, '%s, return at %s: %s; the cleanup that follows a failure (or the next user of the URI) walks the '
                        'list through it' % (name, fmt_loc(loc), detail), func=name)
        else:
            chk.ok(rule, 'list:%s' % name, f.loc, 'on every path to every return: freed nodes are unlinked, linked malloc nodes are terminated',
                   func=name)
    return nf, nfree, nlink


class LastHooks(Hooks):
    """a node established to be the last one (`v->next` tested NULL) that is freed leaves pathTail stale unless pathTail is
    written before the function returns successfully"""

    def __init__(self, f, prog, success_nonzero):
        self.f = f
        self.prog = prog
        self.success_nonzero = success_nonzero
        self.bad = []
        self.sites = set()

    def instr(self, b, idx, i, facts):
        if i.op == 'call':
            mc = manager_call(i)
            if mc and mc[0] == 'free' and len(i.args) > 1:
                v = _ref(i.args[1])
                if v is not None and ('last', v) in facts:
                    self.sites.add(str(i.loc))
                    if ('tailok', v) not in facts:
                        facts = facts | {('stale', str(i.loc))}
                return facts
            if i.dst is not None and i.dst.k == 'ref':
                v = i.dst.v
                return frozenset(x for x in facts if not (len(x) > 1 and x[1] == v and x[0] in ('last', 'notlast', 'cv', 'tailok')))
            return facts
        if i.op != 'assign':
            return facts
        d = strip_casts(i.dst)
        if d is None:
            return facts
        if d.k == 'ref':
            v = d.v
            facts = frozenset(x for x in facts if not (len(x) > 1 and x[1] == v and x[0] in ('last', 'notlast', 'cv', 'tailok')))
            cv = const_value(i.src, self.prog)
            if cv is not None and '*' not in (d.ty or ''):
                facts = facts | {('cv', v, cv)}
            return facts
        if d.k == 'member' and d.v == 'pathTail':
            # the tail is moved away from every node known to be last (unless it is that very node that is stored)
            sv = _ref(i.src)
            facts = frozenset(x for x in facts if x[0] != 'stale')
            return facts | set(('tailok', x[1]) for x in facts if x[0] == 'last' and x[1] != sv)
        if d.k == 'member' and d.v == 'next':
            base = _ref(d.c[0])
            if base is not None:
                facts = frozenset(x for x in facts if not (x[0] in ('last', 'notlast') and x[1] == base))
        return facts

    def edge(self, b, cond, truth, facts):
        from .failclean import zero_test
        zt = zero_test(cond, self.prog)
        if zt is not None:
            var, zero_when_true = zt
            for x in facts:
                if x[0] == 'cv' and x[1] == var and ((x[2] == 0) == zero_when_true) != truth:
                    return None
        nt = null_test(cond)
        if nt is not None:
            e, null_when_true = nt
            m = re.match(r'^\(?([A-Za-z_][A-Za-z0-9_#]*)->next\)?$', expr_key(e))
            if m:
                v = m.group(1)
                is_null = (null_when_true == truth)
                if (('last', v) in facts and not is_null) or (('notlast', v) in facts and is_null):
                    return None
                facts = facts | {('last', v) if is_null else ('notlast', v)}
        return facts

    def ret(self, b, term, facts):
        v = const_value(term[1], self.prog) if term[1] is not None else None
        if v is not None and ((v != 0) != self.success_nonzero):
            return
        for x in facts:
            if x[0] == 'stale':
                self.bad.append((term[2], x[1]))


def rule_tail_after_removal(ctx, chk, funcs, rule='list-tail'):
    n = 0
    for name in sorted(funcs):
        f = ctx.irp.funcs.get(name)
        if f is None or not any('PathSegment' in (t or '') for t in f.locals.values()):
            continue
        h = LastHooks(f, ctx.prog, success_nonzero=(f.ret_type or '').strip() == 'UriBool')
        explore(f, h, limit=60000)
        if not h.sites:
            continue
        n += len(h.sites)
        if h.bad:
            loc, site = h.bad[0]
            chk.bad(rule, 'tail-after-removal:%s' % base_name(name), loc, '%s can return successfully after freeing a node it had established '
                    'to be the last one (free at %s) without writing pathTail: the tail names released memory' % (name, site), func=name)
        else:
            chk.ok(rule, 'tail-after-removal:%s' % name, f.loc, '%d frees of a last node, each followed by a store to pathTail on every '
                   'successful path' % len(h.sites), func=name)
    return n
