"""CLI: ./check <id> [--tier quick|thorough] [--replay path]"""
import importlib
import json
import os
import sys
import traceback

from .frontend import load_program, AnalysisBroken, REPO
from .ir import IRProgram
from .report import Check, source_lines


class Ctx(object):
    def __init__(self):
        self._prog = None
        self._irp = None

    @property
    def prog(self):
        if self._prog is None:
            self._prog = load_program()
        return self._prog

    @property
    def irp(self):
        if self._irp is None:
            self._irp = IRProgram(self.prog)
        return self._irp


class InlinedCtx(object):
    """the same program with small static helper functions inlined into their callers (uv/inline.py)"""

    def __init__(self, ctx):
        from .inline import InlinedProgram
        self.prog = ctx.prog
        self.irp = InlinedProgram(ctx.irp)


def run_with_inlining_retry(mod, ctx, chk, pid, tier, seed):
    """rules that reason per function (ownership, revert protocol) meet helper functions a maintainer extracted: if the
    plain run alarms or cannot classify something, the check is repeated on the program with static helpers inlined; a
    violation stands only if it is present there too (inlining preserves behaviour, so a real violation survives it)"""
    from .report import load_known
    if not getattr(mod, 'RETRY_INLINED', False):
        mod.run(ctx, chk)
        return chk
    known = load_known().get(pid, {})
    broken = None
    try:
        mod.run(ctx, chk)
    except AnalysisBroken as e:
        broken = e
    if broken is None and not any((not o.ok) and o.key not in known for o in chk.obls):
        fp = chk.floor_problem()
        if fp is None:
            return chk
        # a rule lost its instances in the code as written (e.g. the construct moved into a helper): look at the inlined view
        broken = AnalysisBroken(fp)
    ctx2 = InlinedCtx(ctx)
    chk2 = Check(pid, tier=tier, level=getattr(mod, 'LEVEL', 'other'), seed=seed)
    try:
        mod.run(ctx2, chk2)
    except AnalysisBroken as e2:
        if broken is not None:
            raise broken
        return chk
    if any((not o.ok) and o.key not in known for o in chk2.obls) and broken is None:
        return chk          # the violation survives inlining: report it on the code as written
    chk2.notes.append('decided on the program with static helper functions inlined (%d call sites; helpers absorbed: %s): the '
                      'plain per-function run %s' % (ctx2.irp.inlined_calls, ', '.join(ctx2.irp.removed) or 'none',
                                                     ('could not classify a construct: %s' % broken) if broken is not None
                                                     else 'reported obligations that hold once the helpers are seen in context'))
    chk2.analysed['units'] = ctx.prog.meta['units']
    return chk2


def main(argv):
    sys.setrecursionlimit(20000)
    try:
        import faulthandler
        import signal
        faulthandler.register(signal.SIGUSR1, all_threads=True)
    except Exception:
        pass
    if not argv:
        print('usage: check <property-id> [--tier quick|thorough] [--replay path]')
        return 2
    pid = argv[0]
    tier = os.environ.get('VERIF_TIER', 'quick')
    replay = None
    i = 1
    while i < len(argv):
        if argv[i] == '--tier':
            tier = argv[i + 1]
            i += 2
        elif argv[i] == '--replay':
            replay = argv[i + 1]
            i += 2
        elif argv[i] == '--no-evidence':
            os.environ['VERIF_NO_EVIDENCE'] = '1'
            i += 1
        else:
            i += 1
    if tier not in ('quick', 'thorough'):
        tier = 'quick'
    try:
        seed = int(os.environ.get('VERIF_SEED', '0'))
    except ValueError:
        seed = 0
    try:
        mod = importlib.import_module('uv.props.%s' % pid.lower())
    except ImportError as e:
        print('no check for %s: %s' % (pid, e))
        return 2
    ctx = Ctx()
    chk = Check(pid, tier=tier, level=getattr(mod, 'LEVEL', 'other'), seed=seed)
    try:
        chk = run_with_inlining_retry(mod, ctx, chk, pid, tier, seed)
        if replay:
            with open(replay) as f:
                r = json.load(f)
            hits = [o for o in chk.obls if o.key == r.get('key') and o.rule == r.get('rule')]
            print('replay of %s / %s' % (r.get('rule'), r.get('key')))
            print('rule: %s' % r.get('rule_text'))
            if not hits:
                print('instance no longer present in the current tree')
            for o in hits:
                print('%s  function %s: %s' % ('discharged' if o.ok else 'VIOLATED', o.func, o.detail))
                print(source_lines(o.loc, 3, 3))
            return 1 if any(not o.ok for o in hits) else 0
        ctx.prog.meta  # ensure loaded
        chk.analysed.setdefault('units', ctx.prog.meta['units'])
        chk.analysed.setdefault('frontend', {k: ctx.prog.meta[k] for k in ('flags', 'unlisted_sources', 'pp_identical_units')})
        return chk.finish()
    except AnalysisBroken as e:
        print('ANALYSIS-BROKEN property=%s: %s' % (pid, e))
        return 2
    except Exception:
        traceback.print_exc()
        print('ANALYSIS-BROKEN property=%s: internal error' % pid)
        return 2


if __name__ == '__main__':
    sys.exit(main(sys.argv[1:]))
