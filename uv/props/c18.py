"""C18 -- filename <-> URI string conversions (partial: buffer bounds, prefix / skip tables, flag pairing).

Decided (symbolic bounded-write analysis E5 on the two conversion engines, all paths, A and W, both directions):
  forward-bound    every store of uriFilenameToUriString lies inside the documented 7 + 3n + 1 (Unix) / 8 + 3n + 1 (Windows)
                   characters, by an inductive potential invariant over the conversion loop;
  prefix-table     which prefix is written for which kind of name;
  escape-pairing   the escape call and the unescape call use options that are inverse to each other (C16 decides that pair);
  skip-table       how many characters of which "file:" form are skipped, and the UNC re-prefix;
  reverse-bound    the filename written fits the documented len(uriString) + 1 - 5 (forms with "file:") / + 1 (others), for
                   the forms the property speaks about;
  entry-modes      the public functions select the direction with constants.
  raw-copy         only the segment that starts the name is copied without escaping.
NOT decided: the round trip as a whole, the content of that first segment of a Windows drive name."""
import itertools
import re

from ..frontend import AnalysisBroken, fmt_loc
from ..ir import call_target, const_value
from ..symexec import SymExec, PState, Lin, Ptr
from ..tables import base_name

RETRY_INLINED = False
LEVEL = 'other'

DOC_PREFIX = {1: 7, 0: 8}          # documented constant of the size formula: Unix 7 + 3n + 1, Windows 8 + 3n + 1
DOC_REVERSE_GAIN = 5               # documented: len(uriString) + 1 - 5 for URIs that start with "file:"


def literal_text(base):
    m = re.match(r'^"(?:L)?"(.*)""$', base)
    return m.group(1) if m else None


def prove(se, l, st):
    """l <= 0 from the facts of st: the engine's own rules, then non-negative combinations of up to three facts"""
    r = SymExec.decide_le(se, l, st)
    if r is True:
        return True
    fl = [Lin(dict(t), c) for (t, c) in st.facts]
    if len(fl) > 24:
        return r
    for n in (1, 2, 3):
        for combo in itertools.combinations(range(len(fl)), n):
            for mult in itertools.product((1, 2, 3), repeat=n):
                acc = l
                for idx, m in zip(combo, mult):
                    acc = acc - fl[idx].scale(m)
                if se.nonpos(acc):
                    return True
    return r


def forward(ctx, chk, suf, mode, fac):
    name = 'uriFilenameToUriString' + suf
    f = ctx.irp.funcs.get(name)
    if f is None or len(f.params) != 3:
        raise AnalysisBroken('%s not found / unexpected signature' % name)
    fn_p, out_p, mode_p = f.params
    cs = 1 if suf == 'A' else 4
    se = SymExec(ctx.prog, f, cs)
    ptr_locals = [v for v, t in f.locals.items() if '*' in (t or '') and v not in f.param_types]
    se.merge_vars = sorted(ptr_locals)
    se.keep_vars = set(f.locals) | set(f.params)
    if len(se.loops) != 1:
        raise AnalysisBroken('%s: expected exactly one loop, found %d' % (name, len(se.loops)))
    se.cut_blocks = set(se.loops.keys())
    PRE = DOC_PREFIX[mode]
    se.nonneg = lambda t: t.startswith('esc#')
    escname = 'uriEscapeEx' + suf
    # roles of the pointer locals, read off their values on first arrival at the loop: the output cursor points into the output
    # buffer, the scan pointer at the first character of the name, the separator pointer one before it
    pre = SymExec(ctx.prog, f, cs)
    pre.stop_blocks = set(pre.loops.keys())
    pre.on_call = lambda se_, i, st, args: (Lin.const(len(literal_text(args[0].base))) if call_target(i) in ('strlen', 'wcslen')
                                            and isinstance(args[0], Ptr) and literal_text(args[0].base) is not None else None)
    st0 = PState()
    st0.env[fn_p] = Ptr('fn')
    st0.env[out_p] = Ptr('out')
    st0.env[mode_p] = Lin.const(mode)
    st0.notes[('nonnull', 'fn')] = True
    st0.notes[('nonnull', 'out')] = True
    pre.run(st0)
    roles = {}
    for bid, sst in pre.stops:
        found = {}
        for v in ptr_locals:
            val = sst.env.get(v)
            if isinstance(val, Ptr) and val.base == 'out':
                found.setdefault('cursor', set()).add(v)
            elif isinstance(val, Ptr) and val.base == 'fn' and val.off.is_const() and val.off.c == 0:
                found.setdefault('scan', set()).add(v)
            elif isinstance(val, Ptr) and val.base == 'fn' and val.off.is_const() and val.off.c == -1:
                found.setdefault('sep', set()).add(v)
        for k, vs in found.items():
            roles[k] = vs if k not in roles else (roles[k] & vs)
    roles = dict((k, sorted(vs)[0]) for k, vs in roles.items() if len(vs) == 1)
    if len(roles) != 3:
        raise AnalysisBroken('%s: output cursor / scan pointer / separator pointer not recognised (%r)' % (name, roles))
    cur, scan, sep = roles['cursor'], roles['scan'], roles['sep']

    def inv(se_, st):
        o, i, l = st.env.get(cur), st.env.get(scan), st.env.get(sep)
        out = []
        if isinstance(o, Ptr) and isinstance(l, Ptr) and o.base == 'out' and l.base == 'fn':
            out.append(('potential', o.off - Lin.const(PRE) - (l.off + Lin.const(1)).scale(fac)))
        if isinstance(i, Ptr) and isinstance(l, Ptr) and i.base == 'fn' and l.base == 'fn':
            out.append(('separator-behind-scan', l.off + Lin.const(1) - i.off))
        # while a flag local still has its initial value 1 (the "first segment" flag), no separator has been passed
        if isinstance(l, Ptr) and l.base == 'fn':
            for fv in flag_locals:
                val = st.env.get(fv)
                if isinstance(val, Lin) and val.is_const() and val.c == 1:
                    out.append(('first-segment-flag:%s' % fv, l.off + Lin.const(1)))
        return out
    # flag locals initialised with the constant 1 before the loop
    flag_locals = sorted(v for v in f.locals if v not in f.param_types and '*' not in (f.locals.get(v) or '')
                         and any(isinstance(sst.env.get(v), Lin) and sst.env[v].is_const() and sst.env[v].c == 1 for _b, sst in pre.stops))
    se.invariants = inv
    se.decide_le = lambda l, st: prove(se, l, st)
    counter = [0]
    prefixes = []
    escflags = []
    rawcopies = []

    def on_call(se_, i, st, args):
        t = call_target(i)
        if t in ('strlen', 'wcslen'):
            a = args[0]
            if isinstance(a, Ptr):
                lit = literal_text(a.base)
                if lit is not None:
                    prefixes.append((lit, tuple(st.atoms), i.loc))
                    return Lin.const(len(lit))
            return None
        if t in ('memcpy', 'memmove') and len(args) > 1 and isinstance(args[1], Ptr) and args[1].base == 'fn':
            rawcopies.append((args[1].off, i.loc, set(st.facts)))
            return None
        if t == escname:
            inp, inend, out = args[0], args[1], args[2]
            counter[0] += 1
            k = Lin.sym('esc#%d' % counter[0])
            if isinstance(inp, Ptr) and isinstance(inend, Ptr) and inp.base == inend.base:
                st.facts.add((k - (inend.off - inp.off).scale(fac)).key())
            escflags.append((tuple(a.c if isinstance(a, Lin) and a.is_const() else None for a in args[3:5]), i.loc))
            if isinstance(out, Ptr):
                st.events.append(('store-range', out.base, out.off, k + Lin.const(1), i.loc, 'escape', set(st.facts), dict(st.env)))
                return Ptr(out.base, out.off + k)
        return None
    se.on_call = on_call
    st = PState()
    st.env[fn_p] = Ptr('fn')
    st.env[out_p] = Ptr('out')
    st.env[mode_p] = Lin.const(mode)
    st.notes[('nonnull', 'fn')] = True
    st.notes[('nonnull', 'out')] = True
    se.run(st)
    nstores = 0
    tag = '%s/%s' % (name, 'unix' if mode else 'windows')
    worst = None
    for (start, end, atoms, events, env, facts, retval, loc, notes) in se.regions:
        for ev in events:
            if ev[0] == 'store' and ev[1] == 'out':
                off, n, envs, fs, what = ev[2], Lin.const(1), ev[6], ev[7], 'store of one character'
            elif ev[0] == 'store-range' and ev[1] == 'out':
                off, n, envs, fs, what = ev[2], ev[3], ev[7], ev[6], 'escape call (up to %d output characters per input character, plus the terminator)' % fac
            elif ev[0] == 'store-bytes' and ev[1] == 'out':
                off, envs, fs, what = ev[2], ev[6], ev[7], 'block copy'
                nb = ev[3]
                if not isinstance(nb, Lin) or any(c % cs for c in list(nb.t.values()) + [nb.c]):
                    chk.bad('forward-bound', 'store:%s:copy-size' % tag, ev[4], '%s: block copy of %r bytes is not a whole number of characters' % (name, nb),
                            func=name)
                    continue
                n = Lin(dict((k, v // cs) for k, v in nb.t.items()), nb.c // cs)
            elif ev[0] in ('store', 'store-range', 'store-bytes') and ev[1] == 'fn':
                chk.bad('forward-bound', 'store:%s:input-write' % tag, ev[4], '%s writes into the input name' % name, func=name)
                continue
            else:
                continue
            nstores += 1
            I = envs.get(scan)
            if not isinstance(I, Ptr) or I.base != 'fn':
                chk.bad('forward-bound', 'store:%s:scan-lost' % tag, ev[4], '%s: position of the scan pointer unknown at a store' % name, func=name)
                continue
            # the scan pointer never passes the terminator (it moves by one and the loop leaves at the first 0), so its offset is <= n
            goal = off + n - Lin.const(1) - Lin.const(PRE) - I.off.scale(3)
            s2 = PState()
            s2.facts = fs
            ok = prove(se, goal, s2) is True
            lost = sorted(k[1] for k in notes if isinstance(k, tuple) and k[0] == 'inv-lost')
            key = 'store:%s:%s@%s' % (tag, ev[0], fmt_loc(ev[4]).split(':')[-1] if False else what.split(' ')[0])
            if not ok and worst is None:
                worst = (ev[4], '%s (%s): %s at out[%r], %r characters, with the scan pointer at name[%r] is not proved to end within '
                         '%d + 3 * position + 1%s' % (name, 'Unix' if mode else 'Windows', what, off, n, I.off, PRE,
                                                      ('; loop invariant not inductive: ' + ', '.join(lost)) if lost else ''))
            chk.add('forward-bound', key if ok else 'store:%s' % tag, ok, ev[4],
                    '%s: %s at out[%r] (+%r) within %d + 3 * name[%r] + 1' % (name, what, off, n, PRE, I.off) if ok else worst[1], func=name)
    if nstores < 4:
        raise AnalysisBroken('%s: only %d stores seen' % (name, nstores))
    # the produced string is terminated on every return: the last store into the output before the return puts the
    # terminator where the cursor ends up (an escape call does so itself: terminator at out+k, returns out+k) - or nothing
    # is stored since the loop header and every arrival at the header already had the terminator under the cursor
    def _terminated(region):
        events, env = region[3], region[4]
        o = env.get(cur)
        outs = [ev for ev in events if ev[0] in ('store', 'store-range', 'store-bytes') and ev[1] == 'out']
        if not outs:
            return None
        if not isinstance(o, Ptr) or o.base != 'out':
            return False
        ev = outs[-1]
        if ev[0] == 'store':
            d = ev[2] - o.off
            return isinstance(ev[5], Lin) and ev[5].is_const() and ev[5].c == 0 and d.is_const() and d.c == 0
        if ev[0] == 'store-range':
            d = ev[2] + ev[3] - Lin.const(1) - o.off
            return d.is_const() and d.c == 0
        return False
    eager = all(_terminated(r) is True for r in se.regions if r[1] != 'ret')
    nret = 0
    for r in se.regions:
        if r[1] != 'ret':
            continue
        nret += 1
        t = _terminated(r)
        ok = t is True or (t is None and eager)
        chk.add('forward-terminated', 'terminated:%s#%d' % (tag, nret) if ok else 'terminated:%s' % base_name(name), ok, r[7] or f.loc,
                '%s (%s) returns after %s' % (name, 'Unix' if mode else 'Windows',
                'storing the terminator at the final cursor position' if ok else
                ('storing nothing since the loop header, where the character under the cursor is not known to be the terminator: '
                 'a name that ends in a separator (or is empty) yields an unterminated string' if t is None else
                 'a last store that is not the terminator at the final cursor position')), func=name)
    if not nret:
        raise AnalysisBroken('%s: no returning region' % name)
    # characters copied without escaping: only the segment that starts the name (the drive of a Windows name)
    for off, loc, fs in rawcopies:
        s2 = PState()
        s2.facts = fs
        ok = prove(se, off, s2) is True
        chk.add('raw-copy', 'raw-copy:%s' % (tag if ok else base_name(name) + ('/unix' if mode else '/windows')), ok, loc,
                '%s copies name[%r ..] without escaping; %s' % (name, off, 'that is the segment at the start of the name' if ok else
                                                               'not proved to be the segment at the start of the name: a later segment '
                                                               '(e.g. the server of a UNC name) reaches the URI unescaped'), func=name)
    # prefix table
    seen = {}
    for lit, atoms, loc in prefixes:
        seen.setdefault(lit, loc)
    want = {1: {'file://'}, 0: {'file:', 'file:///'}}[mode]
    okp = set(seen) == want and all(len(x) <= PRE for x in seen)
    chk.add('prefix-table', 'prefix:%s' % (tag if okp else base_name(name) + ('/unix' if mode else '/windows')), okp, f.loc,
            '%s (%s) writes the prefixes %s; documented forms need %s, none longer than %d'
            % (name, 'Unix' if mode else 'Windows', sorted(seen), sorted(want), PRE), func=name)
    # escape options
    if not escflags:
        raise AnalysisBroken('%s: no call of %s' % (name, escname))
    for flags, loc in escflags:
        ok = flags == (0, 0)
        chk.add('escape-pairing', 'escape-flags:%s' % (tag if ok else base_name(name)), ok, loc,
                '%s calls %s with spaceToPlus, normalizeBreaks = %r (the reverse direction unescapes without plus conversion and without '
                'touching line breaks)' % (name, escname, flags), func=name)
    return nstores, se.npaths


def reverse(ctx, chk, suf, mode):
    name = 'uriUriStringToFilename' + suf
    f = ctx.irp.funcs.get(name)
    if f is None or len(f.params) != 3:
        raise AnalysisBroken('%s not found / unexpected signature' % name)
    u_p, fn_p, mode_p = f.params
    cs = 1 if suf == 'A' else 4
    se = SymExec(ctx.prog, f, cs)
    se.nonneg = lambda t: t == 'LEN'
    unesc = []
    tmpmap = {}

    def on_call(se_, i, st, args):
        t = call_target(i)
        if t in ('strlen', 'wcslen'):
            a = args[0]
            if isinstance(a, Ptr):
                lit = literal_text(a.base)
                if lit is not None:
                    return Lin.const(len(lit))
                if a.base == 'uri':
                    # the skipped prefix has been matched, so it is part of the string: strlen(u + k) = strlen(u) - k
                    return Lin.sym('LEN') - a.off
            return None
        if t in ('strncmp', 'wcsncmp'):
            a, b = args[0], args[1]
            lit = literal_text(b.base) if isinstance(b, Ptr) else None
            if isinstance(a, Ptr) and a.base == 'uri' and a.off.is_const() and a.off.c == 0 and lit is not None \
                    and isinstance(args[2], Lin) and args[2].is_const() and args[2].c == len(lit):
                if i.dst is not None and i.dst.k == 'ref':
                    tmpmap[i.dst.v] = lit
                return Lin.sym('nomatch<%s>' % lit)
            return None
        if t == 'uriUnescapeInPlaceEx' + suf:
            unesc.append((args[0], tuple(a.c if isinstance(a, Lin) and a.is_const() else None for a in args[1:3]), i.loc, tuple(st.atoms)))
        return None
    se.on_call = on_call
    st = PState()
    st.env[u_p] = Ptr('uri')
    st.env[fn_p] = Ptr('fnout')
    st.env[mode_p] = Lin.const(mode)
    st.notes[('nonnull', 'uri')] = True
    st.notes[('nonnull', 'fnout')] = True
    se.run(st)
    tag = '%s/%s' % (name, 'unix' if mode else 'windows')
    rows = {}
    for (pst, rv, loc) in se.paths:
        matched = []
        for txt, truth in pst.atoms:
            m = re.search(r'nomatch<(file:/*)> == 0', txt)
            m2 = re.match(r'^\(?(%t[0-9]+) == 0\)?$', txt)
            # atom text is "(nomatch<lit> == 0)" or "(<temporary holding the comparison result> == 0)": true = the literal matches
            if m:
                matched.append((m.group(1), truth))
            elif m2 and m2.group(1) in tmpmap:
                matched.append((tmpmap[m2.group(1)], truth))
            elif 'nomatch<' in txt or (m2 and 'cmp' in txt):
                raise AnalysisBroken('%s: comparison atom %r not understood' % (name, txt))
        lits = [l for l, t in matched if t]
        form = max(lits, key=len) if lits else None
        copies = [ev for ev in pst.events if ev[0] == 'store-bytes' and ev[1] == 'fnout']
        if len(copies) != 1:
            continue
        cp = copies[0]
        before = pst.events[:pst.events.index(cp)]
        stores = [ev for ev in before if ev[0] == 'store' and ev[1] == 'fnout' and isinstance(ev[2], Lin) and ev[2].is_const()
                  and isinstance(ev[5], Lin) and ev[5].is_const() and ev[5].c == 92]
        rows.setdefault(form, []).append((cp, stores, pst))
    if not rows:
        raise AnalysisBroken('%s: no path with the copy of the text found' % name)
    # expected table: form -> (characters skipped, offset of the copy, UNC re-prefix)
    if mode:
        expect = {None: (0, 0), 'file:/': (5, 0), 'file:///': (7, 0)}
        outside = {'file:': 'Unix "file:x" (no slash)', 'file://': 'Unix "file://host/..."'}
    else:
        expect = {None: (0, 0), 'file:': (5, 0), 'file://': (7, 2), 'file:///': (8, 0)}
        outside = {'file:/': 'Windows "file:/x" (one slash)'}
    nrows = 0
    notes = []
    for form, lst in sorted(rows.items(), key=lambda kv: kv[0] or ''):
        for cp, stores, pst in lst:
            off, nb = cp[2], cp[3]
            if not isinstance(nb, Lin) or any(c % cs for c in list(nb.t.values()) + [nb.c]) or not isinstance(off, Lin) or not off.is_const():
                chk.bad('reverse-bound', 'copy:%s:shape' % tag, cp[4], '%s: copy of %r bytes at %r not understood' % (name, nb, off), func=name)
                continue
            n = Lin(dict((k, v // cs) for k, v in nb.t.items()), nb.c // cs)
            # n = LEN - skip + 1
            skipl = Lin.sym('LEN') + Lin.const(1) - n
            if not skipl.is_const():
                chk.bad('reverse-bound', 'copy:%s:length' % tag, cp[4], '%s: copies %r characters, not strlen(uriString + skip) + 1' % (name, n),
                        func=name)
                continue
            skip = skipl.c
            unc = len(stores) >= 2 and sorted(s[2].c for s in stores)[:2] == [0, 1]
            nrows += 1
            if form in expect:
                ws, wo = expect[form]
                ok = (skip, off.c) == (ws, wo) and (unc == (wo == 2))
                chk.add('skip-table', 'skip:%s:%s' % (tag if ok else base_name(name) + ('/unix' if mode else '/windows'), form or 'other'), ok, cp[4],
                        '%s, URI %s: skips %d characters, copies to filename + %d%s; the documented forms need skip %d, offset %d'
                        % (name, ('starting with "%s"' % form) if form else 'without "file:"', skip, off.c, ', writes the UNC prefix' if unc else '',
                           ws, wo), func=name)
                gain = DOC_REVERSE_GAIN if form else 0
                okb = off.c - skip + gain <= 0
                chk.add('reverse-bound', 'bound:%s:%s' % (tag if okb else base_name(name) + ('/unix' if mode else '/windows'), form or 'other'), okb, cp[4],
                        '%s, URI %s: writes %d + len - %d + 1 characters; documented buffer len + 1%s'
                        % (name, ('starting with "%s"' % form) if form else 'without "file:"', off.c, skip, (' - %d' % gain) if gain else ''), func=name)
            else:
                gain = DOC_REVERSE_GAIN
                if off.c - skip + gain > 0:
                    notes.append('%s: %s is outside the forms the property speaks about; the function copies it whole (%d + len - %d + 1 characters), '
                                 'more than the len + 1 - %d documented for URIs with a scheme' % (name, outside.get(form, form), off.c, skip, gain))
    if nrows < len(expect):
        raise AnalysisBroken('%s: only %d rows of the skip table reconstructed' % (name, nrows))
    if not unesc:
        raise AnalysisBroken('%s: no call of the unescape routine' % name)
    brk = ctx.prog.enums.get('URI_BR_DONT_TOUCH')
    for dst, flags, loc, atoms in unesc:
        ok = flags == (0, brk) and isinstance(dst, Ptr) and dst.base == 'fnout' and dst.off.is_const() and dst.off.c == 0
        chk.add('escape-pairing', 'unescape-flags:%s' % (tag if ok else base_name(name)), ok, loc,
                '%s unescapes %s in place with plusToSpace, breakConversion = %r (expected (0, URI_BR_DONT_TOUCH) on the whole output)'
                % (name, 'the output' if ok else repr(dst), flags), func=name)
    return nrows, notes


class ScanHooks(object):
    """a pointer that scans a terminated string is advanced only after its current character was tested against 0 (and found
    different) since the last advance"""

    def __init__(self, f, prog, scanners):
        self.f, self.prog, self.scanners = f, prog, scanners
        self.bad = []
        self.advances = set()
        # locals that receive the current character of a pointer (`c = p[0]`), for the discovery pass
        self.holders = {}
        from ..ir import strip_casts as _sc
        for b in f.blocks:
            for i in b.ins:
                if i.op == 'assign' and i.dst is not None and i.dst.k == 'ref' and '*' not in (i.dst.ty or ''):
                    pv = self._pointee_of(i.src)
                    if pv is not None:
                        self.holders[i.dst.v] = pv

    def _pointee_of(self, e):
        from ..ir import strip_casts
        x = strip_casts(e)
        if x is None:
            return None
        t = None
        if x.k == 'index' and const_value(x.c[1], self.prog) == 0:
            t = strip_casts(x.c[0])
        elif x.k == 'un' and x.v == '*':
            t = strip_casts(x.c[0])
        if t is not None and t.k == 'ref' and '*' in (self.f.locals.get(t.v) or '') and t.v not in self.f.param_types:
            return t.v
        return None

    def _zero_test(self, cond, facts=None):
        from ..ir import strip_casts
        c = strip_casts(cond)
        if c is None or c.k != 'bin' or c.v not in ('==', '!='):
            return None
        for a, b in ((c.c[0], c.c[1]), (c.c[1], c.c[0])):
            if const_value(b, self.prog) != 0:
                continue
            x = strip_casts(a)
            if x is None:
                continue
            v = None
            if x.k == 'index' and const_value(x.c[1], self.prog) == 0:
                t = strip_casts(x.c[0])
                v = t.v if t is not None and t.k == 'ref' else None
            elif x.k == 'un' and x.v == '*':
                t = strip_casts(x.c[0])
                v = t.v if t is not None and t.k == 'ref' else None
            if v in self.scanners:
                return v, c.v == '=='
            if x.k == 'ref' and facts is not None:
                for h in facts:
                    if h[0] == 'holds' and h[1] == x.v:
                        return h[2], c.v == '=='
            if x.k == 'ref' and facts is None and x.v in self.holders:
                return self.holders[x.v], c.v == '=='
        return None

    def instr(self, b, idx, i, facts):
        from ..ir import strip_casts
        from ..cfgutil import expr_key
        if i.op == 'assign' and i.dst is not None and i.dst.k == 'ref':
            v = i.dst.v
            if v.startswith('%'):
                s = strip_casts(i.src)
                facts = frozenset(x for x in facts if not (x[0] == 'copy' and x[1] == v))
                if s is not None and s.k == 'ref' and s.v in self.scanners:
                    facts = facts | {('copy', v, s.v)}
                return facts
            pv = self._pointee_of(i.src) if '*' not in (i.dst.ty or '') else None
            facts = frozenset(x for x in facts if not (x[0] == 'holds' and x[1] == v))
            if pv in self.scanners:
                return facts | {('holds', v, pv)}
            if v in self.scanners:
                sk = expr_key(i.src)
                srcs = [v] + [x[1] for x in facts if x[0] == 'copy' and x[2] == v]
                if any(sk in ('(%s + 1)' % q, '%s + 1' % q) for q in srcs):
                    self.advances.add(str(i.loc))
                    if ('nonzero', v) not in facts:
                        self.bad.append((i.loc, v))
                return frozenset(x for x in facts if not ((x[0] == 'nonzero' and x[1] == v) or (x[0] == 'holds' and x[2] == v)))
        elif i.op == 'call' and i.dst is not None and i.dst.k == 'ref' and i.dst.v in self.scanners:
            return frozenset(x for x in facts if not (x[0] == 'nonzero' and x[1] == i.dst.v))
        return facts

    def edge(self, b, cond, truth, facts):
        zt = self._zero_test(cond, facts)
        if zt is not None:
            v, eq = zt
            if eq != truth:
                return facts | {('nonzero', v)}
        return facts

    def ret(self, b, term, facts):
        pass


def rule_terminator(ctx, chk, name):
    from ..factflow import explore
    f = ctx.irp.funcs[name]
    scanners = set()
    for b in f.blocks:
        t = b.term
        if t[0] == 'br':
            h = ScanHooks(f, ctx.prog, set(v for v, ty in f.locals.items() if '*' in (ty or '') and v not in f.param_types))
            zt = h._zero_test(t[1])
            if zt is not None:
                scanners.add(zt[0])
    if not scanners:
        raise AnalysisBroken('%s: no pointer that scans a terminated string found' % name)
    h = ScanHooks(f, ctx.prog, scanners)
    explore(f, h, limit=20000)
    if not h.advances:
        raise AnalysisBroken('%s: no advance of a scanning pointer found' % name)
    if h.bad:
        loc, v = h.bad[0]
        chk.bad('terminator', 'terminator:%s' % base_name(name), loc, '%s advances `%s` on a path where its current character has not been '
                'tested against the terminator since the last advance: for a string that ends there the scan leaves the string' % (name, v),
                func=name)
    else:
        chk.ok('terminator', 'terminator:%s' % name, f.loc, '%d advances of %s, each after a test of the current character' %
               (len(h.advances), sorted(scanners)), func=name)


def run(ctx, chk):
    from .c17 import escape_factor
    chk.explanation = ('Partial. Decided from the source of the two conversion engines, all paths, char and wchar_t, both directions: '
                       '(a) every store of the name-to-URI direction ends within the documented 7 + 3n + 1 (Unix) / 8 + 3n + 1 (Windows) '
                       'characters - symbolic bounded-write analysis with the inductive invariant "output cursor <= prefix constant + 3 * '
                       '(characters before the current segment)" over the conversion loop, the escape routine entering through its write '
                       'summary (at most F output characters per input character plus the terminator, F taken from the routine\'s source as in '
                       'C16 / C17) and the block copies through their sizes; the scan pointer advances by one and the loop leaves at the first '
                       'terminator, so its offset never exceeds n; (b) the prefix written per kind of name and the number of characters '
                       'skipped per "file:" form in the reverse direction (including the UNC re-prefix) are the documented ones; (c) the URI-'
                       'to-name direction writes at most len + 1 - 5 characters for the "file:" forms the property names and len + 1 otherwise; '
                       '(d) escape and unescape are called with options that are inverse to each other (C16 decides unescape(escape(c)) = c for '
                       'that pair); (e) the public functions choose the direction with constants. NOT decided: the round trip as a whole '
                       '(equality of two string transformations over all names), validity of the unescaped first segment of a Windows drive '
                       'name.')
    chk.rule('forward-bound', 'every store of uriFilenameToUriString ends within the documented prefix constant + 3 * len + 1 characters', floor=40)
    chk.rule('forward-terminated', 'on every path to a return of uriFilenameToUriString the last store into the output is the '
             'terminator at the final cursor position (directly or by the escape routine)', floor=4)
    chk.rule('raw-copy', 'the only text copied into the URI without escaping is the segment that starts the name (drive of a Windows name)',
             floor=2)
    chk.rule('prefix-table', 'prefix written per kind of name = the documented forms, none longer than the documented constant', floor=4)
    chk.rule('escape-pairing', 'escape without plus / line-break conversion, unescape without plus conversion and URI_BR_DONT_TOUCH', floor=8)
    chk.rule('skip-table', 'characters skipped and copy offset per "file:" form = the documented forms (file:///x, file:///C:/x, file://server/share, '
             'file:/x, file:c:/x)', floor=12)
    chk.rule('reverse-bound', 'characters written by uriUriStringToFilename <= documented buffer for every form the property names', floor=12)
    chk.rule('terminator', 'a pointer that scans a terminated string (the name, the produced filename) is advanced only after its '
             'current character was found different from the terminator', floor=4)
    chk.rule('entry-modes', 'each public conversion function calls its engine with the constant of its direction', floor=8)
    stats = {}
    allnotes = []
    for suf in ('A', 'W'):
        fac, _alpha = escape_factor(ctx, suf)
        if fac.get(0) is None:
            raise AnalysisBroken('escape factor not found')
        if fac[0] > 3:
            chk.bad('forward-bound', 'escape-factor:%s' % suf, ctx.irp.funcs['uriEscapeEx' + suf].loc,
                    'uriEscapeEx%s can write %d characters per input character without line-break conversion: the documented 3 * len does not '
                    'cover it' % (suf, fac[0]), func='uriEscapeEx' + suf)
        for mode in (1, 0):
            ns, npaths = forward(ctx, chk, suf, mode, max(fac[0], 1))
            nr, notes = reverse(ctx, chk, suf, mode)
            allnotes += notes
            stats['%s/%s' % (suf, 'unix' if mode else 'windows')] = {'forward_stores': ns, 'forward_block_visits': npaths, 'reverse_rows': nr}
        rule_terminator(ctx, chk, 'uriFilenameToUriString' + suf)
        rule_terminator(ctx, chk, 'uriUriStringToFilename' + suf)
        for pub, eng, val in (('uriUnixFilenameToUriString', 'uriFilenameToUriString', 1), ('uriWindowsFilenameToUriString', 'uriFilenameToUriString', 0),
                              ('uriUriStringToUnixFilename', 'uriUriStringToFilename', 1), ('uriUriStringToWindowsFilename', 'uriUriStringToFilename', 0)):
            g = ctx.irp.funcs.get(pub + suf)
            if g is None:
                raise AnalysisBroken('%s not found' % (pub + suf))
            calls = [i for b in g.blocks for i in b.ins if i.op == 'call' and call_target(i) == eng + suf]
            ok = len(calls) == 1 and len(calls[0].args) == 3 and const_value(calls[0].args[2], ctx.prog) is not None \
                and bool(const_value(calls[0].args[2], ctx.prog)) == bool(val) \
                and not any(i.op == 'call' and call_target(i) != eng + suf for b in g.blocks for i in b.ins)
            chk.add('entry-modes', 'entry:%s' % (pub + suf if ok else pub), ok, g.loc, '%s %s' % (pub + suf, 'passes its arguments and the constant %d to %s'
                    % (val, eng + suf) if ok else 'does not simply call %s with the constant %d' % (eng + suf, val)), func=pub + suf)
    chk.analysed['engines'] = stats
    chk.analysed['outside_the_stated_domain'] = sorted(set(allnotes))
    chk.assumptions += ['C16: escape writes only unreserved characters and %XX triplets, and unescape(escape(c)) = c for the option pair used here',
                        'the caller passes a terminated name / URI string and buffers of the documented sizes']
