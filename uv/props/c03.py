"""C03 -- parsing stays inside the given range and leaves no residue on failure."""
from ..frontend import AnalysisBroken, fmt_loc
from ..e1results import get_many, ENTRIES, witness_of
from .. import shared, memrules
from .c01 import jobs_for

LEVEL = 'proof'


def inside(v):
    """value stored into a text range lies inside the input, or is NULL / the placeholder"""
    t = v[0]
    if v == ('i', 0) or t in ('s', 'e', 'pp', 'pin'):
        return True
    if t == 'p':
        return v[1] <= 0
    return False


def rule_release_condition(ctx, chk):
    """in the release function every free depends only on the field it releases (plus the owner flag for texts)"""
    import re
    from ..ir import manager_call, strip_casts
    from ..cfgutil import edge_conditions, expr_key
    chk.rule('release-condition', 'in uriFreeUriMembersMm the release of a block is conditional only on that block\'s own field '
             '(non-NULL / non-empty), on the owner flag for text ranges and on the URI / manager argument checks - never on an '
             'unrelated component (a block allocated before that component is set would survive a failure exit)', floor=10)
    for suf in ('A', 'W'):
        f = ctx.irp.funcs.get('uriFreeUriMembersMm' + suf)
        if f is None:
            raise AnalysisBroken('uriFreeUriMembersMm%s not found' % suf)
        u = f.params[0]
        facts, dom = edge_conditions(f)
        # local aliases (segWalk = uri->pathHead ...)
        alias = {}
        for b in f.blocks:
            for i in b.ins:
                if i.op == 'assign' and i.dst.k == 'ref' and i.src is not None:
                    k = expr_key(i.src)
                    if k.startswith(u + '->') or any(k.startswith(a + '->') for a in alias):
                        alias[i.dst.v] = k
        for b in f.blocks:
            for i in b.ins:
                if i.op != 'call':
                    continue
                mc = manager_call(i)
                if not mc or mc[0] != 'free':
                    continue
                arg = expr_key(i.args[1])

                def root(k):
                    m = re.search(r'%s->([A-Za-z]+(?:\.(?:ip4|ip6|ipFuture))?)' % re.escape(u), k)
                    if m:
                        return m.group(1)
                    for a, ak in alias.items():
                        if re.search(r'(?<![A-Za-z0-9_])%s(?![A-Za-z0-9_])' % re.escape(a), k):
                            return root(ak) or 'pathHead'
                    return None
                mine = root(arg)
                allowed = {mine, 'owner'}
                if mine == 'hostText':
                    allowed.add('hostData.ipFuture')
                if mine == 'hostData.ipFuture':
                    allowed.add('hostText')
                others = set()
                for cond, truth, _d in facts[b.id]:
                    k = expr_key(cond)
                    for m in re.finditer(r'%s->([A-Za-z]+(?:\.(?:ip4|ip6|ipFuture))?)' % re.escape(u), k):
                        if m.group(1) not in allowed:
                            others.add(m.group(1))
                key = 'release:%s:%s' % (suf, mine)
                chk.add('release-condition', key if not others else 'release:%s-depends-on-%s' % (mine, ','.join(sorted(others))),
                        not others and mine is not None, i.loc,
                        'free(%s) is conditional on %s' % (arg, ', '.join(sorted(others)) if others else 'its own field only'),
                        func=f.name)


def run(ctx, chk):
    codes = dict((k, ctx.prog.macros.get(k)) for k in ('URI_SUCCESS', 'URI_ERROR_SYNTAX', 'URI_ERROR_MALLOC'))
    chk.explanation = ('Decided on the E1 exploration of the parser source (same abstract machine as C01; every path of every '
                       'interpreted function under every symbol class, end of input, allocation outcome): (1) no character is read '
                       'unless the path has established that its position is before afterLast - the machine only knows a symbol '
                       'after a comparison with afterLast answered "inside", so any other dereference is reported, including the '
                       'look-ahead reads first[1], first[2], the IPv6 scanner loops and the IPv4 recogniser explored over its own '
                       'range; hence the outcome cannot depend on what follows the range; (2) no store goes through a pointer into '
                       'the input and the input is never handed to a function that is not interpreted; (3) every value stored into '
                       'a text range of the URI or of a path segment is NULL, the private placeholder, or a position between first '
                       'and afterLast; (4) every final configuration that does not return success has no live block (the release '
                       'function ran after the last allocation) and leaves ip4/ip6/pathHead/pathTail NULL and owner false; an '
                       'allocation failure returns URI_ERROR_MALLOC; (5) the release function NULLs what it frees and covers every '
                       'allocation sink of the parser (rules shared with C13), so calling it again frees nothing.')
    chk.rule('no-over-read', 'no read at or beyond afterLast on any path of the exploration; one obligation per exploration plus one '
             'per dereference site reached', floor=4)
    chk.rule('no-input-write', 'no store through a pointer into the input, no input pointer passed to uninterpreted code', floor=4)
    chk.rule('range-inside-input', 'every value stored into a text-range field (URI or segment) is NULL, the placeholder, or a '
             'position in [first, afterLast]; one obligation per (field, store site)', floor=30)
    chk.rule('failure-leaves-nothing', 'every non-success final configuration has no live allocation, and ip4 / ip6 / pathHead / '
             'pathTail are NULL with owner false, so the structure can be handed to the release function', floor=500)
    chk.rule('oom-code', 'a final configuration after a failed allocation returns URI_ERROR_MALLOC', floor=20)
    jobs = [(s, e, 'dfa') for (s, e) in jobs_for(chk.tier)] + [('A', 'ip4', 'dfa'), ('W', 'ip4', 'dfa')]
    results = get_many(jobs)
    stats = {}
    for (suf, entry), r in sorted(results.items()):
        tag = '%s/%s' % (r['function'], entry)
        floc = ctx.irp.funcs[r['function']].loc
        stats[tag] = {'abstract_states': r['states'], 'transitions': r['transitions'], 'final_configurations': len(r['finals']),
                      'wall_s': round(r['wall'], 1), 'cache': r['cache']}
        seen_bad = {'no-over-read': 0, 'no-input-write': 0, 'range-inside-input': 0}
        for f in r['findings']:
            rule = f['rule']
            if rule in seen_bad:
                seen_bad[rule] += 1
                chk.bad(rule, '%s:%s' % (rule, f['key']), f['loc'], '%s via %s: %s; shortest input: %r %s'
                        % (r['function'], entry, f['detail'], f['witness'], ' '.join(f['notes'])), func=r['function'])
            elif rule in ('no-double-free', 'no-global-write', 'null-deref', 'termination'):
                chk.bad('failure-leaves-nothing', '%s:%s' % (rule, f['key']), f['loc'], '%s via %s: %s; shortest input: %r %s'
                        % (r['function'], entry, f['detail'], f['witness'], ' '.join(f['notes'])), func=r['function'])
        if not seen_bad['no-over-read']:
            chk.ok('no-over-read', 'e1:%s' % tag, floc, 'no read at or past afterLast in %d abstract states' % r['states'],
                   func=r['function'])
        if not seen_bad['no-input-write']:
            chk.ok('no-input-write', 'e1:%s' % tag, floc, 'no store into the input in %d abstract states; uninterpreted callees: %s'
                   % (r['states'], ', '.join(r['opaque']) or 'none'), func=r['function'])
        for which in ('regstores', 'heapstores'):
            for (path, loc), vals in sorted(r.get(which, {}).items(), key=repr):
                bad = [v for v in vals if not inside(v[0])]
                key = 'store:%s:%s' % ('.'.join(str(x) for x in path), 'uri' if which == 'regstores' else 'segment')
                if bad:
                    chk.bad('range-inside-input', key, loc, 'stores %r' % (bad[:3],), func=r['function'])
                else:
                    chk.ok('range-inside-input', key + '@' + fmt_loc(loc), loc, '%d distinct abstract values, all inside' % len(vals),
                           func=r['function'])
        if entry == 'ip4':
            continue
        for f in r['finals']:
            ret = f['ret']
            code = ret[1] if ret and ret[0] == 'i' else None
            q, age, lit, dil = f['m']
            key = 'final:%s:q%d:%s:%s%s' % (suf, q, 'alive' if age is None else 'dead%d' % age, code, ':oom' if f['oom'] else '')
            if f['oom']:
                if code == codes['URI_ERROR_MALLOC']:
                    chk.ok('oom-code', key, floc, 'URI_ERROR_MALLOC', func=r['function'])
                else:
                    text, notes = witness_of(r, f['nid'])
                    chk.bad('oom-code', 'oom-code:%s' % code, floc, '%s via %s returns %r after a failed allocation; input %r %s'
                            % (r['function'], entry, code, text, ' '.join(notes)), func=r['function'])
            if code == codes['URI_SUCCESS']:
                continue
            regs = f['regs']
            residue = [k for k in (('hostData', 'ip4'), ('hostData', 'ip6'), ('pathHead',), ('pathTail',), ('owner',))
                       if regs.get(k) != ('i', 0)]
            if f['heap'] or residue:
                text, notes = witness_of(r, f['nid'])
                what = []
                if f['heap']:
                    what.append('blocks still allocated from %s' % ', '.join(sorted(f['heap'])))
                if residue:
                    what.append('fields not reset: %s' % ', '.join('.'.join(k) for k in residue))
                chk.bad('failure-leaves-nothing', 'residue:%s' % ','.join(sorted(f['heap']) + ['.'.join(k) for k in residue]), floc,
                        '%s via %s returns %r with %s; shortest input: %r %s'
                        % (r['function'], entry, code, '; '.join(what), text, ' '.join(notes)), func=r['function'])
            else:
                chk.ok('failure-leaves-nothing', key, floc, 'code %r, nothing allocated, fields reset' % code, func=r['function'])
    rule_release_condition(ctx, chk)
    # release function: frees then NULLs, covers the sinks
    eng = shared.effects(ctx)
    memrules.rule_free_then_null(ctx, chk, eng)
    memrules.rule_sink_coverage(ctx, chk, eng)
    chk.analysed['explorations'] = stats
    chk.analysed['interpreted_functions'] = sorted(set(f for r in results.values() for f in r['functions']))
    chk.assumptions += ['the memory manager is complete; its malloc/calloc return NULL or a fresh block (both explored)',
                        'uriFreeUriMembersMm is used through its contract in the exploration (releases ip4, ip6 and every linked '
                        'segment node, NULLs the fields); the contract itself is the free-then-null / sink-coverage rules']
    chk.trusted += ['E1 abstract machine uv/e1.py (exact for control or aborts)']
