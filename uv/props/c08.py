"""C08 -- normalisation yields the syntax-based normal form (partial: finite tables, mask query <=> transformer,
per-component mask guards).  NOT decided: dot-segment removal, idempotence, "nothing else changes" for paths."""
from ..frontend import AnalysisBroken, fmt_loc
from ..ir import call_target, strip_casts, const_value
from ..cfgutil import edge_conditions, expr_key
from ..e1explore import Concrete
from ..e1 import END, Imprecise
from ..tables import base_name, MASK_BIT_OF_CLASS

RETRY_INLINED = True
LEVEL = 'other'

UNRESERVED = set(b'ABCDEFGHIJKLMNOPQRSTUVWXYZabcdefghijklmnopqrstuvwxyz0123456789-._~')
HEX = b'0123456789abcdefABCDEF'
OUT = ('G', 'OUT')
OUTEND = ('G', 'OUTEND')

TRANSFORMERS = ('uriLowercaseInplace', 'uriLowercaseMalloc', 'uriFixPercentEncodingInplace', 'uriFixPercentEncodingMalloc',
                'uriLowercaseInplaceExceptPercentEncoding', 'uriLowercaseMallocExceptPercentEncoding')
QUERIES = ('uriContainsUppercaseLetters', 'uriContainsUglyPercentEncoding')


def char_values(suf):
    if suf == 'A':
        return list(range(-128, 128))
    return list(range(0, 256)) + [256, 0x130, 0x141, 0x161, 0x20AC, -1]


def spec_triplet(x, y):
    """what 6.2.2.1 / 6.2.2.2 make of "%xy" for hex digits x, y"""
    code = int(chr(x) + chr(y), 16)
    if code in UNRESERVED:
        return [code]
    return [ord('%'), ord(chr(x).upper()), ord(chr(y).upper())]


def component_of(argkey):
    for cls in ('hostData.ipFuture', 'scheme', 'userInfo', 'hostText', 'query', 'fragment', 'portText'):
        if ('->%s.' % cls) in argkey or argkey.endswith('->' + cls):
            return cls
    if '->text.' in argkey or argkey.endswith('->text'):
        return 'text'
    return None


def find_engine(ctx, suf):
    irp = ctx.irp
    pub = irp.funcs.get('uriNormalizeSyntaxExMm' + suf)
    if pub is None:
        raise AnalysisBroken('uriNormalizeSyntaxExMm%s not found' % suf)
    engines = [t for b in pub.blocks for i in b.ins if i.op == 'call' for t in [call_target(i)]
               if t in irp.funcs and t != pub.name and 'MemoryManager' not in t]
    if len(set(engines)) != 1:
        raise AnalysisBroken('normalisation engine not identified: %s' % engines)
    return irp.funcs[engines[0]]


def branch_rules(ctx, chk, suf):
    """owner / non-owner branches apply the same transformations in the same order; case folding follows
    percent-decoding; the `relative` argument of dot-segment removal has the right truth table"""
    prog = ctx.prog
    f = find_engine(ctx, suf)
    uri = f.params[0]
    facts, dom = edge_conditions(f)
    byid = dict((b.id, b) for b in f.blocks)
    reach = {}
    for b in f.blocks:
        seen, st = set(), list(b.succs())
        while st:
            x = st.pop()
            if x.id in seen:
                continue
            seen.add(x.id)
            st.extend(x.succs())
        reach[b.id] = seen
    calls = {}
    for b in f.blocks:
        own = None
        for cond, truth, _d in facts[b.id]:
            if isinstance(truth, bool) and expr_key(cond) == '%s->owner' % uri:
                own = truth
        for idx, i in enumerate(b.ins):
            if i.op == 'call' and base_name(call_target(i) or '') in TRANSFORMERS:
                comp = component_of(expr_key(i.args[0]))
                kind = 'lower' if 'Lowercase' in call_target(i) else 'pct'
                calls.setdefault(comp, []).append((b.id, idx, kind, own, i))
    for comp, cs in sorted(calls.items(), key=repr):
        def before(a, b):
            return (a[0] == b[0] and a[1] < b[1]) or (a[0] != b[0] and b[0] in reach[a[0]] and a[0] not in reach[b[0]])
        seqs = {}
        for who, accept in (('owner', (True, None)), ('borrowed', (False, None))):
            mine = [c for c in cs if c[3] in accept]
            order = sorted(mine, key=lambda c: sum(1 for d in mine if before(d, c)))
            seqs[who] = [c[2] for c in order]
        loc = cs[0][4].loc
        chk.add('branch-agreement', 'agree:%s:%s' % (suf, comp), seqs['owner'] == seqs['borrowed'], loc,
                'component %s: in-place branch applies %s, copying branch applies %s' % (comp, seqs['owner'], seqs['borrowed']),
                func=f.name)
        for who, sq in seqs.items():
            if 'lower' in sq and 'pct' in sq:
                ok = sq.index('lower') > max(k for k, x in enumerate(sq) if x == 'pct')
                chk.add('branch-agreement', 'fold-after-decode:%s:%s:%s' % (suf, comp, who), ok, loc,
                        'component %s, %s text: order %s (decoding %%41..%%5A produces upper-case letters, so case folding must '
                        'follow percent-decoding)' % (comp, who, sq), func=f.name)
    # relative flag
    for b in f.blocks:
        for i in b.ins:
            if i.op == 'call' and base_name(call_target(i) or '') == 'uriRemoveDotSegmentsEx':
                a = strip_casts(i.args[1])
                if a.k != 'ref':
                    raise AnalysisBroken('relative argument of dot-segment removal is not a variable at %s' % fmt_loc(i.loc))
                # follow copies back to the conditional that produced 1
                names = {a.v}
                ones = []
                changed = True
                while changed:
                    changed = False
                    for bb in f.blocks:
                        for j in bb.ins:
                            if j.op == 'assign' and j.dst.k == 'ref' and j.dst.v in names:
                                s2 = strip_casts(j.src)
                                cv = const_value(j.src, prog)
                                if cv is not None:
                                    if cv == 1 and (bb.id, j.dst.v) not in [(x[0].id, x[1]) for x in ones]:
                                        ones.append((bb, j.dst.v))
                                elif s2 is not None and s2.k == 'ref' and s2.v not in names:
                                    names.add(s2.v)
                                    changed = True
                if len(ones) != 1:
                    raise AnalysisBroken('cannot derive the truth table of the relative flag at %s' % fmt_loc(i.loc))
                conj = set()
                outer = set((expr_key(c), t) for c, t, _d in facts[b.id] if isinstance(t, bool))
                for c, t, _d in facts[ones[0][0].id]:
                    if isinstance(t, bool) and (expr_key(c), t) not in outer:
                        conj.add((expr_key(c), t))
                norm = set()
                for k, t in conj:
                    if k in ('(%s->scheme.first == 0)' % uri, '(%s->scheme.first == NULL)' % uri):
                        norm.add(('no-scheme', t))
                    elif k == '%s->scheme.first' % uri or k == '(%s->scheme.first != 0)' % uri:
                        norm.add(('no-scheme', not t))
                    elif k == '%s->absolutePath' % uri:
                        norm.add(('not-absolute', not t))
                    elif k.startswith('uriIsHostSet') or 'IsHostSet' in k:
                        norm.add(('no-host', not t))
                    else:
                        tmps = [d for bb in f.blocks for d in bb.ins if d.op == 'call' and d.dst is not None and d.dst.v == k]
                        if tmps and base_name(call_target(tmps[0]) or '') == 'uriIsHostSet':
                            norm.add(('no-host', not t))
                        else:
                            norm.add((k, t))
                want = {('no-scheme', True), ('not-absolute', True), ('no-host', True)}
                chk.add('relative-flag', 'relative-flag:%s' % ('ok' if norm == want else ','.join(sorted(str(x) for x in (want ^ norm)))),
                        norm == want, i.loc, 'dot-segment removal keeps a leading ".." run iff %s; a relative-path reference is one '
                        'with no scheme, no authority and a path that is not absolute' % sorted(norm), func=f.name)


def run(ctx, chk):
    prog, irp = ctx.prog, ctx.irp
    chk.explanation = ('Partial. Decided from source without running compiled code: (a) finite tables by evaluating the helper functions '
                       'on every element of their domain with the E1 machine in concrete mode - uriIsUnreserved = the RFC unreserved '
                       'set on all codes, uriHexdigToInt / uriHexToLetter on all digits, the lower-casing loops on every character '
                       'value (A-Z -> +32, everything else unchanged; in-place = copying variant), the percent-triplet transformer on '
                       'every pair of hex digits (decoded iff unreserved, else "%" + two upper-case digits) and on incomplete triplets '
                       '(copied); (b) mask query <=> transformer: the "contains upper-case" / "ugly percent-encoding" predicates answer '
                       'true exactly on the characters / triplets their transformer changes, so a zero mask means nothing would change '
                       'and the reported mask suffices component by component; (c) in the engine every call of a transformer on '
                       'component X is dominated by the test of the mask bit the public enum assigns to X and by outMask == NULL, and '
                       'every bit set in *outMask is decided by the predicate applied to that same component. NOT decided: dot-segment '
                       'removal and its relative-reference rules, idempotence, "changes nothing else" for paths.')
    chk.rule('table-unreserved', 'uriIsUnreserved(code) is true exactly for ALPHA / DIGIT / - . _ ~, for every code in -300..600', floor=900)
    chk.rule('table-hex', 'uriHexdigToInt maps every hex digit (either case) to its value; uriHexToLetter maps 0..15 to 0-9A-F', floor=76)
    chk.rule('lowercase', 'both lower-casing variants map A-Z to a-z and every other character value to itself, and the upper-case '
             'predicate is true exactly where they change something', floor=500)
    chk.rule('percent-triplet', 'the percent-encoding transformer decodes "%xy" iff it denotes an unreserved character, otherwise writes '
             '"%" and two upper-case digits; incomplete triplets and other characters are copied; the "ugly" predicate is true '
             'exactly where the transformer changes the text', floor=900)
    chk.rule('mask-guard', 'every transformer call in the normalisation engine is dominated by the mask bit of the component it is '
             'applied to and by outMask == NULL', floor=16)
    chk.rule('branch-agreement', 'for every component the in-place (owner) and the copying branch apply the same transformations in the '
             'same order, and case folding follows percent-decoding', floor=10)
    chk.rule('relative-flag', 'the flag that makes dot-segment removal keep a leading ".." run is true exactly for relative-path '
             'references: no scheme, no authority, path not absolute', floor=2)
    chk.rule('mask-report', 'every bit the mask query sets is decided by the matching predicate applied to the same component', floor=10)
    for suf in ('A', 'W'):
        cv = char_values(suf)
        # ---- (a) tables
        if suf == 'A':
            c = Concrete(ctx, suf, 'uriIsUnreserved')
            for code in range(-300, 601):
                r = c.call([('i', code)])[0]
                want = 1 if code in UNRESERVED else 0
                chk.add('table-unreserved', 'unreserved:%d' % code, r == ('i', want), irp.funcs['uriIsUnreserved'].loc,
                        'uriIsUnreserved(%d) = %r, RFC 3986 2.3 says %d' % (code, r, want), func='uriIsUnreserved')
        hd = Concrete(ctx, suf, 'uriHexdigToInt' + suf)
        for v in cv:
            r = hd.call([('i', v)])[0]
            ch = v & 0xFF if suf == 'A' else v
            if 0 <= v < 128 and bytes([v]) in [bytes([h]) for h in HEX]:
                want = int(chr(v), 16)
                chk.add('table-hex', 'hexdig:%s:%d' % (suf, v), r == ('i', want), irp.funcs['uriHexdigToInt' + suf].loc,
                        'uriHexdigToInt(%r) = %r, expected %d' % (chr(v), r, want), func='uriHexdigToInt' + suf)
        hl = Concrete(ctx, suf, 'uriHexToLetter' + suf)
        for v in range(16):
            r = hl.int_of(hl.call([('i', v)])[0])
            chk.add('table-hex', 'hexletter:%s:%d' % (suf, v), r == ord('0123456789ABCDEF'[v]), irp.funcs['uriHexToLetter' + suf].loc,
                    'uriHexToLetter(%d) = %r' % (v, r), func='uriHexToLetter' + suf)
        # ---- lower-casing
        li = Concrete(ctx, suf, 'uriLowercaseInplace' + suf)
        lm = Concrete(ctx, suf, 'uriLowercaseMalloc' + suf)
        cu = Concrete(ctx, suf, 'uriContainsUppercaseLetters' + suf)
        FIRSTP, LASTP = ('G', 'FIRSTP'), ('G', 'LASTP')
        for v in cv:
            if v == 0 and False:
                continue
            want = v + 32 if 65 <= v <= 90 else v
            li.call([('p', -1), END], [v])
            st_in = [o for o in li.obs if o[0] == 'in-store']
            got_in = li.int_of(st_in[-1][2]) if st_in else v
            lm.call([('a', FIRSTP, ()), ('a', LASTP, ()), ('m',)], [v], env={(FIRSTP, ()): ('p', -1), (LASTP, ()): END})
            st_m = [o for o in lm.obs if o[0] == 'heap-store']
            got_m = lm.int_of(st_m[-1][3]) if st_m else None
            up = cu.call([('p', -1), END], [v])[0]
            ok = got_in == want and got_m == want and (up == ('i', 1)) == (want != v)
            chk.add('lowercase', 'lower:%s:%d' % (suf, v), ok, irp.funcs['uriLowercaseInplace' + suf].loc,
                    'character %d: in place -> %r, copy -> %r, expected %d; contains-upper-case = %r' % (v, got_in, got_m, want, up),
                    func='uriLowercaseInplace' + suf)
        # ---- percent triplets
        eng = Concrete(ctx, suf, 'uriFixPercentEncodingEngine' + suf)
        ugly = Concrete(ctx, suf, 'uriContainsUglyPercentEncoding' + suf)
        floc = irp.funcs['uriFixPercentEncodingEngine' + suf].loc

        def transform(text):
            r, env = eng.call([('p', -len(text)), END, ('a', OUT, (0,)), ('a', OUTEND, ())], text)
            end = env.get((OUTEND, ()))
            if not end or end[0] != 'a' or end[1] != OUT:
                return None
            n = end[2][0]
            return [eng.int_of(env.get((OUT, (k,)))) for k in range(n)]
        samples = []
        for x in HEX:
            for y in HEX:
                for pre, post in (([], []), ([ord('a')], [ord('b')])):
                    text = pre + [ord('%'), x, y] + post
                    got = transform(text)
                    want = pre + spec_triplet(x, y) + post
                    u = ugly.call([('p', -len(text)), END], text)[0]
                    ok = got == want and (u == ('i', 1)) == (want != text)
                    chk.add('percent-triplet', 'triplet:%s:%s%s:%d' % (suf, chr(x), chr(y), len(pre)), ok, floc,
                            '%r -> %r, expected %r; ugly predicate = %r' % (bytes(text), got, want, u),
                            func='uriFixPercentEncodingEngine' + suf)
        for lead in (b'%2F', b'%3A%5B', b'a', b'ab', b'/%7C'):
            for x in HEX:
                for y in HEX:
                    text = list(lead) + [ord('%'), x, y]
                    got = transform(text)
                    want, k = [], 0
                    while k < len(text):
                        if text[k] == ord('%') and k + 2 < len(text):
                            want += spec_triplet(text[k + 1], text[k + 2])
                            k += 3
                        else:
                            want.append(text[k])
                            k += 1
                    u = ugly.call([('p', -len(text)), END], text)[0]
                    ok = got == want and (u == ('i', 1)) == (want != text)
                    chk.add('percent-triplet', 'pair:%s:%s:%s%s' % (suf, lead.decode(), chr(x), chr(y)), ok, floc,
                            '%r -> %r, expected %r; ugly predicate = %r' % (bytes(text), got, want, u),
                            func='uriFixPercentEncodingEngine' + suf)
        for text in ([ord('%')], [ord('%'), ord('4')], [ord('a'), ord('%'), ord('4')], [ord('a'), ord('b'), ord('%')],
                     [ord('A'), ord('/'), ord('?'), ord('~')], [ord('%'), ord('4'), ord('1'), ord('%'), ord('4')], []):
            if not text:
                continue
            got = transform(text)
            # complete triplets inside are transformed, everything else copied
            want, i = [], 0
            while i < len(text):
                if text[i] == ord('%') and i + 2 < len(text) + 0 and i + 2 <= len(text) - 1 and bytes([text[i + 1]]) in [bytes([h]) for h in HEX] \
                        and bytes([text[i + 2]]) in [bytes([h]) for h in HEX]:
                    want += spec_triplet(text[i + 1], text[i + 2])
                    i += 3
                else:
                    want.append(text[i])
                    i += 1
            u = ugly.call([('p', -len(text)), END], text)[0]
            chk.add('percent-triplet', 'text:%s:%s' % (suf, bytes(text).decode()), got == want and (u == ('i', 1)) == (want != text), floc,
                    '%r -> %r, expected %r; ugly predicate = %r' % (bytes(text), got, want, u), func='uriFixPercentEncodingEngine' + suf)
        # ---- (c) mask guards in the engine
        pub = irp.funcs.get('uriNormalizeSyntaxExMm' + suf)
        if pub is None:
            raise AnalysisBroken('uriNormalizeSyntaxExMm%s not found' % suf)
        engines = [t for b in pub.blocks for i in b.ins if i.op == 'call' for t in [call_target(i)]
                   if t in irp.funcs and t != pub.name and 'MemoryManager' not in t]
        if len(set(engines)) != 1:
            raise AnalysisBroken('normalisation engine not identified: %s' % engines)
        f = irp.funcs[engines[0]]
        inmask, outmask = f.params[1], f.params[2]
        facts, dom = edge_conditions(f)
        tmpdef = {}
        for b in f.blocks:
            for i in b.ins:
                if i.dst is not None and i.dst.k == 'ref':
                    tmpdef.setdefault(i.dst.v, []).append(i)

        def holds(bid):
            """(set of mask bits known set, outMask known NULL?, predicate calls known true) at block bid"""
            bits, outnull, preds = set(), None, []
            for cond, truth, _d in facts[bid]:
                if not isinstance(truth, bool):
                    continue
                c = strip_casts(cond)
                k = expr_key(c)
                if c.k == 'bin' and c.v == '&' and expr_key(c.c[0]) == inmask and truth:
                    v = const_value(c.c[1], prog)
                    bits.add(v)
                if k in ('(%s != 0)' % outmask, '(%s != NULL)' % outmask) or (c.k == 'bin' and c.v in ('!=', '==') and
                                                                              expr_key(c.c[0]) == outmask):
                    isnull = (c.v == '==') == truth
                    outnull = isnull
                elif k == outmask:
                    outnull = not truth
                if c.k == 'ref' and truth:
                    for d in tmpdef.get(c.v, []):
                        if d.op == 'call':
                            preds.append(d)
                        elif d.op == 'assign':
                            s = strip_casts(d.src)
                            if s is not None and s.k == 'ref':
                                for d2 in tmpdef.get(s.v, []):
                                    if d2.op == 'call':
                                        preds.append(d2)
            return bits, outnull, preds
        for b in f.blocks:
            for i in b.ins:
                if i.op == 'call' and base_name(call_target(i) or '') in TRANSFORMERS:
                    comp = component_of(expr_key(i.args[0]))
                    bitname = MASK_BIT_OF_CLASS.get(comp)
                    bits, outnull, _p = holds(b.id)
                    want = prog.enums.get(bitname) if bitname else None
                    ok = want is not None and want in bits and outnull is True
                    chk.add('mask-guard', 'guard:%s:%s:%s' % (suf, base_name(call_target(i)), comp), ok, i.loc,
                            '%s on %s: mask bits tested %s, required %s; outMask == NULL established: %s'
                            % (call_target(i), comp, sorted(bits), bitname, outnull), func=f.name)
                if i.op == 'assign' and i.x and i.x.get('compound') == '|=' and expr_key(i.dst) == '*%s' % outmask \
                        or (i.op == 'assign' and expr_key(i.dst).replace('(', '').replace(')', '') == '*%s' % outmask
                            and strip_casts(i.src).k == 'bin' and strip_casts(i.src).v == '|'):
                    s = strip_casts(i.src)
                    bit = const_value(s.c[1], prog)
                    names = [n for n, v in prog.enums.items() if v == bit and n.startswith('URI_NORMALIZE_')]
                    bits, outnull, preds = holds(b.id)
                    comps = set()
                    for d in preds:
                        if base_name(call_target(d) or '') in QUERIES:
                            comps.add(component_of(expr_key(d.args[0])) or 'local')
                    wantc = [c for c, n in MASK_BIT_OF_CLASS.items() if n in names]
                    if 'URI_NORMALIZE_PATH' in names:
                        ok = outnull is False       # decided inline on the segment text inside the walk
                    else:
                        ok = outnull is False and bool(comps) and comps <= set(wantc)
                    chk.add('mask-report', 'report:%s:%s' % (suf, '|'.join(names)), ok, i.loc,
                            'bit %s reported from the predicate on %s (expected %s)' % (names, sorted(comps), wantc), func=f.name)
    for suf in ('A', 'W'):
        branch_rules(ctx, chk, suf)
    chk.assumptions += ['inputs of the transformers are texts the parser accepted (every "%" is followed by two hex digits)']
