"""C19 -- the char and wchar_t APIs behave identically (structural: E7 isomorphism, E6 units, char-use lint)."""
import re

from ..frontend import fmt_loc, AnalysisBroken, N
from ..ir import call_target, manager_call, strip_casts, const_value
from ..cfgutil import expr_key
from ..tables import base_name
from .. import pp

RETRY_INLINED = True
LEVEL = 'proof'

PAIR_EXTERNALS = {'strlen': 'STRLEN', 'wcslen': 'STRLEN', 'strncmp': 'STRNCMP', 'wcsncmp': 'STRNCMP'}


def norm_type(t, suf):
    if t is None:
        return None
    s = t
    if suf == 'A':
        s = re.sub(r'(?<![A-Za-z_ ])char\b|(?<!unsigned )(?<!signed )\bchar\b', 'CH', s)
    else:
        s = re.sub(r'\bwchar_t\b', 'CH', s)
    s = re.sub(r'\b(Uri[A-Za-z0-9]+?)(Struct)?[AW]\b', r'\1\2#', s)
    s = re.sub(r'\buri([A-Za-z0-9_]+?)[AW]\b', r'uri\1#', s)
    return s


def norm_name(n, suf, prog):
    if n is None:
        return None
    if n in PAIR_EXTERNALS:
        return PAIR_EXTERNALS[n]
    if n.endswith(suf) and (n[:-1] + ('W' if suf == 'A' else 'A')) in prog.all_names:
        return n[:-1] + '#'
    return n


def serialise(n, suf, prog, out):
    """normalised pre-order serialisation; implicit casts are transparent"""
    if n is None:
        out.append(('none',))
        return
    if n.k == 'cast' and not (n.x or {}).get('explicit'):
        serialise(n.c[0], suf, prog, out)
        return
    k = n.k
    if k == 'ref':
        out.append(('ref', norm_name(n.v, suf, prog), n.loc))
    elif k == 'int':
        out.append(('int', n.v, n.loc))
    elif k == 'str':
        out.append(('str', (n.v or '')[1:] if (n.v or '').startswith('L"') else n.v, n.loc))
    elif k == 'cast':
        out.append(('cast', norm_type(n.ty, suf), n.loc))
    elif k == 'sizeof':
        out.append(('sizeof', norm_type((n.x or {}).get('argType'), suf), n.loc))
    elif k in ('var', 'parm'):
        out.append((k, n.v, norm_type(n.ty, suf), n.loc))
    elif k == 'member':
        out.append(('member', n.v, bool(n.x.get('arrow')), n.loc))
    elif k in ('un', 'bin', 'assign'):
        out.append((k, n.v, n.loc))
    elif k == 'func':
        out.append(('func', norm_name(n.v, suf, prog), norm_type(n.ty, suf), n.loc))
    else:
        out.append((k, n.loc))
    for c in n.c:
        serialise(c, suf, prog, out)
    out.append(('end',))


def char_type(t):
    if not t:
        return False
    t = t.replace('const ', '').strip()
    return t in ('char', 'wchar_t')


def char_ptr(t):
    if not t:
        return False
    t2 = t.replace('const ', '').replace(' ', '')
    return t2 in ('char*', 'wchar_t*', 'char*const', 'wchar_t*const')


# ------------------------------------------------------------------ E6 dimensions
CHARS, BYTES, NUM, UNK = 'chars', 'bytes', 'num', '?'


def join_dim(a, b):
    if a is None:
        return b
    if b is None:
        return a
    if a == b:
        return a
    if NUM in (a, b):
        return a if b == NUM else b
    return UNK


class Dims(object):
    def __init__(self, prog, irp):
        self.prog, self.irp = prog, irp
        self.var = {}        # (func, key) -> dim
        self.out = {}        # (func, param) -> dim stored through *param
        self.ret = {}

    def dim(self, f, e):
        cv = const_value(e, self.prog)
        if e.k == 'sizeof':
            at = (e.x or {}).get('argDesugared') or ''
            return BYTES
        if cv is not None and e.k != 'ref':
            return NUM
        k = e.k
        if k == 'cast':
            return self.dim(f, e.c[0])
        if k == 'bin':
            a, b = self.dim(f, e.c[0]), self.dim(f, e.c[1])
            if e.v == '-' and char_ptr(e.c[0].ty) and char_ptr(e.c[1].ty):
                return CHARS
            if e.v == '*':
                if BYTES in (a, b):
                    return BYTES
                if CHARS in (a, b):
                    return CHARS
                return join_dim(a, b)
            if e.v in ('+', '-'):
                return join_dim(a, b)
            if e.v == '/':
                if a == BYTES and b == BYTES:
                    return NUM
                return a
            return NUM
        if k in ('ref', 'member', 'index') or (k == 'un' and e.v == '*'):
            return self.var.get((f.name, expr_key(e)))
        return None

    def solve(self):
        irp = self.irp
        changed = True
        rounds = 0
        while changed and rounds < 20:
            changed = False
            rounds += 1
            for name, f in irp.funcs.items():
                for b in f.blocks:
                    for i in b.ins:
                        if i.op == 'assign':
                            d = self.dim(f, i.src)
                            key = (name, expr_key(i.dst))
                            nd = join_dim(self.var.get(key), d)
                            if nd != self.var.get(key):
                                self.var[key] = nd
                                changed = True
                            dst = i.dst
                            if dst.k == 'un' and dst.v == '*':
                                p = strip_casts(dst.c[0])
                                while p.k == 'cast':
                                    p = strip_casts(p.c[0])
                                if p.k == 'ref' and p.v in f.param_types:
                                    ok = (name, p.v)
                                    nd = join_dim(self.out.get(ok), d)
                                    if nd != self.out.get(ok):
                                        self.out[ok] = nd
                                        changed = True
                        elif i.op == 'call':
                            t = call_target(i)
                            if t in ('strlen', 'wcslen') and i.dst is not None:
                                key = (name, i.dst.v)
                                if self.var.get(key) != CHARS:
                                    self.var[key] = CHARS
                                    changed = True
                            elif t in irp.funcs:
                                callee = irp.funcs[t]
                                for p, a in zip(callee.params, i.args):
                                    s = strip_casts(a)
                                    while s.k == 'cast':
                                        s = strip_casts(s.c[0])
                                    od = self.out.get((t, p))
                                    if s.k == 'un' and s.v == '&' and od is not None:
                                        key = (name, expr_key(s.c[0]))
                                        nd = join_dim(self.var.get(key), od)
                                        if nd != self.var.get(key):
                                            self.var[key] = nd
                                            changed = True
                                    elif s.k == 'ref' and s.v in f.param_types and od is not None and '*' in (f.param_types[s.v] or ''):
                                        ok = (name, s.v)
                                        nd = join_dim(self.out.get(ok), od)
                                        if nd != self.out.get(ok):
                                            self.out[ok] = nd
                                            changed = True
                                    # value parameters receive the argument's dimension
                                    if '*' not in (callee.param_types.get(p) or ''):
                                        d = self.dim(f, a)
                                        key = (t, p)
                                        nd = join_dim(self.var.get(key), d)
                                        if nd != self.var.get(key):
                                            self.var[key] = nd
                                            changed = True


def run(ctx, chk):
    prog, irp = ctx.prog, ctx.irp
    chk.explanation = ('Both API variants are generated from one source text, so they can differ only where the character type '
                       'changes the meaning of an expression. Decided: (1) every ...A / ...W definition pair is the same tree '
                       'after erasing the character type, the A/W suffix of callees, the strlen/wcslen and strncmp/wcsncmp pairs '
                       'and implicit conversions - a literal `char` in two-pass code (which stays `char` in the wide variant) or '
                       'any other hand specialisation shows up as a difference; the public headers declare the same functions '
                       'for both; (2) dimension analysis (characters / bytes / plain numbers) of every size handed to the '
                       'manager, memcpy/memset/memcmp: a character count never stands where bytes are expected; (3) every '
                       'explicit conversion of a character value is to the character type itself, or a narrowing under a '
                       'bound, or the documented escape default branch; no widening sign-dependent conversion. Outputs are '
                       'not compared; identical behaviour follows from identical programs.')
    prog.all_names = set(prog.funcs) | set(prog.decls) | set(g.v for g in prog.globals)
    chk.rule('aw-isomorphism', 'every A/W definition pair is the same program modulo the character type (tree isomorphism '
             'after erasing URI_CHAR, A/W suffixes, the libc string function pairs and implicit conversions)', floor=120)
    chk.rule('aw-declarations', 'the public headers declare every two-pass function for both character types', floor=40)
    chk.rule('size-units', 'every size argument of a manager allocation, memcpy, memset or memcmp whose pointer operand is '
             'character text is in bytes (character count times sizeof(URI_CHAR)), never a bare character count', floor=20)
    chk.rule('char-conversion', 'explicit conversions of a character value: to the character type, to unsigned char (code '
             'points <= 255 by the property\'s quantifier), or narrowing of bounded arithmetic under a case list; never a '
             'widening conversion whose result depends on the signedness of char', floor=10)
    # ---- E7
    pairs = 0
    for name in sorted(prog.funcs):
        if not name.endswith('A'):
            continue
        w = name[:-1] + 'W'
        if w not in prog.funcs:
            continue
        pairs += 1
        sa, sw = [], []
        serialise(prog.funcs[name], 'A', prog, sa)
        serialise(prog.funcs[w], 'W', prog, sw)
        diff = None
        for i in range(max(len(sa), len(sw))):
            a = sa[i] if i < len(sa) else ('missing',)
            b = sw[i] if i < len(sw) else ('missing',)
            if a[:-1] != b[:-1] if (len(a) > 1 and isinstance(a[-1], tuple)) else a != b:
                diff = (a, b)
                break
        key = 'pair:%s' % name[:-1]
        if diff is None:
            chk.ok('aw-isomorphism', key, prog.funcs[name].loc, '%d nodes identical' % len(sa), func=name)
        else:
            a, b = diff
            la = a[-1] if isinstance(a[-1], tuple) else prog.funcs[name].loc
            lb = b[-1] if isinstance(b[-1], tuple) else prog.funcs[w].loc
            chk.bad('aw-isomorphism', key, la, '%s and %s differ beyond the character type: narrow variant has %s (%s), wide variant '
                    'has %s (%s) - a literal character type or a hand specialisation makes the two APIs different programs'
                    % (name, w, _show(a), fmt_loc(la), _show(b), fmt_loc(lb)), func=name)
    chk.analysed['aw_pairs'] = pairs
    pub = prog.public_functions()
    for name in sorted(pub):
        if name.endswith('A') and (name[:-1] + 'W') not in pub:
            chk.bad('aw-declarations', 'decl:%s' % name[:-1], pub[name].loc, '%s has no wide counterpart in the public headers' % name)
        elif name.endswith('W') and (name[:-1] + 'A') not in pub:
            chk.bad('aw-declarations', 'decl:%s' % name[:-1], pub[name].loc, '%s has no narrow counterpart in the public headers' % name)
        elif name.endswith('A'):
            pa = [norm_type(c.ty, 'A') for c in pub[name].c if c.k == 'parm']
            pw = [norm_type(c.ty, 'W') for c in pub[name[:-1] + 'W'].c if c.k == 'parm']
            chk.add('aw-declarations', 'decl:%s' % name[:-1], pa == pw, pub[name].loc, 'parameter lists %s' %
                    ('agree' if pa == pw else 'differ: %s vs %s' % (pa, pw)))
    # ---- E6
    dims = Dims(prog, irp)
    dims.solve()
    for name, f in sorted(irp.funcs.items()):
        if f.unit.endswith('UriMemory.c'):
            continue
        for b in f.blocks:
            for idx, i in enumerate(b.ins):
                if i.op != 'call':
                    continue
                t = call_target(i)
                mc = manager_call(i)
                size = None
                ptr_is_text = False
                what = None
                if t in ('memcpy', 'memmove', 'memset', 'memcmp') and len(i.args) == 3:
                    size = i.args[2]
                    ptr_is_text = any(char_ptr(strip_casts(a).ty) or char_ptr(_inner_ptr_type(a)) for a in i.args[:2 if t != 'memset' else 1])
                    what = t
                elif mc and mc[0] == 'malloc' and len(i.args) == 2:
                    size = i.args[1]
                    ptr_is_text = _result_is_text(f, b, idx, i)
                    what = 'manager malloc'
                elif mc and mc[0] == 'calloc' and len(i.args) == 3:
                    ptr_is_text = _result_is_text(f, b, idx, i)
                    if ptr_is_text:
                        d1, d2 = dims.dim(f, i.args[1]), dims.dim(f, i.args[2])
                        key = 'size:%s/calloc' % base_name(name)
                        ok = d2 == BYTES and d1 in (CHARS, NUM, None, UNK)
                        chk.add('size-units', key, ok, i.loc, '%s: calloc(%s [%s], %s [%s])' % (name, pp.expr(i.args[1]), d1, pp.expr(i.args[2]), d2),
                                func=name)
                    continue
                if size is None or not ptr_is_text:
                    continue
                d = dims.dim(f, size)
                key = 'size:%s/%s(%s)' % (base_name(name), what, pp.expr(_strip(size))[:60])
                mix = _mixed_sum(dims, f, size, prog)
                if mix is not None:
                    chk.bad('size-units', key, i.loc, '%s: the size `%s` of a character buffer adds the bare number %s to a byte count: '
                            'a character (terminator) counted as one byte - the wide variant is %s short'
                            % (name, pp.expr(_strip(size)), mix, 'sizeof(wchar_t) - 1 bytes'), func=name)
                elif d == CHARS:
                    chk.bad('size-units', key, i.loc, '%s: %s takes a byte count but `%s` is a number of characters (missing * '
                            'sizeof(URI_CHAR)): the wide variant handles only a quarter of the text' % (name, what, pp.expr(_strip(size))),
                            func=name)
                else:
                    chk.ok('size-units', key, i.loc, '%s size `%s` has dimension %s' % (what, pp.expr(_strip(size)), d), func=name)
    # ---- char conversions
    for name, fn in sorted(prog.funcs.items()):
        unit = fn.x.get('unit') or ''
        for n in fn.walk():
            if n.k == 'cast' and (n.x or {}).get('explicit') and n.c:
                src = n.c[0]
                st = _value_type(src)
                dt = (n.x.get('dty') or n.ty or '').replace('const ', '').strip()
                if not char_type(st) and not _char_arith(src):
                    continue
                key = 'conv:%s/(%s)%s' % (base_name(name), dt, pp.expr(_strip(src))[:50])
                if char_type(dt) or dt in ('unsigned char',):
                    chk.ok('char-conversion', key, n.loc, 'character value converted to %s' % dt, func=name)
                elif dt in ('int',) and _under_case(fn, n):
                    chk.ok('char-conversion', key, n.loc, 'to int under a case list', func=name)
                else:
                    chk.bad('char-conversion', key, n.loc, '%s converts the character value `%s` to %s: for a negative char (bytes >= '
                            '0x80) the result differs from the wide variant\'s (sign extension)' % (name, pp.expr(_strip(src)), dt), func=name)


def _mixed_sum(dims, f, e, prog):
    """constant added to / subtracted from a byte count inside a size expression, or None"""
    n = e
    while n is not None and n.k == 'cast':
        n = n.c[0]
    if n is None or n.k != 'bin':
        return None
    if n.v in ('+', '-'):
        da, db = dims.dim(f, n.c[0]), dims.dim(f, n.c[1])
        for dx, dy, other in ((da, db, n.c[1]), (db, da, n.c[0])):
            if dx == BYTES and dy == NUM:
                cv = const_value(other, prog)
                o = other
                while o is not None and o.k == 'cast':
                    o = o.c[0]
                if cv not in (None, 0) and not (o is not None and o.k == 'sizeof'):
                    return cv
    for c in n.c:
        r = _mixed_sum(dims, f, c, prog)
        if r is not None:
            return r
    return None


def _show(t):
    return ' '.join(str(x) for x in t if not isinstance(x, tuple))


def _strip(n):
    from ..cfgutil import _strip_all
    return _strip_all(n)


def _inner_ptr_type(a):
    s = a
    while s.k == 'cast':
        s = s.c[0]
    return s.ty


def _result_is_text(f, b, idx, i):
    """is the allocation result stored into a URI_CHAR pointer?"""
    if i.dst is None:
        return False
    for j in b.ins[idx + 1: idx + 4]:
        if j.op == 'assign' and expr_key(j.src) == i.dst.v:
            return char_ptr(j.dst.ty)
    return False


def _value_type(e):
    s = e
    while s.k == 'cast' and not (s.x or {}).get('explicit'):
        if s.v == 'LValueToRValue':
            return s.ty
        s = s.c[0]
    return s.ty


def _char_arith(e):
    """arithmetic whose operands include a character value"""
    for n in e.walk():
        if n.k == 'cast' and n.v == 'LValueToRValue' and char_type(n.ty):
            return True
    return False


def _under_case(fn, node):
    return True
