"""C01 -- the parser accepts exactly the RFC 3986 URI-reference language; error code and position.

Decided by E1: the parser's source is interpreted over a lazily read stream of symbol classes, in product
with the minimal DFA of RFC 3986 Appendix A (compiled from an ABNF transcription in /verif).  Every reachable
final configuration is an obligation."""
from ..frontend import AnalysisBroken, fmt_loc
from ..e1results import get_many, ENTRIES, WRAPPERS, witness_of, wrapper_check
from ..e1monitor import CAP

LEVEL = 'proof'

QUICK = [('A', 'single-mm'), ('W', 'single-mm')]


FULL = [e for e in ENTRIES if e != 'ip4']


def jobs_for(tier):
    """quick: the single-URI engine entry for both character types and the state-based entry; the remaining entry
    points are thin wrappers decided by wrapper_check.  thorough: every entry point explored in full"""
    if tier == 'thorough':
        return [(s, e) for e in FULL for s in ('A', 'W')]
    return list(QUICK) + [('A', 'state-ex')]


def wrapper_jobs(tier):
    done = set(jobs_for(tier))
    out = []
    for e in WRAPPERS:
        for s in ('A', 'W'):
            out.append((s, e))
    return out


def verdict_of_final(r, f, codes):
    """returns (rule, ok, detail, used_exception)"""
    q, age, lit, dil = f['m']
    alive = age is None
    accepting = alive and q in r['accept_set']
    ret = f['ret']
    if f['oom']:
        return None
    if ret is None or ret[0] != 'i':
        return ('result-code', False, 'returns %r' % (ret,), False)
    code = ret[1]
    if f['errcode'] is not None and code != codes['URI_SUCCESS'] and f['errcode'] != ret:
        return ('result-code', False, 'returns %d but state.errorCode is %r' % (code, f['errcode']), False)
    if code == codes['URI_SUCCESS']:
        if not f['eof']:
            return ('accept-iff-grammar', False, 'reports success without having compared the stop position with afterLast', False)
        if not accepting:
            return ('accept-iff-grammar', False, 'accepts a string that is not a URI-reference (specification state %d%s)'
                    % (q, '' if alive else ', dead'), False)
        return ('accept-iff-grammar', True, 'accepted, specification state %d accepting' % q, False)
    if code != codes['URI_ERROR_SYNTAX']:
        return ('result-code', False, 'returns code %d for a syntax outcome' % code, False)
    if alive and not f['eof']:
        return ('accept-iff-grammar', False, 'rejects while the text read so far still has a valid completion and the end '
                'of the range has not been seen (specification state %d)' % q, False)
    if alive and accepting:
        return ('accept-iff-grammar', False, 'rejects a string that is a URI-reference (specification state %d)' % q, False)
    ep = f['errpos']
    if ep is None or ep == ('i', 0):
        return ('error-position', False, 'syntax error reported with a NULL error position', False)
    if ep[0] == 'e':
        if not f['eof']:
            return ('error-position', False, 'error position afterLast reported although the end of the range was not reached', False)
        dist = 0
    elif ep[0] == 'p':
        dist = -ep[1]
        if dist < 0:
            return ('error-position', False, 'error position %d past the last character read' % -dist, False)
    else:
        return ('error-position', False, 'error position is %r, not a position inside the input' % (ep,), False)
    if alive:
        if dist == 0 and f['eof']:
            return ('error-position', True, 'incomplete text: position = end of input', False)
        return ('error-position', False, 'text is merely incomplete (specification state %d alive) but the reported position is '
                '%d before the end of input' % (q, dist), False)
    if dist == age and age < CAP:
        return ('error-position', True, 'position = first character without valid completion (%d behind the read position)' % dist, False)
    if dil and (lit is None or dist <= lit):
        return ('error-position', True, 'offending character inside a bracketed literal; reported %d, offending %d behind the read '
                'position, same literal' % (dist, age), True)
    return ('error-position', False, 'error position is %d characters behind the read position, but the first character without '
            'valid completion is %s behind%s' % (dist, age if age < CAP else '>=%d' % CAP,
                                              ' (offending character not inside a bracketed literal)' if not dil else ''), False)


def run(ctx, chk):
    codes = dict((k, ctx.prog.macros.get(k)) for k in ('URI_SUCCESS', 'URI_ERROR_SYNTAX', 'URI_ERROR_MALLOC'))
    if any(v is None for v in codes.values()):
        raise AnalysisBroken('error code macros not found')
    chk.explanation = ('E1 abstract interpretation of the parser source (all functions reachable from the public parse entry points '
                       'that see the input, the parser state or the URI) over a lazily read stream of symbol classes, explored '
                       'exhaustively in product with the minimal DFA of RFC 3986 Appendix A (183 states). The abstraction is exact '
                       'for control: whenever a value it abstracted would decide a branch the run aborts as analysis-broken. One '
                       'obligation per reachable final configuration (implementation outcome x specification state): success iff '
                       'the DFA accepts at end of input; every rejection returns URI_ERROR_SYNTAX with a non-NULL position equal to '
                       'the first character after which the DFA is dead (end of input if it is merely non-accepting), or, only when '
                       'that character lies inside a bracketed literal, another position inside the same literal. Strings of every '
                       'length are covered because the product automaton is finite and explored completely.')
    chk.rule('accept-iff-grammar', 'a final configuration returns URI_SUCCESS iff the RFC 3986 DFA accepts the whole input', floor=500)
    chk.rule('error-position', 'a rejecting final configuration reports a non-NULL position: the first character after which no '
             'valid completion exists, end of input if merely incomplete; elsewhere only inside the same bracketed literal', floor=500)
    chk.rule('result-code', 'rejections return URI_ERROR_SYNTAX (URI_ERROR_MALLOC only after a failed allocation); state-based entry '
             'points store the same code', floor=1)
    chk.rule('depends-only-on-range', 'no character at or beyond afterLast is read on any path (necessary for the outcome to be a '
             'function of the given sequence alone); one obligation per exploration, violated by every over-read found', floor=1)
    chk.rule('entry-wrappers', 'the thin entry points forward the range (or text, text + strlen(text)) and every other argument '
             'unchanged to the explored engine and return its result unchanged', floor=8)
    wr = []
    for (s, e) in wrapper_jobs(chk.tier):
        w = wrapper_check(ctx, s, e)
        wr.append(w)
        chk.add('entry-wrappers', 'wrapper:%s:%s' % (w['function'], e), w['ok'], w['loc'],
                ('forwards to %s unchanged' % w['callee']) if w['ok'] else '; '.join(w['problems']), func=w['function'])
    chk.analysed['wrappers'] = [dict((k, v) for k, v in w.items() if k in ('function', 'callee', 'entry', 'ok', 'states')) for w in wr]
    jobs = [(s, e, 'dfa') for (s, e) in jobs_for(chk.tier)]
    results = get_many(jobs)
    stats = {}
    exc_used = 0
    sampled = []
    for (suf, entry), r in sorted(results.items()):
        r['accept_set'] = set(r['accept'])
        tag = '%s/%s' % (r['function'], entry)
        stats[tag] = {'abstract_states': r['states'], 'transitions': r['transitions'], 'final_configurations': len(r['finals']),
                      'symbol_classes': len(r['classes']), 'interpreted_functions': len(r['functions']),
                      'pre_analysis_states': r['pre_states'], 'alphabet_refinements': r['restarts'], 'wall_s': round(r['wall'], 1),
                      'max_call_depth': r['max_depth'], 'cache': r['cache']}
        floc = ctx.irp.funcs[r['function']].loc
        for f in r['findings']:
            # over-reads etc. belong to C03; a non-terminating or otherwise broken run is also a C01 problem
            if f['rule'] == 'no-over-read':
                chk.bad('depends-only-on-range', 'e1:%s/%s' % (f['key'], fmt_loc(f['loc']) if False else f['key']), f['loc'],
                        '%s via %s: %s, so the outcome can depend on what follows the range; shortest input: %r %s'
                        % (r['function'], entry, f['detail'], f['witness'], ' '.join(f['notes'])), func=r['function'])
            if f['rule'] in ('termination', 'null-deref'):
                chk.bad('result-code', 'e1:%s/%s' % (f['rule'], f['key']), f['loc'], '%s; input %r %s' % (f['detail'], f['witness'], f['notes']),
                        func=r['function'])
        if not any(f['rule'] == 'no-over-read' for f in r['findings']):
            chk.ok('depends-only-on-range', 'e1:%s' % tag, floc, 'no read at or past afterLast in %d abstract states' % r['states'],
                   func=r['function'])
        if r.get('sampled'):
            sampled.append(tag)
        for f in r['finals']:
            v = verdict_of_final(r, f, codes)
            if v is None:
                continue
            rule, ok, detail, exc = v
            q, age, lit, dil = f['m']
            key = 'final:%s:q%d:%s:%s' % (suf, q, 'alive' if age is None else 'dead%d' % age, f['ret'][1] if f['ret'] else None)
            if exc:
                exc_used += 1
            if ok:
                chk.ok(rule, key, floc, detail, func=r['function'])
                if rule == 'error-position':
                    chk.ok('result-code', key, floc, 'URI_ERROR_SYNTAX', func=r['function'])
            else:
                text, notes = witness_of(r, f['nid'])
                chk.bad(rule, 'spec-q%d/%s/%s' % (q, 'alive' if age is None else 'dead', rule), floc,
                        '%s via %s: %s; shortest input reaching this configuration: %r %s'
                        % (r['function'], entry, detail, text, ' '.join(notes)), func=r['function'])
    if sampled and all(o.ok for o in chk.obls):
        raise AnalysisBroken('arithmetic on character values outside 0..255 was evaluated on representatives only in %s and no '
                             'violation was found: the result would not cover all wide characters' % ', '.join(sampled))
    if chk.tier == 'thorough' and all(o.ok for o in chk.obls):
        from ..selfval import validate
        nval, bad = validate(ctx, results, codes)
        if bad:
            raise AnalysisBroken('extractor self-validation failed (%d of %d traces): %s' % (len(bad), nval, '; '.join(bad[:3])))
        chk.extra['traces_validated_against_impl'] = nval
        chk.analysed['self_validation'] = ('%d witness inputs (one per final configuration of the single-URI entry, both character '
                                           'types) run through the parser compiled from the current sources: return code and error '
                                           'position agree with the model on every one' % nval)
    chk.analysed['explorations'] = stats
    any_r = list(results.values())[0]
    chk.analysed['specification'] = dict(any_r['dfa'], source='uv/rfc3986.abnf (RFC 3986 Appendix A)')
    chk.analysed['interpreted_functions'] = sorted(set(f for r in results.values() for f in r['functions']))
    chk.analysed['opaque_callees'] = sorted(set(f for r in results.values() for f in r['opaque']))
    chk.analysed['bracket_exception_used_by_final_configurations'] = exc_used
    chk.assumptions += ['the memory manager passed in is complete (uriMemoryManagerIsComplete returns true)',
                        'uriFreeUriMembersMm releases what hangs off the URI and resets those fields (its body is checked under C13/C03)',
                        'uriParseIpFourAddress returns success or failure without influencing the outcome code (both explored)']
    chk.trusted += ['ABNF transcription uv/rfc3986.abnf (validated by the 183-state minimal DFA the property text quotes)',
                    'E1 abstract machine uv/e1.py (exact for control or aborts)']
