"""C16 -- percent-escaping is lossless, bounded and safe in place (transducer extraction)."""
from ..frontend import fmt_loc, AnalysisBroken
from ..symexec import SymExec, PState, Lin, Ptr, NULLP, wrap_int
from ..transducer import make_pure_call_hook
from ..ir import call_target
from ..tables import base_name

RETRY_INLINED = True
LEVEL = 'proof'

UNRESERVED = set(b'ABCDEFGHIJKLMNOPQRSTUVWXYZabcdefghijklmnopqrstuvwxyz0123456789-._~')
HEXUP = set(b'0123456789ABCDEF')
HEXALL = set(b'0123456789ABCDEFabcdef')


class Stepper(object):
    """explores single iterations of the character loop of f from concrete states"""

    def __init__(self, ctx, f, load_base):
        self.prog, self.irp, self.f = ctx.prog, ctx.irp, f
        self.se = SymExec(ctx.prog, f)
        self.se.on_call = make_pure_call_hook(ctx.prog, ctx.irp)
        hs = sorted(self.se.loops)
        if len(hs) != 1:
            raise AnalysisBroken('%s: expected exactly one character loop, found %d' % (f.name, len(hs)))
        self.header = [b for b in f.blocks if b.id == hs[0]][0]
        self.load_base = load_base
        self.se.stop_blocks = {self.header.id}
        self.se.no_summarise = True
        self.window = {}
        self.loads = []
        self.outside = []

        def on_load(se_, st, base, off, e):
            if base == self.load_base and off.is_const():
                self.loads.append(off.c)
                if off.c in self.window:
                    return Lin.const(self.window[off.c])
                self.outside.append((off.c, e.loc))
                return Lin.const(0)
            return None
        self.se.on_load = on_load
        self.runs = 0

    def step(self, env, window):
        se = self.se
        se.paths, se.stops, se.npaths = [], [], 0
        self.window, self.loads, self.outside = window, [], []
        st = PState()
        st.env = dict(env)
        for v in env.values():
            if isinstance(v, Ptr) and v.base != 'NULL':
                st.notes[('nonnull', v.base)] = True
        se.run(st, start=self.header)
        self.runs += 1
        res = []
        for (bid, s2) in se.stops:
            res.append(('next', s2, None, None))
        for (s2, v, loc) in se.paths:
            res.append(('ret', s2, v, loc))
        if len(res) != 1 or res[0][1].atoms:
            raise AnalysisBroken('%s: iteration from a concrete state is not deterministic (%d outcomes, atoms %s)'
                                 % (self.f.name, len(res), res[0][1].atoms if res else None))
        kind, s2, v, loc = res[0]
        stores = [(e[1], e[2].c if e[2].is_const() else None, e[5].c if isinstance(e[5], Lin) and e[5].is_const() else None, e[4])
                  for e in s2.events if e[0] == 'store']
        return kind, s2.env, stores, v, loc, list(self.loads), list(self.outside)


def char_values(suf):
    if suf == 'A':
        return list(range(-128, 128))
    return list(range(0, 256)) + [256, 0x130, 0x20AC, 0x10FFFF, -1, -128]


def code_point(v, suf):
    """code point 0..255 a character value stands for, or None for out-of-range wide values"""
    if suf == 'A':
        return v & 0xFF
    return v if 0 <= v <= 255 else None


def run(ctx, chk):
    prog, irp = ctx.prog, ctx.irp
    chk.explanation = ('The escape and unescape loops are turned into finite transducers from their source: one loop iteration '
                       'is explored by the symbolic executor for every concrete (input window, flags, CR state) - all 256 '
                       'character values (plus out-of-range wide values) for escape, the case-label partition x look-ahead for '
                       'unescape; helper tables (hex digit, hex letter) are evaluated from source. Obligations per transition: '
                       'escape consumes one character, emits <= 3 (<= 6 only with line-break normalisation) characters from the '
                       'allowed alphabet, stores no index beyond its advance, terminates with NUL at the returned cursor, never '
                       'reads at or beyond inAfterLast; unescape never advances the write cursor more than the read cursor, '
                       'stores only below the new read position, reads look-ahead only behind non-NUL characters, decodes every '
                       'well-formed triplet to 16*hi+lo, copies everything else, follows the break-conversion table; and the '
                       'composition unescape(escape(c)) is the identity (CR LF normalised form when requested) for every '
                       'character and state. No compiled code is run.')
    chk.rule('escape-transition', 'escape, per (character, spaceToPlus, normalizeBreaks, prevWasCr): input advance 1, output '
             'advance <= 3 (6 only if normalizeBreaks), every store index < advance, output alphabet = unreserved | %XX with '
             'upper-case hex | + only with spaceToPlus, triplet value = code point', floor=2000)
    chk.rule('escape-terminator', 'escape: at NUL (or at inAfterLast, tested before the read) a NUL is stored at the cursor and '
             'the cursor is returned; nothing at or after inAfterLast is read', floor=8)
    chk.rule('unescape-transition', 'unescape, per (window, plusToSpace, breakConversion, prevWasCr, read-write lag): write '
             'advance <= read advance, stores only below the new read position, look-ahead reads only behind non-NUL '
             'characters, well-formed triplets decode to 16*hi+lo (either hex case), malformed ones are copied unchanged, '
             'break conversion follows the documented table', floor=5000)
    chk.rule('unescape-terminator', 'unescape: at NUL the terminator is (re)written at the write cursor and the write cursor is '
             'returned', floor=8)
    chk.rule('round-trip', 'unescape(escape(c)) with matching plus/space option and URI_BR_DONT_TOUCH restores c for every '
             'character value and CR state; with normalizeBreaks every line break becomes CR LF', floor=2000)
    chk.rule('entry-wrappers', 'the NUL-terminated entry points forward to the explicit-range engines unchanged', floor=4)
    brk = dict((k, prog.enums.get(k)) for k in ('URI_BR_TO_LF', 'URI_BR_TO_CRLF', 'URI_BR_TO_CR', 'URI_BR_DONT_TOUCH'))
    if any(v is None for v in brk.values()):
        raise AnalysisBroken('break conversion constants not found')
    for suf in ('A', 'W'):
        esc = irp.funcs.get('uriEscapeEx' + suf)
        une = irp.funcs.get('uriUnescapeInPlaceEx' + suf)
        if esc is None or une is None:
            raise AnalysisBroken('escape functions not found for suffix %s' % suf)
        ES = Stepper(ctx, esc, 'in')
        US = Stepper(ctx, une, 'buf')
        ctype = 'char' if suf == 'A' else 'wchar_t'
        # ---------------- escape
        esc_table = {}
        for s2p in (0, 1):
            for nb in (0, 1):
                for prev in (0, 1):
                    for v in char_values(suf):
                        env = {'read': Ptr('in'), 'write': Ptr('out'), 'prevWasCr': Lin.const(prev), 'spaceToPlus': Lin.const(s2p),
                               'normalizeBreaks': Lin.const(nb), 'inAfterLast': NULLP, 'inFirst': Ptr('in'), 'out': Ptr('out')}
                        kind, e2, stores, rv, loc, loads, outside = ES.step(env, {0: v})
                        key = 'esc:%s/v=%d,s2p=%d,nb=%d,cr=%d' % (suf, v, s2p, nb, prev)
                        if v == 0:
                            ok = kind == 'ret' and [(s[1], s[2]) for s in stores if s[0] == 'out'] == [(0, 0)] \
                                and isinstance(rv, Ptr) and rv.base == 'out' and rv.off == Lin.const(0)
                            chk.add('escape-terminator', key, ok, loc or esc.loc,
                                    'NUL input: stores %s returns %r' % ([(s[1], s[2]) for s in stores], rv), func=esc.name)
                            continue
                        if kind != 'next':
                            chk.bad('escape-transition', key, loc or esc.loc, '%s returns in the middle of the text for character '
                                    'value %d' % (esc.name, v), func=esc.name)
                            continue
                        rd, wr = e2.get('read'), e2.get('write')
                        adv_in = rd.off.c if isinstance(rd, Ptr) and rd.off.is_const() else None
                        adv_out = wr.off.c if isinstance(wr, Ptr) and wr.off.is_const() else None
                        outs = sorted((s[1], s[2]) for s in stores if s[0] == 'out')
                        text = [val for (_i, val) in outs]
                        problems = []
                        if adv_in != 1:
                            problems.append('input advance %s' % adv_in)
                        if adv_out is None or adv_out > (6 if nb else 3):
                            problems.append('output advance %s exceeds the bound %d' % (adv_out, 6 if nb else 3))
                        if [i for (i, _v) in outs] != list(range(adv_out or 0)):
                            problems.append('store indices %s do not fill [0, advance)' % [i for (i, _v) in outs])
                        if outside or loads.count(0) != len(loads):
                            problems.append('reads beyond the current character %s' % loads)
                        # alphabet and meaning
                        decoded = decode_tokens(text, s2p)
                        if decoded is None:
                            problems.append('output %s is outside the escape alphabet' % text)
                        npv = e2.get('prevWasCr')
                        nprev = npv.c if isinstance(npv, Lin) and npv.is_const() else None
                        if nprev not in (0, 1):
                            problems.append('CR state not concrete')
                        esc_table[(v, s2p, nb, prev)] = (text, nprev)
                        if problems:
                            chk.bad('escape-transition', key, stores[0][3] if stores else esc.loc,
                                    '%s, character value %d (spaceToPlus=%d normalizeBreaks=%d prevWasCr=%d): %s'
                                    % (esc.name, v, s2p, nb, prev, '; '.join(problems)), func=esc.name)
                        else:
                            chk.ok('escape-transition', key, esc.loc, 'emits %s' % ''.join(chr(x) for x in text), func=esc.name)
        # explicit range: the end test precedes the read
        for s2p in (0, 1):
            env = {'read': Ptr('in'), 'write': Ptr('out'), 'prevWasCr': Lin.const(0), 'spaceToPlus': Lin.const(s2p),
                   'normalizeBreaks': Lin.const(0), 'inAfterLast': Ptr('in'), 'inFirst': Ptr('in'), 'out': Ptr('out')}
            kind, e2, stores, rv, loc, loads, outside = ES.step(env, {0: 65})
            ok = kind == 'ret' and not loads and [(s[1], s[2]) for s in stores if s[0] == 'out'] == [(0, 0)] and \
                isinstance(rv, Ptr) and rv.base == 'out' and rv.off == Lin.const(0)
            chk.add('escape-terminator', 'esc:%s/range-end,s2p=%d' % (suf, s2p), ok, loc or esc.loc,
                    'at inAfterLast: loads %s stores %s' % (loads, [(s[1], s[2]) for s in stores]), func=esc.name)
        # ---------------- unescape
        def ustep(window, p2s, bc, prev, lag):
            env = {'read': Ptr('buf', Lin.const(10)), 'write': Ptr('buf', Lin.const(10 - lag)), 'prevWasCr': Lin.const(prev),
                   'plusToSpace': Lin.const(p2s), 'breakConversion': Lin.const(bc), 'inout': Ptr('buf')}
            w = dict((10 + k, wrap_int(v, ctype)) for k, v in window.items())
            return US.step(env, w)
        labels = set()
        for b in une.blocks:
            if b.term[0] == 'switch':
                for val, _bb in b.term[2]:
                    labels.add(val)
        others = [x for x in (1, ord('g'), ord('G'), 127, -1 if suf == 'A' else 256, -128 if suf == 'A' else 0x130)
                  if x not in labels]
        first = sorted(labels | set(others))
        hexv = sorted(HEXALL)
        second = sorted(set(hexv) | {0} | set(others) | {ord('%'), ord('+')})
        n_un = 0
        for p2s in (0, 1):
            for bc in sorted(set(brk.values())):
                for prev in (0, 1):
                    for lag in (0, 4):
                        for c0 in first:
                            wins = [{0: c0}]
                            if c0 == ord('%'):
                                wins = []
                                for c1 in second:
                                    if c1 in HEXALL:
                                        for c2 in second:
                                            wins.append({0: c0, 1: c1, 2: c2})
                                    else:
                                        wins.append({0: c0, 1: c1})
                            for win in wins:
                                n_un += 1
                                full = dict(win)
                                # characters after the window are NUL: a read there is an over-read beyond the terminator
                                kind, e2, stores, rv, loc, loads, outside = ustep(full, p2s, bc, prev, lag)
                                key = 'une:%s/w=%s,p2s=%d,bc=%d,cr=%d,lag=%d' % (suf, [win[k] for k in sorted(win)], p2s, bc, prev, lag)
                                exp = expected_unescape(win, p2s, bc, prev, brk)
                                rel = sorted((s[1] - (10 - lag), s[2]) for s in stores if s[0] == 'buf')
                                problems = []
                                if c0 == 0:
                                    okt = kind == 'ret' and isinstance(rv, Ptr) and rv.off == Lin.const(10 - lag) and \
                                        (rel == [(0, 0)] or (lag == 0 and rel == []))
                                    chk.add('unescape-terminator', key, okt, loc or une.loc, 'at NUL: stores %s returns %r' % (rel, rv),
                                            func=une.name)
                                    continue
                                if kind != 'next':
                                    chk.bad('unescape-transition', key, loc or une.loc, '%s returns before the terminator' % une.name,
                                            func=une.name)
                                    continue
                                rd, wr = e2.get('read'), e2.get('write')
                                d_in = rd.off.c - 10
                                d_out = wr.off.c - (10 - lag)
                                if d_out > d_in:
                                    problems.append('write cursor advances %d but read cursor only %d' % (d_out, d_in))
                                for (i, _v) in rel:
                                    if (10 - lag) + i >= 10 + d_in:
                                        problems.append('stores at or beyond the new read position (index %d)' % i)
                                # look-ahead discipline
                                for off in sorted(set(loads)):
                                    k = off - 10
                                    for j in range(k):
                                        if full.get(j, 0) == 0:
                                            problems.append('reads position +%d although position +%d is the terminator' % (k, j))
                                if outside and any(full.get(o - 10 - 1, 0) == 0 for (o, _l) in outside):
                                    pass
                                got_out = [v for (_i, v) in rel]
                                if lag == 0:
                                    # with read == write unchanged characters need not be stored: fill from the input
                                    got = []
                                    st_map = dict(rel)
                                    for i in range(d_out):
                                        got.append(st_map.get(i, full.get(i, 0)))
                                    got_out = got
                                elif [i for (i, _v) in rel] != list(range(d_out)):
                                    problems.append('store indices %s do not fill [0, %d)' % ([i for (i, _v) in rel], d_out))
                                npv = e2.get('prevWasCr')
                                nprev = npv.c if isinstance(npv, Lin) and npv.is_const() else None
                                if exp is not None:
                                    eout, eadv, eprev = exp
                                    eout = [wrap_int(x, ctype) for x in eout]
                                    if got_out != eout or d_in != eadv:
                                        problems.append('decodes to %s consuming %d, expected %s consuming %d' % (got_out, d_in, eout, eadv))
                                    if eprev is not None and nprev != eprev and bc != brk['URI_BR_DONT_TOUCH']:
                                        problems.append('CR state %s, expected %s' % (nprev, eprev))
                                if problems:
                                    chk.bad('unescape-transition', key, stores[0][3] if stores else une.loc, '%s window %s plusToSpace=%d '
                                            'breakConversion=%d prevWasCr=%d: %s' % (une.name, [win[k] for k in sorted(win)], p2s, bc, prev,
                                                                                     '; '.join(problems[:3])), func=une.name)
                                else:
                                    chk.ok('unescape-transition', key, une.loc, 'emits %s consumes %d' % (got_out, d_in), func=une.name)
        # ---------------- round trip
        dont = brk['URI_BR_DONT_TOUCH']
        for (v, s2p, nb, prev), (text, nprev) in sorted(esc_table.items()):
            cp = code_point(v, suf)
            if cp is None or cp == 0:
                continue
            # run the unescape transducer over the emitted text
            buf = list(text) + [0]
            pos = 0
            out = []
            upv = 0
            bad = None
            guard = 0
            while pos < len(buf) and buf[pos] != 0:
                guard += 1
                if guard > 10:
                    bad = 'does not terminate'
                    break
                win = {0: buf[pos]}
                if pos + 1 < len(buf):
                    win[1] = buf[pos + 1]
                if pos + 2 < len(buf):
                    win[2] = buf[pos + 2]
                kind, e2, stores, rv, loc, loads, outside = ustep(win, s2p, dont, upv, 4)
                if kind != 'next':
                    bad = 'unescape stops inside the escaped text'
                    break
                d_in = e2['read'].off.c - 10
                rel = sorted((s[1] - 6, s[2]) for s in stores if s[0] == 'buf')
                out.extend(x for (_i, x) in rel)
                upv = e2['prevWasCr'].c if isinstance(e2.get('prevWasCr'), Lin) and e2['prevWasCr'].is_const() else 0
                pos += d_in
            if nb and cp == 13:
                want = [13, 10]
            elif nb and cp == 10:
                want = [] if prev else [13, 10]
            else:
                want = [cp]
            want = [wrap_int(x, ctype) for x in want]
            key = 'rt:%s/v=%d,s2p=%d,nb=%d,cr=%d' % (suf, v, s2p, nb, prev)
            if bad is None and out == want:
                chk.ok('round-trip', key, esc.loc, '%s -> %s -> %s' % (cp, ''.join(chr(x) for x in text), out), func=esc.name)
            else:
                chk.bad('round-trip', key, esc.loc, '%s: character value %d (code point %d, spaceToPlus=%d normalizeBreaks=%d '
                        'prevWasCr=%d) is escaped as "%s", which unescapes to %s instead of %s%s'
                        % (esc.name, v, cp, s2p, nb, prev, ''.join(chr(x) if 32 <= x < 127 else '\\x%02x' % (x & 0xff) for x in text),
                           out, want, (' (' + bad + ')') if bad else ''), func=esc.name)
            # CR state of the escaper must follow the input
            wantprev = 1 if cp == 13 else 0
            if nprev != wantprev:
                chk.bad('round-trip', key + '/state', esc.loc, '%s: after character value %d (spaceToPlus=%d normalizeBreaks=%d) the '
                        'CR state is %s, expected %d: a following line feed would be %s' %
                        (esc.name, v, s2p, nb, nprev, wantprev, 'dropped' if nprev else 'doubled'), func=esc.name)
        chk.analysed.setdefault('iterations_explored', {})[suf] = {'escape': ES.runs, 'unescape': US.runs}
        # ---------------- wrappers
        for wname, engine in (('uriEscape' + suf, esc.name), ('uriUnescapeInPlace' + suf, une.name)):
            wf = irp.funcs.get(wname)
            if wf is None:
                raise AnalysisBroken('%s not found' % wname)
            calls = [i for b in wf.blocks for i in b.ins if i.op == 'call']
            ok = len(calls) == 1 and call_target(calls[0]) == engine and len(wf.blocks) == 1
            chk.add('entry-wrappers', 'wrapper:%s' % base_name(wname), ok, wf.loc, '%s forwards to %s' % (wname, engine), func=wname)


def decode_tokens(text, s2p):
    """list of code points the emitted text stands for, or None if outside the alphabet"""
    out = []
    i = 0
    while i < len(text):
        c = text[i]
        if c is None:
            return None
        if c == ord('%'):
            if i + 2 >= len(text) or text[i + 1] not in HEXUP or text[i + 2] not in HEXUP:
                return None
            out.append(int(chr(text[i + 1]) + chr(text[i + 2]), 16))
            i += 3
        elif c == ord('+'):
            if not s2p:
                return None
            out.append(32)
            i += 1
        elif c in UNRESERVED:
            out.append(c)
            i += 1
        else:
            return None
    return out


def expected_unescape(win, p2s, bc, prev, brk):
    """(output, input advance, next CR state) for one step of the documented unescape behaviour"""
    c0 = win.get(0, 0)
    if c0 == ord('%'):
        c1, c2 = win.get(1, 0), win.get(2, 0)
        if c1 in HEXALL and c2 in HEXALL:
            code = int(chr(c1) + chr(c2), 16)
            if code == 10:
                if bc == brk['URI_BR_TO_LF']:
                    return ([] if prev else [10]), 3, 0
                if bc == brk['URI_BR_TO_CRLF']:
                    return ([] if prev else [13, 10]), 3, 0
                if bc == brk['URI_BR_TO_CR']:
                    return ([] if prev else [13]), 3, 0
                return [10], 3, 0
            if code == 13:
                if bc == brk['URI_BR_TO_LF']:
                    return [10], 3, 1
                if bc == brk['URI_BR_TO_CRLF']:
                    return [13, 10], 3, 1
                if bc == brk['URI_BR_TO_CR']:
                    return [13], 3, 1
                return [13], 3, 1
            return [code], 3, 0
        if c1 in HEXALL:
            return [c0, c1], 2, 0
        return [c0], 1, 0
    if c0 == ord('+'):
        return ([32] if p2s else [c0]), 1, 0
    return [c0], 1, 0
