"""C02 -- parsed components are the exact RFC 3986 sub-ranges of the input.

quick: presence / emptiness / host kind / absolute-path flag / segment presence decided for ALL inputs by the E1
exploration in product with indicator automata derived from the ABNF; IPv4 classification (language of the IPv4
recogniser = IPv4address, called on exactly the host range, result kept iff it succeeded); address bytes by evaluating
the parser from source on every IPv6 shape and on value tables; list shape of the segment push.
thorough: exact component boundaries by pebble automata (see run_pebbles)."""
import ipaddress
import itertools

from ..frontend import AnalysisBroken, fmt_loc
from ..ir import call_target, strip_casts
from ..cfgutil import expr_key
from ..pathenum import enumerate_paths
from ..e1results import get_many, witness_of
from ..e1 import Imprecise
from ..e1explore import Concrete, URI, ERRPOS
from ..e1 import END, MEM, NULL, SAFE
from ..tables import base_name
from .. import resolverules as RR

LEVEL = 'other'

RANGES = {'scheme': ('scheme',), 'userinfo': ('userInfo',), 'authority': ('hostText',), 'port': ('portText',), 'query': ('query',),
          'fragment': ('fragment',), 'future': ('hostData', 'ipFuture')}


def present(regs, path):
    a, b = regs.get(path + ('first',)), regs.get(path + ('afterLast',))
    return a, b


def check_final(f):
    """list of (key, text) discrepancies between the URI structure and the indicator automata"""
    ind, regs = f['ind'], f['regs']
    out = []
    for name, path in RANGES.items():
        a, b = present(regs, path)
        an, bn = a == NULL, b == NULL
        if a is None or b is None or a[0] == 't' or b[0] == 't':
            out.append(('undetermined:%s' % '.'.join(path), 'range %s is not determined at the end of the parse (%r, %r)' % ('.'.join(path), a, b)))
            continue
        if an != bn:
            out.append(('half-set:%s' % '.'.join(path), 'range %s has exactly one end set (first=%r afterLast=%r)' % ('.'.join(path), a, b)))
            continue
        if (not an) != ind[name]:
            out.append(('presence:%s' % name, 'component %s is reported %s but the grammar says %s'
                        % (name, 'present' if not an else 'absent', 'present' if ind[name] else 'absent')))
    ip6 = regs.get(('hostData', 'ip6'))
    if (ip6 != NULL) != ind['ip6']:
        out.append(('kind:ip6', 'IPv6 address block is %s but the host %s an IPv6 literal' % ('set' if ip6 != NULL else 'not set',
                                                                                              'is' if ind['ip6'] else 'is not')))
    ip4 = regs.get(('hostData', 'ip4'))
    if ip4 != NULL and (not ind['authority'] or ind['ip6'] or ind['future']):
        out.append(('kind:ip4', 'IPv4 address block set on a URI whose host is not a dotted name'))
    ab = regs.get(('absolutePath',))
    if ab not in (('i', 0), ('i', 1)) or (ab == ('i', 1)) != ind['abs']:
        out.append(('absolute-path', 'absolutePath is %r but the grammar says the reference %s a host-less path beginning with "/"'
                    % (ab, 'has' if ind['abs'] else 'does not have')))
    ph, pt = regs.get(('pathHead',)), regs.get(('pathTail',))
    if (ph == NULL) != (pt == NULL):
        out.append(('list:head-tail', 'exactly one of pathHead / pathTail is NULL'))
    elif (ph != NULL) != ind['segments']:
        out.append(('list:segments', 'segment list is %s but the grammar says the path %s segments'
                    % ('non-empty' if ph != NULL else 'empty', 'has' if ind['segments'] else 'has no')))
    ht = regs.get(('hostText', 'first'))
    if ht == SAFE and not ind['host-empty']:
        out.append(('host-placeholder', 'host text is the placeholder although the host is not empty'))
    if ind['authority'] and ab == ('i', 1):
        out.append(('host-and-flag', 'host set together with the absolute-path flag'))
    if regs.get(('owner',)) != ('i', 0):
        out.append(('owner', 'owner flag is %r after parsing' % (regs.get(('owner',)),)))
    return out


def rule_ip4_sites(ctx, chk, suf):
    """every call of the IPv4 recogniser in the parser unit passes (ip4->data, hostText.first, hostText.afterLast) of the
    URI being built, frees and clears ip4 iff the recogniser failed"""
    irp = ctx.irp
    target = 'uriParseIpFourAddress' + suf
    n = 0
    for name, f in sorted(irp.funcs.items()):
        if f.unit != 'src/UriParse.c' or not name.endswith(suf) or '_TESTING_ONLY_' in name:
            continue
        if not any(i.op == 'call' and call_target(i) == target for b in f.blocks for i in b.ins):
            continue
        for p in enumerate_paths(ctx.prog, f):
            calls = [e for e in p.events if e[0] == 'call' and e[1] == target]
            for e in calls:
                n += 1
                args = e[2]
                okargs = (args[0].endswith('->uri->hostData.ip4->data') and args[1].endswith('->uri->hostText.first')
                          and args[2].endswith('->uri->hostText.afterLast') and args[1].split('->uri')[0] == args[2].split('->uri')[0])
                c = p.conds()
                failed = c.get(e[3])
                a = RR.amap(p)
                ip4key = args[0][:-len('->data')]
                cleared = a.get(ip4key) == '0' and any(x[0] == 'call' and x[1] == 'memory->free' and x[2][-1] == ip4key for x in p.events)
                hostend = [x for x in p.events if x[0] == 'assign' and x[1].endswith('hostText.afterLast')]
                # the host end is written in the same function: it has to be written before the recogniser reads it
                idx_call = p.events.index(e)
                ends_before = [x for x in p.events[:idx_call] if x[0] == 'assign' and x[1].endswith('hostText.afterLast')]
                ends_after = [x for x in p.events[idx_call:] if x[0] == 'assign' and x[1].endswith('hostText.afterLast')]
                stale = bool(ends_after) and not ends_before
                if stale:
                    chk.bad('ip4-classification', 'ip4-site:%s:stale-end' % base_name(name), e[4], '%s: the recogniser is called on (hostText.first, '
                            'hostText.afterLast) before this function has written the host end (written afterwards on the same path): it '
                            'classifies a stale range' % name, func=name)
                ok = okargs and failed is not None and (cleared == bool(failed))
                chk.add('ip4-classification', 'ip4-site:%s:%s' % (name, 'fail' if failed else 'ok'), ok, e[4],
                        '%s: recogniser called on (%s, %s); result %s; address block %s'
                        % (name, args[1], args[2], 'failure' if failed else 'success', 'released and cleared' if cleared else 'kept'),
                        func=name)
    return n


def rule_push_shape(ctx, chk, suf):
    f = RR.fn(ctx, 'uriPushPathSegment', suf)
    st = f.params[0]
    for p in RR.success_paths(enumerate_paths(ctx.prog, f)):
        a = RR.amap(p)
        c = p.conds()
        node = a.get('%s->uri->pathTail' % st, '')
        probs = []
        if not node.startswith('memory->calloc'):
            probs.append('pathTail is not the new zero-initialised node')
        headnull = c.get('%s->uri->pathHead' % st)
        if headnull is False:
            if a.get('%s->uri->pathHead' % st) != node:
                probs.append('first node does not become the head')
        elif a.get('%s->uri->pathTail->next' % st) != node:
            probs.append('old tail is not linked to the new node')
        fk, lk = a.get(node + '->text.first'), a.get(node + '->text.afterLast')
        eq = c.get('(%s == %s)' % (f.params[1], f.params[2]))
        if eq is None:
            eq = c.get('(%s == %s)' % (f.params[2], f.params[1]))
        safe = 'uriSafeToPointTo' + suf
        if eq is True and not ((fk, lk) == (safe, safe) or (fk, lk) == (f.params[1], f.params[2])):
            probs.append('empty segment gets (%s, %s)' % (fk, lk))
        if eq is False and (fk, lk) != (f.params[1], f.params[2]):
            probs.append('segment text is (%s, %s), not the (first, afterLast) passed in' % (fk, lk))
        chk.add('push-shape', 'push:%s:%s' % (suf, 'first' if headnull is False else 'append') + (':' + probs[0] if probs else ''),
                not probs, p.retloc, '; '.join(probs) or 'new node appended, becomes the tail, text = the range passed in', func=f.name)


IPV6_GROUPS = ['1111', '22', '3', 'abcd', 'EF01', '0', '9a9', 'ffff']


def ipv6_shapes():
    """every shape of an IPv6 literal: number of groups before and after '::' (or none), with or without IPv4 tail"""
    out = []
    for v4 in (False, True):
        total = 6 if v4 else 8
        gs = IPV6_GROUPS
        out.append((':'.join(gs[:total]) + (':1.2.3.4' if v4 else ''),))
        for before in range(0, total):
            for after in range(0, total - before):
                if before + after > total - 1:
                    continue
                left = ':'.join(gs[:before])
                right = ':'.join(gs[before:before + after])
                t = left + '::' + right
                if v4:
                    t = t + ('' if t.endswith(':') else ':') + '1.2.3.4'
                out.append((t,))
    return sorted(set(x[0] for x in out))


def rule_address_bytes(ctx, chk, suf):
    fname = 'uriParseSingleUriExMm' + suf
    conc = Concrete(ctx, suf, fname)
    floc = ctx.irp.funcs[fname].loc

    def parse(t):
        r, env = conc.call([('a', URI, ()), ('p', -len(t)), END, ('a', ERRPOS, ()), MEM], [ord(x) for x in t])
        out = {}
        for nm, n in (('ip4', 4), ('ip6', 16)):
            p = env.get((URI, ('hostData', nm)))
            if p and p[0] == 'a':
                out[nm] = [conc.int_of(env.get((p[1], ('data', k)))) for k in range(n)]
        return r, out
    texts = ipv6_shapes()
    for t in texts:
        want = list(ipaddress.IPv6Address(t).packed)
        r, got = parse('//[' + t + ']')
        chk.add('address-bytes', 'ip6-shape:%s:%s' % (suf, t), r == ('i', 0) and got.get('ip6') == want, floc,
                '[%s] stored as %r, value written is %r' % (t, got.get('ip6'), want), func=fname)
    hexd = '0123456789abcdefABCDEF'
    for ln in (1, 2, 3, 4):
        for pos in range(ln):
            for d in hexd:
                g = ['7'] * ln
                g[pos] = d
                t = '%s::' % ''.join(g)
                want = list(ipaddress.IPv6Address(t).packed)
                r, got = parse('//[' + t + ']')
                chk.add('address-bytes', 'ip6-digit:%s:%s' % (suf, ''.join(g)), r == ('i', 0) and got.get('ip6') == want, floc,
                        'group %s stored as %r' % (''.join(g), (got.get('ip6') or [None, None])[:2]), func=fname)
    for v in range(256):
        for t, key in (('%d.0.10.100' % v, 'first'), ('200.99.9.%d' % v, 'last')):
            r, got = parse('//' + t)
            want = [int(x) for x in t.split('.')]
            chk.add('address-bytes', 'ip4-octet:%s:%s:%d' % (suf, key, v), r == ('i', 0) and got.get('ip4') == want, floc,
                    '%s stored as %r' % (t, got.get('ip4')), func=fname)
        t = '::%d.1.2.%d' % (v, 255 - v)
        want = list(ipaddress.IPv6Address(t).packed)
        r, got = parse('//[' + t + ']')
        chk.add('address-bytes', 'ip6-octet:%s:%d' % (suf, v), r == ('i', 0) and got.get('ip6') == want, floc,
                '[%s] stored as %r' % (t, (got.get('ip6') or [])[12:]), func=fname)
    return len(texts)


def sample_family():
    """URI references covering every combination of component shapes (multi-character, empty, absent)"""
    schemes = [None, 's', 'ab+c']
    auths = [None, 'h', '', 'u@h', 'u:p@h', 'h:8', 'h:', 'u@h:80', '[::1]', 'u@[1:2::3]', '[v1.a]:9', '1.2.3.4', 'u@', '@h', 'a.b:0']
    paths = ['', '/', '/a', '/ab/c', 'a', 'ab/c', 'a/', '//x', './a', '/a//b/', 'a:b', '%41b/c']
    queries = [None, '', 'q=1', 'a/b?c']
    frags = [None, '', 'fr', 'x?y/z']
    out = []
    for sc in schemes:
        for au in auths:
            for pa in paths:
                if au is not None and pa and not pa.startswith('/'):
                    continue
                if au is None and pa.startswith('//'):
                    continue
                if sc is None and au is None and ':' in pa.split('/')[0]:
                    continue
                for q in queries:
                    for fr in frags:
                        if (q and fr and len(q) > 1 and len(fr) > 2):
                            continue
                        t = ''
                        if sc is not None:
                            t += sc + ':'
                        if au is not None:
                            t += '//' + au
                        t += pa
                        if q is not None:
                            t += '?' + q
                        if fr is not None:
                            t += '#' + fr
                        out.append(t)
    return sorted(set(out))


def spec_positions(t, pdfas):
    """position of every boundary according to the pebbled automata (None = component absent); segments: sets"""
    from ..e1monitor import BOUNDARIES
    res = {}
    for (name, _p, _tag, _e, multi), d in zip(BOUNDARIES, pdfas):
        cls = [d.class_of[ord(ch)] for ch in t]
        pos = []
        for p in list(range(len(t) + 1)) + [None]:
            q = 0
            for i, c in enumerate(cls):
                q = d.trans[q][c * 2 + (1 if i == p else 0)]
            if (q in d.accept_end) if p == len(t) else (q in d.accept):
                pos.append(p)
        if multi:
            res[name] = set(x for x in pos if x is not None)
        else:
            if len(pos) != 1:
                raise AnalysisBroken('pebbled automaton for %s gives positions %r on %r' % (name, pos, t))
            res[name] = pos[0]
    return res


def rule_boundary_samples(ctx, chk, suf):
    from ..abnf import pebble_dfa, rfc3986_dfa
    from ..e1monitor import BOUNDARIES
    pdfas = [pebble_dfa(tag, end, multi) for (_n, _p, tag, end, multi) in BOUNDARIES]
    dfa, _info = rfc3986_dfa()
    fname = 'uriParseSingleUriExMm' + suf
    conc = Concrete(ctx, suf, fname)
    floc = ctx.irp.funcs[fname].loc
    n = 0
    for t in sample_family():
        if not dfa.accepts([ord(c) for c in t]):
            continue
        n += 1
        spec = spec_positions(t, pdfas)
        r, env = conc.call([('a', URI, ()), ('p', -len(t)), END, ('a', ERRPOS, ()), MEM], [ord(x) for x in t])
        L = len(t)

        def pos(v):
            if v is None or v == NULL:
                return None
            if v == END:
                return L
            if v[0] == 'p':
                return L + v[1]
            if v == SAFE:
                return 'placeholder'
            return ('?', v)
        probs = []
        if r != ('i', 0):
            probs.append('parser returns %r' % (r,))
        for (name, path, _tag, _e, multi) in BOUNDARIES:
            if multi:
                continue
            got = pos(env.get((URI, path)))
            want = spec[name]
            if got == 'placeholder':
                other = spec[name.split('.')[0] + ('.afterLast' if name.endswith('first') else '.first')]
                if want is None or other != want:
                    probs.append('%s is the placeholder but the component is %s' % (name, 'absent' if want is None else 'not empty'))
            elif got != want:
                probs.append('%s reported at %r, grammar says %r' % (name, got, want))
        # segments
        segs = []
        node = env.get((URI, ('pathHead',)))
        guard = 0
        last = None
        while node and node != NULL and node[0] == 'a' and guard < 50:
            a, b = pos(env.get((node[1], ('text', 'first')))), pos(env.get((node[1], ('text', 'afterLast'))))
            segs.append((a, b))
            last = node
            node = env.get((node[1], ('next',)), NULL)
            guard += 1
        firsts = set(a for a, b in segs if a != 'placeholder')
        lasts = set(b for a, b in segs if b != 'placeholder')
        if firsts != spec['segment.first'] or lasts != spec['segment.afterLast']:
            probs.append('non-empty segments reported at %r, grammar says begins %r ends %r'
                         % (sorted(x for x in segs if x[0] != 'placeholder'), sorted(spec['segment.first']),
                            sorted(spec['segment.afterLast'])))
        if any((a == 'placeholder') != (b == 'placeholder') or (a != 'placeholder' and not (a < b)) for a, b in segs):
            probs.append('segment with one placeholder end or an empty non-placeholder range: %r' % (segs,))
        tail = env.get((URI, ('pathTail',)))
        if (last is None) != (tail in (None, NULL)) or (last is not None and tail != last):
            probs.append('pathTail is not the last node of the list')
        chk.add('boundary-samples', 'sample:%s:%s' % (suf, t) if not probs else 'sample:%s' % probs[0][:80], not probs, floc,
                '%r: %s' % (t, '; '.join(probs) if probs else 'all 12 range ends and %d segments at the grammar positions' % len(segs)),
                func=fname)
    return n


def pebble_jobs(sufs):
    from ..e1monitor import BOUNDARIES
    return [(s, 'single-mm', 'peb:%d' % k) for s in sufs for k in range(len(BOUNDARIES))]


def rule_pebbles(ctx, chk, sufs):
    """exact boundaries for ALL inputs: one exploration per boundary, in product with its pebbled automaton"""
    from ..e1monitor import BOUNDARIES
    from ..e1results import get
    import os
    os.environ['E1_WORKERS'] = '12'
    stats = {}
    for (suf, entry, mk) in pebble_jobs(sufs):
        r = get(ctx, suf, entry, mk)
        k = int(mk.split(':')[1])
        name, path, _tag, _e, multi = BOUNDARIES[k]
        floc = ctx.irp.funcs[r['function']].loc
        stats['%s/%s' % (r['function'], name)] = {'abstract_states': r['states'], 'final_configurations': len(r['finals']),
                                                  'wall_s': round(r['wall'], 1), 'cache': r['cache']}
        for f in r['findings']:
            chk.bad('boundary-exact', 'e1:%s:%s' % (f['rule'], f['key']), f['loc'], '%s; input %r %s' % (f['detail'], f['witness'], f['notes']),
                    func=r['function'])
        nob = 0
        for f in r['finals']:
            pv = f['peb']
            if f['oom'] or f['ret'] != ('i', 0) or pv is None or pv['spec'] is None:
                continue
            placed = pv['pa'] not in (None, 'none')
            acc = pv['spec'][0]
            if not acc:
                continue
            nob += 1
            if multi:
                at = (pv['segb'] if name.endswith('first') else pv['sege']) == 1
                ok = at if placed else True
                val = 'a segment %s at the pebble: %s' % ('begins' if name.endswith('first') else 'ends', at)
            else:
                v = f['regs'].get(path)
                if placed:
                    ok = (v is not None and v[0] == 'pin' and v[1] is True) or (v == SAFE and path[0] == 'hostText')
                else:
                    ok = v == NULL
                val = 'register holds %r' % (v,)
            key = 'boundary:%s:%s:q%d:%s' % (suf, name, f['m'][0], 'at' if placed else 'absent')
            if ok:
                chk.ok('boundary-exact', key, floc, '%s; grammar: %s' % (val, 'boundary at the pebble' if placed else 'component absent'),
                       func=r['function'])
            else:
                text, notes = witness_of(r, f['nid'])
                chk.bad('boundary-exact', 'boundary:%s:%s' % (name, 'misplaced' if placed else 'present-but-absent'), floc,
                        '%s: the grammar puts %s %s but %s; shortest input: %r %s'
                        % (r['function'], name, 'at the pebbled position' if placed else 'nowhere (component absent)', val, text,
                           ' '.join(notes)), func=r['function'])
        if nob < 20:
            raise AnalysisBroken('pebble run for %s produced only %d obligations' % (name, nob))
    chk.analysed['pebble_explorations'] = stats


def run(ctx, chk):
    chk.explanation = ('(1) For ALL inputs: the E1 exploration of the parser source runs in product with indicator automata compiled from '
                       'the ABNF (URI vs relative-ref, authority, user info, port, query, fragment present; host kind IPv6 / IPvFuture / '
                       'IPv4; empty host; path-absolute; path has segments). Every accepting final configuration is an obligation: each '
                       'text range has both ends set or both NULL and is present exactly when the grammar says so (so absent vs empty '
                       'is decided), the IPv6 block and IPvFuture range exist exactly for those host kinds, absolutePath is set exactly '
                       'for host-less paths beginning with "/", the segment list is non-empty exactly when the path has segments, head '
                       'and tail are both set or both NULL, owner is false. (2) IPv4: the recogniser\'s language equals IPv4address '
                       '(its own exploration against the DFA of that rule), it is called on exactly (hostText.first, '
                       'hostText.afterLast) at every site, and the address block is kept iff it succeeded. (3) Address bytes: the '
                       'parser is evaluated from source on every IPv6 shape (groups before / after "::", with and without IPv4 '
                       'tail), on every hex digit in every position of a group, and on all 256 octet values (IPv4 host and embedded '
                       'IPv4), compared with the value written. (4) The segment push appends a zero-initialised node, makes it the '
                       'tail, stores exactly the range passed in (placeholder for an empty one). Thorough tier adds the exact '
                       'boundaries of every range by pebble automata.' if False else
                       '(1) For ALL inputs: the E1 exploration of the parser source runs in product with indicator automata compiled from '
                       'the ABNF (URI vs relative-ref, authority, user info, port, query, fragment present; host kind IPv6 / IPvFuture / '
                       'IPv4; empty host; path-absolute; path has segments). Every accepting final configuration is an obligation: each '
                       'text range has both ends set or both NULL and is present exactly when the grammar says so (so absent vs empty '
                       'is decided), the IPv6 block and IPvFuture range exist exactly for those host kinds, absolutePath is set exactly '
                       'for host-less paths beginning with "/", the segment list is non-empty exactly when the path has segments, head '
                       'and tail are both set or both NULL, owner is false. (2) IPv4: the recogniser\'s language equals IPv4address '
                       '(its own exploration against the DFA of that rule), it is called on exactly (hostText.first, '
                       'hostText.afterLast) at every site, and the address block is kept iff it succeeded. (3) Address bytes: the '
                       'parser is evaluated from source on every IPv6 shape (groups before / after "::", with and without IPv4 '
                       'tail), on every hex digit in every position of a group, and on all 256 octet values (IPv4 host and embedded '
                       'IPv4), compared with the value written. (4) The segment push appends a zero-initialised node, makes it the '
                       'tail, stores exactly the range passed in (placeholder for an empty one). (5) Exact boundaries: quick tier - the parser '
                       'is evaluated from source on a family of references covering every combination of component shapes and each of '
                       'the 12 range ends, every segment and the tail is compared with the position the pebbled automata (ABNF with the '
                       'rule occurrence tagged) assign; thorough tier - for ALL inputs, one exploration per boundary in product with its '
                       'pebbled automaton: whenever the grammar puts the boundary at the pebbled position the register is exactly there.')
    chk.rule('component-presence', 'accepting final configuration: ranges paired, present iff the grammar has the component, host kind '
             'blocks, absolute-path flag, segment list, owner - all equal to the indicator automata', floor=500)
    chk.rule('ip4-classification', 'IPv4 recogniser language = IPv4address; called on exactly the host range; block kept iff success', floor=8)
    chk.rule('address-bytes', 'stored IPv4 / IPv6 bytes equal the value written, for every literal shape and every digit / octet value',
             floor=600)
    chk.rule('boundary-samples', 'parser evaluated from source on a family of references covering every combination of component shapes: '
             'all 12 range ends, every segment and the tail sit exactly where the pebbled automata (compiled from the ABNF) put them',
             floor=1000)
    if chk.tier == 'thorough':
        chk.rule('boundary-exact', 'for ALL inputs: exploration in product with the pebbled automaton of each boundary - whenever the '
                 'grammar puts the boundary at the pebbled position the register (or a pushed segment) is exactly there; absent '
                 'component <=> NULL', floor=500)
    chk.rule('push-shape', 'the segment push appends a fresh zeroed node as the new tail with exactly the range passed in', floor=4)
    sufs = ('A', 'W')
    jobs = [(s, 'single-mm', 'cls') for s in sufs] + [(s, 'ip4', 'dfa') for s in sufs]
    if chk.tier == 'thorough':
        jobs += [(s, 'state-ex', 'cls') for s in sufs]
    results = get_many(jobs)
    stats = {}
    for (suf, entry), r in sorted(results.items()):
        tag = '%s/%s' % (r['function'], entry)
        floc = ctx.irp.funcs[r['function']].loc
        stats[tag] = {'abstract_states': r['states'], 'transitions': r['transitions'], 'final_configurations': len(r['finals']),
                      'wall_s': round(r['wall'], 1), 'cache': r['cache']}
        if entry == 'ip4':
            acc = set(r['accept'])
            for f in r['finals']:
                q, age = f['m'][0], f['m'][1]
                accepting = age is None and q in acc and f['eof']
                ok = (f['ret'] == ('i', 0)) == accepting
                chk.add('ip4-classification', 'ip4-lang:%s:q%d:%s:%s' % (suf, q, 'alive' if age is None else 'dead', f['ret']), ok, floc,
                        'recogniser returns %r in specification state %d (%s)' % (f['ret'], q, 'accepting' if accepting else 'not accepting'),
                        func=r['function'])
            continue
        for f in r['finals']:
            if f['oom'] or f['ret'] != ('i', 0):
                continue
            probs = check_final(f)
            q = f['m'][0]
            key = 'final:%s:%s:q%d:%s' % (suf, entry, q, ''.join('1' if f['ind'][k] else '0' for k in sorted(f['ind'])))
            if not probs:
                chk.ok('component-presence', key, floc, 'indicators %s' % sorted(k for k, v in f['ind'].items() if v), func=r['function'])
            else:
                text, notes = witness_of(r, f['nid'])
                for k, t in probs[:3]:
                    chk.bad('component-presence', 'presence:%s' % k, floc, '%s via %s: %s; shortest input: %r'
                            % (r['function'], entry, t, text), func=r['function'])
    for suf in sufs:
        rule_ip4_sites(ctx, chk, suf)
        rule_push_shape(ctx, chk, suf)
    shapes = 0
    nsamp = 0
    try:
        for suf in (sufs if chk.tier == 'thorough' else ('A',)):
            shapes = rule_address_bytes(ctx, chk, suf)
        for suf in (sufs if chk.tier == 'thorough' else ('A',)):
            nsamp = rule_boundary_samples(ctx, chk, suf)
    except Imprecise as ex:
        # the evaluation from source met something it does not model (e.g. a relational comparison with a null pointer).
        # If the structural rules have already named a violating construct that verdict stands; otherwise the analysis is broken.
        if not any(not o.ok for o in chk.obls):
            raise
        chk.analysed['evaluation_stopped'] = str(ex)
        for r in ('address-bytes', 'boundary-samples'):
            chk.floors.pop(r, None)
    chk.analysed['boundary_sample_inputs'] = nsamp
    if chk.tier == 'thorough':
        rule_pebbles(ctx, chk, ('A', 'W'))
    chk.analysed['explorations'] = stats
    chk.analysed['ipv6_shapes'] = shapes
    chk.assumptions += ['ABNF transcription uv/rfc3986.abnf and the indicator grammars derived from it by restricting alternatives '
                        '(uv/abnf.py INDICATORS)']
