"""C09 -- normalisation never changes what a reference identifies (partial: the clauses visible in the shape of the code).

NOT decided: resolve(normalize(R), B) = normalize(resolve(R, B)) for all R, B -- it rests on which predecessor a ".."
takes away in the segment list, a relation between two runs of the list algorithm over runtime data."""
from ..frontend import AnalysisBroken, fmt_loc
from ..ir import call_target, strip_casts, const_value, manager_call
from ..cfgutil import expr_key
from ..tables import base_name
from .c07 import reachable_from
from ..dotrules import rule_dot_removal

RETRY_INLINED = True
LEVEL = 'other'

PRESENCE = ('scheme.first', 'hostText.first', 'hostData.ip4', 'hostData.ip6', 'hostData.ipFuture.first')
REVERT = 'uriPreventLeakage'


def _member_path(e):
    e = strip_casts(e)
    path = []
    while e is not None and e.k == 'member':
        path.append(e.v)
        e = strip_casts(e.c[0])
    return '.'.join(reversed(path)), e


def run(ctx, chk):
    irp, prog = ctx.irp, ctx.prog
    chk.explanation = ('Partial: necessary conditions of C09 that are visible in the code of the normaliser. (a) No function reachable from '
                       'uriNormalizeSyntax* stores to the absolute-path flag or overwrites the URI structure as a whole, so (with the '
                       'recomposition template decided in C04) a relative path is never made absolute nor an absolute one relative. '
                       '(b) The fields that carry presence of scheme and authority (scheme.first, hostText.first, the host data pointers) '
                       'are set to NULL only inside the revert routine, and every call of the revert routine is followed on all paths by a '
                       'failure return - a successful normalisation removes neither. (c) Dot-segment removal in relative mode: a "." '
                       'is dropped only when it cannot be the guard of a following "a:b" segment; a ".." is dropped only with an '
                       'existing predecessor that is not ".." itself ("../x" keeps its target). (d) The removal loop does not itself '
                       'make the path of a relative, host-less reference empty. (d) FAILS on the current tree at two sites - recorded as '
                       'known findings, see known_findings.json. NOT decided: the commutation of normalisation with resolution for all '
                       'references and bases (which predecessor each ".." removes is a property of the run over the segment list), and '
                       'emptiness that arises when an already empty trailing segment becomes the only one ("./", "a/../").')
    chk.rule('flag-frame', 'no function reachable from the normalisation entry points writes the absolute-path flag or the URI structure as '
             'a whole', floor=2)
    chk.rule('presence-frame', 'scheme / authority presence fields are NULLed only in the revert routine, whose every call is followed by '
             'a failure return on all paths', floor=8)
    chk.rule('essential-dot', 'relative mode: "." dropped only if not the current head, or last, or next segment scanned without ":"', floor=2)
    chk.rule('trailing-dot', 'a "." that is the last segment and not the head is never released (it becomes the empty segment that '
             'stands for the trailing slash), in either mode', floor=2)
    chk.rule('updir-kept', 'relative mode: ".." dropped only with an existing predecessor established not to be ".."', floor=2)
    chk.rule('nonempty-relative', 'relative mode, no host established: the removal loop neither releases the last remaining segment nor '
             'leaves the empty placeholder as the only segment', floor=2)
    nfun = 0
    for suf in ('A', 'W'):
        roots = ['uriNormalizeSyntax' + suf, 'uriNormalizeSyntaxEx' + suf, 'uriNormalizeSyntaxExMm' + suf]
        for r in roots:
            if r not in irp.funcs:
                raise AnalysisBroken('%s not found' % r)
        funcs = reachable_from(irp, roots)
        nfun += len(funcs)
        flagw = []
        nulls = []
        revert_calls = []
        for name in sorted(funcs):
            f = irp.funcs[name]
            for b in f.blocks:
                for idx, i in enumerate(b.ins):
                    if i.op == 'assign' and i.dst is not None:
                        path, base = _member_path(i.dst)
                        last = path.split('.')[-1] if path else ''
                        dty = (strip_casts(i.dst).ty or '')
                        if last == 'absolutePath':
                            flagw.append((name, i.loc, 'stores to the absolute-path flag'))
                        elif 'UriUri' in dty.replace('Struct', '') and '*' not in dty and not path:
                            flagw.append((name, i.loc, 'overwrites a URI structure as a whole'))
                        if any(path == p or path.endswith('.' + p) for p in PRESENCE) and const_value(i.src, prog) == 0 \
                                and 'Uri' in ((base.ty if base is not None else '') or ''):
                            nulls.append((name, i.loc, path))
                    if i.op == 'call':
                        t = call_target(i)
                        if t and base_name(t) in ('uriResetUri',):
                            flagw.append((name, i.loc, 'calls %s' % t))
                        if t in ('memset', 'memcpy', 'memmove') and i.args and 'UriUri' in ((strip_casts(i.args[0]).ty or '').replace('Struct', '')):
                            flagw.append((name, i.loc, '%s over a URI structure' % t))
                        if t and base_name(t) == REVERT:
                            revert_calls.append((f, b, idx, i))
        if flagw:
            name, loc, what = flagw[0]
            chk.bad('flag-frame', 'flag-frame:%s' % base_name(name), loc, '%s (reachable from uriNormalizeSyntax%s) %s: the relative / '
                    'absolute kind of the path can change under normalisation' % (name, suf, what), func=name)
        else:
            chk.ok('flag-frame', 'flag-frame:%s' % suf, irp.funcs[roots[2]].loc, '%d reachable functions, no store to the flag' % len(funcs),
                   func=roots[2])
        if not nulls or not revert_calls:
            raise AnalysisBroken('revert routine / its NULL stores not found for %s' % suf)
        for name, loc, path in nulls:
            ok = base_name(name) == REVERT
            chk.add('presence-frame', 'null:%s:%s' % (name if ok else base_name(name), path), ok, loc,
                    '%s sets %s to NULL%s' % (name, path, '' if ok else ' outside the revert routine: a successful normalisation can drop the component'),
                    func=name)
        for f, b, idx, i in revert_calls:
            # all paths from the call reach a return of a non-zero constant
            bad = None
            seen = set()
            st = [b]
            first = True
            while st and bad is None:
                blk = st.pop()
                if blk.id in seen and not first:
                    continue
                first = False
                seen.add(blk.id)
                t = blk.term
                if t[0] == 'ret':
                    v = const_value(t[1], prog) if t[1] is not None else None
                    if v is None or v == 0:
                        bad = t[2]
                    continue
                for s2 in blk.succs():
                    if s2.id not in seen:
                        st.append(s2)
            chk.add('presence-frame', 'revert-then-fail:%s:%s' % (f.name if bad is None else base_name(f.name), fmt_loc(i.loc) if bad is None else 'x'),
                    bad is None, i.loc, '%s: revert at %s %s' % (f.name, fmt_loc(i.loc), 'is followed by a failure return on all paths'
                                                                if bad is None else 'can reach the success / non-constant return at %s' % fmt_loc(bad)),
                    func=f.name)
    # the mode handed to dot-segment removal: relative exactly for references without scheme, authority and leading "/"
    # (obligations shared with C08; a reference wrongly treated as absolute loses its leading ".." run)
    chk.rule('relative-flag', 'the mode argument of dot-segment removal is true exactly for relative-path references', floor=2)
    from . import c08
    from ..report import Check
    tmp = Check('tmp', tier=chk.tier)
    c08.run(ctx, tmp)
    for o in tmp.obls:
        if o.rule == 'relative-flag':
            chk.obls.append(o)
    chk.analysed['reachable_functions'] = nfun
    chk.analysed['dot_removal_sites'] = rule_dot_removal(ctx, chk, {'essential-dot': 'essential-dot', 'updir-kept': 'updir-kept',
                                                                     'new-head-colon': 'essential-dot',
                                                                     'trailing-dot': 'trailing-dot',
                                                                     'nonempty-relative': 'nonempty-relative'})
    chk.assumptions += ['C04: the recomposed text starts with "/" iff the absolute-path flag is set or a host precedes segments',
                        'C08: what normalisation does to the characters of each component (case, percent-encoding) is decided there']
