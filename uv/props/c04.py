"""C04 -- recomposition reproduces the parsed text (conditional on C02: the parser delivers the RFC decomposition).

Decided here: the recomposer's emission template equals RFC 3986 5.3 over uriparser's representation, for every
combination of component presence / emptiness / host kind, and the host renderings (decimal octets, full lower-case
hexadecimal groups) are exact for every byte value -- by evaluating the recomposer from its source on concrete
component structures (E1 machine in concrete mode; no compiled code runs)."""
import itertools

from ..frontend import AnalysisBroken, fmt_loc
from ..e1explore import Concrete
from ..e1 import END, NULL, SAFE, Imprecise, Finding

RETRY_INLINED = True
LEVEL = 'other'

URI = ('G', 'URI')
OUT = ('G', 'OUT')
CW = ('G', 'CW')


class Builder(object):
    """lays component texts out in one text area and builds the URI structure in the machine's environment"""

    def __init__(self, conc):
        self.c = conc
        self.text = []
        self.pend = []       # (place, offset)
        self.env = {}

    def rng(self, place_prefix, s):
        """s: None (absent), '' (empty, placeholder) or text"""
        if s is None:
            self.env[(place_prefix[0], place_prefix[1] + ('first',))] = NULL
            self.env[(place_prefix[0], place_prefix[1] + ('afterLast',))] = NULL
        elif s == '':
            self.env[(place_prefix[0], place_prefix[1] + ('first',))] = SAFE
            self.env[(place_prefix[0], place_prefix[1] + ('afterLast',))] = SAFE
        else:
            a = len(self.text)
            self.text += [ord(ch) for ch in s] + [ord('|')]
            self.pend.append(((place_prefix[0], place_prefix[1] + ('first',)), a))
            self.pend.append(((place_prefix[0], place_prefix[1] + ('afterLast',)), a + len(s)))

    def finish(self):
        n = len(self.text)
        for pl, off in self.pend:
            self.env[pl] = ('p', off - n)
        return self.env, self.text


def expected_text(scheme, userinfo, hostkind, hosttext, ip, port, absolute, segs, query, fragment):
    out = ''
    if scheme is not None:
        out += scheme + ':'
    if hostkind != 'none':
        out += '//'
        if userinfo is not None:
            out += userinfo + '@'
        if hostkind == 'ip4':
            out += '.'.join(str(b) for b in ip)
        elif hostkind == 'ip6':
            out += '[' + ':'.join('%02x%02x' % (ip[2 * k], ip[2 * k + 1]) for k in range(8)) + ']'
        elif hostkind == 'future':
            out += '[' + hosttext + ']'
        else:
            out += hosttext
        if port is not None:
            out += ':' + port
    if absolute or (segs and hostkind != 'none'):
        out += '/'
    out += '/'.join(segs)
    if query is not None:
        out += '?' + query
    if fragment is not None:
        out += '#' + fragment
    return out


def run_case(conc, suf, case):
    scheme, userinfo, hostkind, hosttext, ip, port, absolute, segs, query, fragment = case
    b = Builder(conc)
    for fld in ('owner', 'absolutePath', 'reserved'):
        b.env[(URI, (fld,))] = ('i', 0)
    b.env[(URI, ('absolutePath',))] = ('i', 1 if absolute else 0)
    b.rng((URI, ('scheme',)), scheme)
    b.rng((URI, ('userInfo',)), userinfo)
    b.rng((URI, ('portText',)), port)
    b.rng((URI, ('query',)), query)
    b.rng((URI, ('fragment',)), fragment)
    b.env[(URI, ('hostData', 'ip4'))] = NULL
    b.env[(URI, ('hostData', 'ip6'))] = NULL
    b.rng((URI, ('hostData', 'ipFuture')), None)
    if hostkind == 'none':
        b.rng((URI, ('hostText',)), None)
    elif hostkind == 'ip4':
        b.rng((URI, ('hostText',)), 'x.x.x.x')
        b.env[(URI, ('hostData', 'ip4'))] = ('a', ('G', 'IP4'), ())
        for k in range(4):
            b.env[(('G', 'IP4'), ('data', k))] = ('i', ip[k])
    elif hostkind == 'ip6':
        b.rng((URI, ('hostText',)), 'xx::xx')
        b.env[(URI, ('hostData', 'ip6'))] = ('a', ('G', 'IP6'), ())
        for k in range(16):
            b.env[(('G', 'IP6'), ('data', k))] = ('i', ip[k])
    elif hostkind == 'future':
        b.rng((URI, ('hostText',)), hosttext)
        b.env[(URI, ('hostData', 'ipFuture', 'first'))] = None
        # the IPvFuture range aliases the host text
        b.rng((URI, ('hostData', 'ipFuture')), hosttext)
    else:
        b.rng((URI, ('hostText',)), hosttext)
    names = ['SEG0', 'SEG1', 'SEG2']
    if not segs:
        b.env[(URI, ('pathHead',))] = NULL
        b.env[(URI, ('pathTail',))] = NULL
    for k, sg in enumerate(segs):
        obj = ('G', names[k])
        b.rng((obj, ('text',)), sg)
        b.env[(obj, ('next',))] = ('a', ('G', names[k + 1]), ()) if k + 1 < len(segs) else NULL
        b.env[(obj, ('reserved',))] = NULL
    if segs:
        b.env[(URI, ('pathHead',))] = ('a', ('G', names[0]), ())
        b.env[(URI, ('pathTail',))] = ('a', ('G', names[len(segs) - 1]), ())
    env, text = b.finish()
    env = dict((k, v) for k, v in env.items() if v is not None)
    ret, env2 = conc.call([('a', OUT, (0,)), ('a', URI, ()), ('i', 400), ('a', CW, ())], text, env=env)
    out = []
    k = 0
    while True:
        v = env2.get((OUT, (k,)))
        iv = conc.int_of(v) if v is not None else None
        if iv is None or iv == 0:
            break
        out.append(iv)
        k += 1
    got = ''.join(chr(x) if 0 <= x < 256 else '?' for x in out)
    cw = env2.get((CW, ()))
    return ret, got, cw


def run(ctx, chk):
    prog, irp = ctx.prog, ctx.irp
    chk.explanation = ('Conditional on C02 (the parser reports exactly the RFC components). Decided here from the recomposer\'s source: '
                       'for every combination of scheme present/absent, user info / port / query / fragment absent / empty / present, '
                       'host absent / empty / registered name / IPv4 / IPv6 / IPvFuture, absolute-path flag, and segment lists with '
                       'empty and non-empty segments, the text produced by uriToString equals the RFC 3986 5.3 recomposition of those '
                       'components (uriparser representation: "//" iff a host is set, leading "/" iff the flag is set or a host '
                       'precedes segments); every IPv4 octet value 0..255 is rendered in decimal without leading zeros (the only '
                       'spelling the parser accepts) and every IPv6 byte as two lower-case hex digits in eight colon-separated groups; '
                       'chars-written = length + 1. The recomposer is evaluated from its source by the E1 machine in concrete mode; '
                       'component texts are copied by memcpy only (no text character is inspected), so the sample texts stand for '
                       'arbitrary ones. With C01/C02/C11 this gives: recomposed text = parsed input up to the IPv6 normal form.')
    chk.rule('template', 'uriToString output = RFC 3986 5.3 recomposition for the component-presence combination', floor=1000)
    chk.rule('render-ip4', 'every octet value is rendered as its decimal numeral without leading zeros, dots between octets', floor=256)
    chk.rule('render-ip6', 'every byte is rendered as two lower-case hex digits, eight groups separated by ":" inside brackets', floor=256)
    chk.rule('text-opaque', 'the recomposer never reads a character of a component text other than through memcpy', floor=1)
    tri = [None, '', 'x']
    sufs = ('A', 'W') if chk.tier == 'thorough' else ('A',)
    for suf in sufs:
        fname = 'uriToString' + suf
        if fname not in irp.funcs:
            raise AnalysisBroken('%s not found' % fname)
        conc = Concrete(ctx, suf, fname)
        floc = irp.funcs[fname].loc
        reads = [0]
        orig_load = conc.mach.load

        def load(st, pl, e, _orig=orig_load):
            if pl[0] == 'IN':
                reads[0] += 1
            return _orig(st, pl, e)
        conc.mach.load = load
        ncase = 0
        seglists = [[], ['a'], [''], ['a', 'b'], ['', 'b'], ['a', ''], ['', '']]
        hosts = [('none', None, None), ('reg', '', None), ('reg', 'h', None), ('ip4', None, [1, 20, 255, 0]),
                 ('ip6', None, list(range(16))), ('future', 'v1.x', None)]
        for scheme in (None, 's'):
            for (hk, ht, ip) in hosts:
                for ui in (tri if hk != 'none' else [None]):
                    for port in (tri if hk != 'none' else [None]):
                        for absolute in ((False, True) if hk == 'none' else (False,)):
                            for segs in seglists:
                                for query in tri:
                                    for fragment in (tri if (query is None or ui is None) else [None, 'x']):
                                        ui2 = None if ui is None else ('u' if ui else '')
                                        port2 = None if port is None else ('80' if port else '')
                                        q2 = None if query is None else ('q=1' if query else '')
                                        f2 = None if fragment is None else ('fr' if fragment else '')
                                        case = (scheme, ui2, hk, ht, ip, port2, absolute, segs, q2, f2)
                                        want = expected_text(*case)
                                        ret, got, cw = run_case(conc, suf, case)
                                        ok = ret == ('i', 0) and got == want and cw == ('i', len(want) + 1)
                                        ncase += 1
                                        key = 'case:%s:%s' % (suf, want if ok else 'MISMATCH:' + want)
                                        chk.add('template', key, ok, floc, 'components %r: produced %r (code %r, written %r), RFC 5.3 '
                                                'gives %r' % (case, got, ret, cw, want), func=fname)
        # host renderings
        for v in range(256):
            ip = [v, 0, 9, 10]
            case = (None, None, 'ip4', None, ip, None, False, [], None, None)
            ret, got, cw = run_case(conc, suf, case)
            chk.add('render-ip4', 'octet:%s:%d' % (suf, v), got == '//%d.0.9.10' % v, floc, 'octet %d rendered as %r' % (v, got), func=fname)
            ip = [0, 99, 100, v]
            case = (None, None, 'ip4', None, ip, None, False, [], None, None)
            ret, got, cw = run_case(conc, suf, case)
            chk.add('render-ip4', 'octet-last:%s:%d' % (suf, v), got == '//0.99.100.%d' % v, floc, 'last octet %d rendered as %r' % (v, got),
                    func=fname)
        for v in range(256):
            for pos in (0, 15, v % 16):
                ip = [0xAB] * 16
                ip[pos] = v
                case = (None, None, 'ip6', None, ip, None, False, [], None, None)
                ret, got, cw = run_case(conc, suf, case)
                want = expected_text(*case)
                chk.add('render-ip6', 'byte:%s:%d@%d' % (suf, v, pos), got == want, floc, 'byte %d at %d rendered as %r, expected %r'
                        % (v, pos, got, want), func=fname)
        chk.add('text-opaque', 'opaque:%s' % suf, reads[0] == 0, floc, '%d direct reads of component text characters in %d evaluations'
                % (reads[0], ncase), func=fname)
        chk.analysed.setdefault('cases', {})[fname] = ncase
    chk.assumptions += ['C02: the parser reports exactly the RFC 3986 components (this check is conditional on it)',
                        'C05: every write of the recomposer is inside the buffer (decided separately, all paths)']
