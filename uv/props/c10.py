"""C10 -- reference creation is the inverse of resolution (partial: authority coverage, provenance table, guards, codes).

NOT decided: that the common-prefix walk and the '..' emission produce a reference that resolves back to the source."""
from ..frontend import AnalysisBroken, fmt_loc
from ..pathenum import enumerate_paths
from ..ir import call_target
from ..tables import base_name
from .. import resolverules as RR

RETRY_INLINED = True
LEVEL = 'other'


def find_impl(ctx, suf):
    pub = ctx.irp.funcs.get('uriRemoveBaseUriMm' + suf)
    if pub is None:
        raise AnalysisBroken('uriRemoveBaseUriMm%s not found' % suf)
    cands = []
    for b in pub.blocks:
        for i in b.ins:
            if i.op == 'call':
                t = call_target(i)
                if t in ctx.irp.funcs and len(ctx.irp.funcs[t].params) == 5 and len(i.args) == 5:
                    cands.append(t)
    if len(set(cands)) != 1:
        raise AnalysisBroken('reference-creation engine not identified from uriRemoveBaseUriMm%s: %s' % (suf, cands))
    return ctx.irp.funcs[cands[0]]


def find_authority_predicate(ctx, impl):
    """the callee of the engine that takes exactly (source, base) and returns a boolean"""
    src, base = impl.params[1], impl.params[2]
    cands = set()
    for b in impl.blocks:
        for i in b.ins:
            if i.op == 'call':
                t = call_target(i)
                if t in ctx.irp.funcs and len(i.args) == 2:
                    names = []
                    for a in i.args:
                        n = a
                        while n.k == 'cast':
                            n = n.c[0]
                        names.append(n.v if n.k == 'ref' else None)
                    if set(names) == {src, base}:
                        cands.add(t)
    if len(cands) != 1:
        raise AnalysisBroken('authority comparison not identified in %s: %s' % (impl.name, sorted(cands)))
    return ctx.irp.funcs[cands.pop()]


def pair_atom(c, fn_prefix, x, y, fld, extra=None):
    """truth of the atom `fn(&x->fld, &y->fld)` (either argument order) on the path, or None"""
    for k, v in c.items():
        if k.startswith(fn_prefix) and ('%s->%s' % (x, fld)) in k and ('%s->%s' % (y, fld)) in k:
            if extra is None or k.endswith(extra + ')'):
                return v
    return None


def check_authority_predicate(ctx, chk, f, suf):
    a, b = f.params[0], f.params[1]
    paths = enumerate_paths(ctx.prog, f)
    nt = 0
    for p in paths:
        if p.ret != '1':
            continue
        nt += 1
        c = p.conds()
        missing = []
        for fld, what in (('userInfo', 'user info'), ('portText', 'port')):
            if pair_atom(c, 'uriCompareRange', a, b, fld) is not False:
                missing.append(what)
        k4a, k4b = c.get('%s->hostData.ip4' % a), c.get('%s->hostData.ip4' % b)
        k6a, k6b = c.get('%s->hostData.ip6' % a), c.get('%s->hostData.ip6' % b)
        kfa, kfb = c.get('%s->hostData.ipFuture.first' % a), c.get('%s->hostData.ipFuture.first' % b)
        if k4a:
            okh = k4b and (pair_atom(c, 'memcmp', a, b, 'hostData.ip4->data', ', 4') is False
                           or pair_atom(c, 'memcmp', a, b, 'hostData.ip4->data', ', sizeof(UriIp4)') is False)
            kind = 'IPv4 bytes'
        elif k6a:
            okh = k6b and (pair_atom(c, 'memcmp', a, b, 'hostData.ip6->data', ', 16') is False
                           or pair_atom(c, 'memcmp', a, b, 'hostData.ip6->data', ', sizeof(UriIp6)') is False)
            kind = 'IPv6 bytes'
        elif kfa:
            okh = kfb and pair_atom(c, 'uriCompareRange', a, b, 'hostData.ipFuture') is False
            kind = 'IPvFuture text'
        else:
            okh = pair_atom(c, 'uriCompareRange', a, b, 'hostText') is False and k4a is False and k6a is False and kfa is False
            kind = 'host text'
        if not okh:
            missing.append('host (%s)' % kind)
        key = 'authority-coverage:%s' % ','.join(missing) if missing else 'authority-true-path:%s:%d' % (suf, nt)
        chk.add('authority-coverage', key, not missing, p.retloc,
                ('%s returns "equal" after comparing user info, %s and port' % (f.name, kind)) if not missing else
                ('%s can return "equal" without having compared %s: a source that differs from the base only there loses it '
                 '(e.g. s://u@h:1/a against s://h/b gives "a", which resolves to s://h/a)' % (f.name, ' and '.join(missing))),
                func=f.name)
    if nt < 4:
        raise AnalysisBroken('%s has only %d paths returning "equal"' % (f.name, nt))


def rule_prefix_walk(ctx, chk, f, S, B):
    """The last segment of a path is not a directory.  The loop that walks the common prefix advances both walkers over a pair
    of equal segments only if the two segments are the last of both paths or of neither: every path from the loop head into the
    block that advances both walkers passes a comparison of `s->next == NULL` with `b->next == NULL` on the agreeing side."""
    from ..ir import strip_casts
    from ..cfgutil import expr_key
    import re
    # walkers: PathSegment locals initialised from the two path heads
    cands = {'s': set(), 'b': set()}
    for b in f.blocks:
        for i in b.ins:
            if i.op == 'assign' and i.dst is not None and i.dst.k == 'ref' and 'PathSegment' in (i.dst.ty or ''):
                k = expr_key(i.src)
                if k == '%s->pathHead' % S:
                    cands['s'].add(i.dst.v)
                elif k == '%s->pathHead' % B:
                    cands['b'].add(i.dst.v)
    if not cands['s'] or not cands['b']:
        raise AnalysisBroken('%s: the two path walkers were not recognised' % f.name)
    body = None
    sw = bw = None
    for b in f.blocks:
        adv = set()
        for i in b.ins:
            if i.op == 'assign' and i.dst is not None and i.dst.k == 'ref' and expr_key(i.src) == '%s->next' % i.dst.v:
                adv.add(i.dst.v)
        if (adv & cands['s']) and (adv & cands['b']):
            body = b
            sw, bw = sorted(adv & cands['s'])[0], sorted(adv & cands['b'])[0]
    if body is None:
        raise AnalysisBroken('%s: no block advances both path walkers' % f.name)
    # loop head: the block reached from the body's back edge; walk back from the body over condition blocks (no instructions
    # other than calls of the comparison) collecting the edge conditions of every path
    byid = dict((b.id, b) for b in f.blocks)
    head = body.succs()[0] if len(body.succs()) == 1 else None
    while head is not None and not head.ins and head.term[0] == 'jmp':
        head = head.term[1]
    if head is None:
        raise AnalysisBroken('%s: loop head of the prefix walk not found' % f.name)
    paths = []

    def walk(blk, conds, seen):
        if blk.id == body.id:
            paths.append(list(conds))
            return
        if blk.id in seen or len(paths) > 200:
            return
        t = blk.term
        if t[0] == 'jmp':
            walk(t[1], conds, seen | {blk.id})
        elif t[0] == 'br':
            walk(t[2], conds + [(expr_key(t[1]), True, t[4] if len(t) > 4 else blk.loc)], seen | {blk.id})
            walk(t[3], conds + [(expr_key(t[1]), False, t[4] if len(t) > 4 else blk.loc)], seen | {blk.id})
    walk(head, [], set())
    if not paths:
        raise AnalysisBroken('%s: no path from the loop head into the advancing block' % f.name)
    NUL = r'(?:0|\(void \*\)0|NULL)'
    pat = re.compile(r'^\(\(?(%s|%s)->next == %s\)? (==|!=) \(?(%s|%s)->next == %s\)?\)$'
                     % (re.escape(sw), re.escape(bw), NUL, re.escape(sw), re.escape(bw), NUL))
    bad = None
    for conds in paths:
        ok = False
        for k, truth, loc in conds:
            m = pat.match(k)
            if m and m.group(1) != m.group(3) and ((m.group(2) == '==') == truth):
                ok = True
        if not ok and bad is None:
            bad = conds
    # an empty reference path inherits the query of the base (RFC 3986 5.2.2): stepping over the LAST segment of the source
    # (which can leave the path empty) needs "the source has a query of its own, or the base has none"
    def established(conds):
        for k, truth, loc in conds:
            m = re.match(r'^\(?%s->next (==|!=) %s\)?$' % (re.escape(sw), NUL), k)
            if m and ((m.group(1) == '==') != truth):
                return True                                   # not the last segment of the source
            m = re.match(r'^\(?%s->query\.first (==|!=) %s\)?$' % (re.escape(S), NUL), k)
            if m and ((m.group(1) == '==') != truth):
                return True                                   # the source has a query
            m = re.match(r'^\(?%s->query\.first (==|!=) %s\)?$' % (re.escape(B), NUL), k)
            if m and ((m.group(1) == '==') == truth):
                return True                                   # the base has none
        return False
    badq = None
    for conds in paths:
        if not established(conds) and badq is None:
            badq = conds
    chk.add('prefix-walk', 'prefix-walk-query:%s' % (f.name if badq is None else base_name(f.name)), badq is None, body.loc or f.loc,
            '%s: %s' % (f.name, 'the last segment of the source is stepped over only if the source has a query or the base has none'
                        if badq is None else 'the walk can step over the last segment of the source (leaving an empty reference path, which '
                        'inherits the query of the base) without having established that the source has a query of its own or that the '
                        'base has none: source s://h/a/b against base s://h/a/b?q yields the empty reference, which resolves to '
                        's://h/a/b?q'), func=f.name)
    key = 'prefix-walk:%s' % (f.name if bad is None else base_name(f.name))
    chk.add('prefix-walk', key, bad is None, body.loc or f.loc,
            '%s: %d paths lead into the block that steps over a common segment; %s' % (
                f.name, len(paths), 'each has established that the segment is the last of both paths or of neither' if bad is None else
                'one of them (conditions %s) steps over a segment that is the last one of only one path: the last segment of the base is '
                'a file name, not a directory, and the last segment of the source has to be emitted (e.g. source /a/b against base /a/b/c '
                'yields the empty reference, which resolves to the base itself)' % [(k, t) for k, t, _l in bad][-3:]), func=f.name)


def run(ctx, chk):
    prog = ctx.prog
    codes = dict((k, prog.macros.get(k)) for k in ('URI_ERROR_REMOVEBASE_REL_BASE', 'URI_ERROR_REMOVEBASE_REL_SOURCE', 'URI_SUCCESS',
                                                   'URI_ERROR_MALLOC'))
    if any(v is None for v in codes.values()):
        raise AnalysisBroken('error code macros not found')
    chk.explanation = ('Partial. Decided by path enumeration of the reference-creation engine and of its authority predicate: (a) the '
                       'predicate that lets the authority be omitted returns "equal" only on paths that compared user info, host by '
                       'kind (IPv4 bytes, IPv6 bytes, IPvFuture text, host text) and port; (b) provenance: schemes differ => scheme, '
                       'authority, path copied from the source; same scheme, different authority => scheme omitted, authority and '
                       'path from the source; equal authority and domain-root mode => authority omitted, source path made absolute and '
                       'passed through the ambiguity guard; otherwise a relative path is built only from "..", "." and the source '
                       'segments, with the "./" guard in front of a first segment that is empty or contains ":"; query and fragment '
                       'always from the source; (c) relative base / source return their codes before anything is allocated. (d) the '
                       'common-prefix walk never treats the last segment of exactly one of the two paths as common. NOT decided: that '
                       'the prefix walk and ".." emission yield a reference that resolves back to the source in general.')
    chk.rule('authority-coverage', 'every path of the authority predicate that returns "equal" has compared user info, host by kind '
             'and port', floor=8)
    chk.rule('removal-table', 'provenance of scheme / authority / path / query / fragment of the produced reference per branch',
             floor=8)
    chk.rule('relative-operands', 'a base or source without scheme returns the dedicated code before any allocation', floor=4)
    chk.rule('naked-guard', 'while the produced relative path is still empty, a first segment that is empty or contains ":" is '
             'preceded by a "." segment; domain-root mode passes through the ambiguity guard', floor=4)
    chk.rule('prefix-walk', 'the common-prefix walk steps over a pair of equal segments only if it is the last segment of both paths '
             'or of neither (the last segment of a path is not a directory), and over the last segment of the source only if the query '
             'of the base may be inherited', floor=4)
    from .c11 import _compare_range
    chk.rule('compare-range', 'uriCompareRange (which decides "same scheme", user info, port and host text here): NULL equals only NULL, '
             'lengths compared, texts compared over the full length in characters', floor=8)
    for suf in ('A', 'W'):
        _compare_range(ctx, chk, ctx.prog, ctx.irp, suf)
        f = find_impl(ctx, suf)
        dest, S, B, mode = f.params[0], f.params[1], f.params[2], f.params[3]
        rule_prefix_walk(ctx, chk, f, S, B)
        pred = find_authority_predicate(ctx, f)
        check_authority_predicate(ctx, chk, pred, suf)
        paths = enumerate_paths(prog, f, unroll=1)
        chk.analysed.setdefault('paths', {})[f.name] = len(paths)
        rows = {}
        pwd, par = 'uriConstPwd' + suf, 'uriConstParent' + suf
        for p in paths:
            c = p.conds()
            ev = p.events
            allocs = [e for e in ev if e[0] == 'call' and base_name(e[1]) in ('uriCopyAuthority', 'uriCopyPath', 'uriAppendSegment',
                                                                             'uriFixAmbiguity')]
            if c.get('%s->scheme.first' % B) is False:
                chk.add('relative-operands', 'relbase:%s' % suf, p.ret == str(codes['URI_ERROR_REMOVEBASE_REL_BASE']) and not allocs,
                        p.retloc, 'returns %s' % p.ret, func=f.name)
                continue
            if c.get('%s->scheme.first' % S) is False:
                chk.add('relative-operands', 'relsource:%s' % suf, p.ret == str(codes['URI_ERROR_REMOVEBASE_REL_SOURCE']) and not allocs,
                        p.retloc, 'returns %s' % p.ret, func=f.name)
                continue
            if p.ret != '0':
                continue
            a = RR.amap(p)
            sdiff = pair_atom(c, 'uriCompareRange', S, B, 'scheme')
            adiff = [v for k, v in c.items() if k.startswith(pred.name)]
            copyauth = [e[2] for e in ev if e[0] == 'call' and base_name(e[1]) == 'uriCopyAuthority']
            copypath = [e[2] for e in ev if e[0] == 'call' and base_name(e[1]) == 'uriCopyPath']
            appends = [e[2] for e in ev if e[0] == 'call' and base_name(e[1]) == 'uriAppendSegment']
            guards = [e[2] for e in ev if e[0] == 'call' and base_name(e[1]) == 'uriFixAmbiguity']
            got = {'scheme': a.get('%s->scheme' % dest), 'query': a.get('%s->query' % dest), 'fragment': a.get('%s->fragment' % dest),
                   'authority': copyauth[-1][1] if copyauth else None, 'path': copypath[-1][1] if copypath else None}
            problems = []
            if got['query'] != '%s->query' % S or got['fragment'] != '%s->fragment' % S:
                problems.append('query / fragment not taken from the source')
            if sdiff is None:
                problems.append('schemes are not compared')
                row = 'no-scheme-compare'
            elif sdiff:
                row = 'scheme-differs'
                if got['scheme'] != '%s->scheme' % S or got['authority'] != S or got['path'] != S or appends:
                    problems.append('different scheme: every component must be copied from the source, got %r' % (got,))
            else:
                if got['scheme'] is not None:
                    problems.append('same scheme: the reference must not carry a scheme')
                if not adiff:
                    problems.append('authorities are not compared')
                    row = 'no-authority-compare'
                elif not adiff[0]:
                    row = 'authority-differs'
                    if got['authority'] != S or got['path'] != S or appends:
                        problems.append('different authority: authority and path must be copied from the source, got %r' % (got,))
                else:
                    if got['authority'] is not None:
                        problems.append('equal authority: the reference must not carry an authority')
                    modek = [v for k, v in c.items() if k.startswith('(%s == ' % mode) or k == mode]
                    if not modek:
                        problems.append('domain-root mode is not tested')
                        row = 'no-mode-test'
                    elif modek[0]:
                        row = 'domain-root'
                        if got['path'] != S or a.get('%s->absolutePath' % dest) != '1' or appends:
                            problems.append('domain-root mode: the source path must be copied and made absolute')
                        order = [i for i, e in enumerate(ev) if (e[0] == 'call' and base_name(e[1]) == 'uriCopyPath')
                                 or (e[0] == 'assign' and e[1] == '%s->absolutePath' % dest)]
                        gidx = [i for i, e in enumerate(ev) if e[0] == 'call' and base_name(e[1]) == 'uriFixAmbiguity' and e[2][0] == dest]
                        okg = bool(gidx) and bool(order) and gidx[-1] > max(order)
                        chk.add('naked-guard', 'guard:domain-root:%s' % suf, okg, p.retloc, 'absolute copy of the source path %s the '
                                'ambiguity guard%s' % ('passes through' if okg else 'is returned WITHOUT', '' if okg else
                                                   ' (the guard must see the final path and absolute-path flag)'), func=f.name)
                    else:
                        row = 'relative'
                        if got['path'] is not None:
                            problems.append('relative mode copies the whole source path')
                        if a.get('%s->absolutePath' % dest) != '0':
                            problems.append('relative mode does not clear the absolute-path flag')
                        for args in appends:
                            if args[0] != dest:
                                problems.append('segment appended to %s' % args[0])
                            elif not ((args[1], args[2]) in ((par, '(%s + 2)' % par), (pwd, '(%s + 1)' % pwd))
                                      or (args[1].startswith(S + '->pathHead') and args[1].endswith('->text.first')
                                          and args[2] == args[1][:-len('first')] + 'afterLast')):
                                problems.append('appends (%s, %s), which is neither "..", "." nor a source segment' % (args[1], args[2]))
                        # naked guard: the first append of a source segment while nothing was appended before
                        first_src = None
                        for idx, args in enumerate(appends):
                            if args[1].startswith(S + '->pathHead'):
                                first_src = idx
                                break
                        if first_src is not None:
                            seg = appends[first_src][1][:-len('->text.first')]
                            before = appends[:first_src]
                            empty = c.get('(%s->text.first == %s->text.afterLast)' % (seg, seg))
                            colon = [v for k, v in c.items() if k.startswith('(*(%s->text.first' % seg) or
                                     k.startswith('(*(') and seg in k and "== 58" in k]
                            has_colon = any(colon)
                            naked = not any(x[1] == par for x in before)
                            guarded = any(x[1] == pwd for x in before)
                            if naked and (has_colon or empty):
                                chk.add('naked-guard', 'guard:relative:%s:%s' % ('colon' if has_colon else 'empty', suf), guarded,
                                        p.retloc, 'first segment %s while the path is naked: "." segment %s'
                                        % ('contains ":"' if has_colon else 'is empty', 'precedes it' if guarded else 'MISSING'),
                                        func=f.name)
                            elif guarded and not (has_colon or empty):
                                chk.bad('naked-guard', 'guard:relative:wrong-segment', p.retloc, 'a "." segment is emitted in front of '
                                        'the first remaining source segment (%s) on a path that examined a different segment for ":" '
                                        'or emptiness: the guard decision must look at the segment it protects' % seg, func=f.name)
            rows.setdefault(row, []).append((p, problems))
        for row, items in sorted(rows.items()):
            bad = [(p, pr) for p, pr in items if pr]
            if bad:
                p, pr = bad[0]
                chk.bad('removal-table', 'row:%s:%s' % (row, pr[0][:60]), p.retloc, '%s, branch %s: %s' % (f.name, row, '; '.join(pr)),
                        func=f.name)
            else:
                chk.ok('removal-table', 'row:%s:%s' % (row, suf), items[0][0].retloc, '%d success paths' % len(items), func=f.name)
        for need in ('scheme-differs', 'authority-differs', 'domain-root', 'relative'):
            if need not in rows:
                raise AnalysisBroken('%s has no success path for branch %s' % (f.name, need))
    chk.assumptions += ['copy helpers and the ambiguity guard keep their contracts (decided under C06 / C07)']
