"""C15 -- a manager completed from malloc/free alone behaves as an allocator (partial: structural rules)."""
from ..frontend import fmt_loc, AnalysisBroken
from ..ir import call_target, manager_call, strip_casts, const_value
from ..cfgutil import expr_key
from ..symexec import SymExec, PState, Lin, Ptr, NULLP
from ..tables import base_name
from .. import pp

RETRY_INLINED = True
LEVEL = 'other'

H = 8   # sizeof(size_t) on the analysed target (LP64); every rule compares expressions, not this number


def installed(prog, irp):
    """member -> function installed by uriCompleteMemoryManager (found through the stores into the output manager)"""
    f = irp.funcs.get('uriCompleteMemoryManager')
    if f is None:
        raise AnalysisBroken('uriCompleteMemoryManager not found')
    out = {}
    for b in f.blocks:
        for i in b.ins:
            if i.op == 'assign' and i.dst.k == 'member' and strip_casts(i.dst.c[0]).k in ('ref', 'cast'):
                base = strip_casts(i.dst.c[0])
                while base.k == 'cast':
                    base = strip_casts(base.c[0])
                if base.k == 'ref' and base.v == f.params[0]:
                    s = strip_casts(i.src)
                    while s.k == 'cast':
                        s = strip_casts(s.c[0])
                    out[i.dst.v] = s.v if s.k == 'ref' else pp.expr(s)
    return out


class Explorer(object):
    def __init__(self, ctx, fname, preset=None):
        self.prog, self.irp = ctx.prog, ctx.irp
        self.f = self.irp.funcs[fname]
        self.se = SymExec(self.prog, self.f)
        self.se.nonneg = lambda t: True          # all symbols are unsigned sizes
        self.se.on_call = self.on_call
        self.se.on_load = self.on_load
        self.nblk = 0
        st = PState()
        for p in self.f.params:
            if '*' not in self.f.param_types[p]:
                st.env[p] = Lin.sym(p)
        if preset:
            preset(st)
        self.se.run(st)
        self.paths = self.se.paths

    def on_load(self, se, st, base, off, e):
        # header read: *(size_t *)(ptr - H)
        if '*' not in (e.ty or '') and off.is_const():
            st.events.append(('load', base, off.c, e.loc))
            return Lin.sym('hdr(%s%+d)' % (base, off.c))
        return None

    def on_call(self, se, i, st, args):
        mc = manager_call(i)
        t = call_target(i)
        if mc is not None:
            recv = pp.expr(strip_casts(mc[1]))
            st.events.append(('mcall', mc[0], recv, args, i.loc, set(st.facts), list(st.atoms)))
            if mc[0] in ('malloc', 'calloc', 'realloc', 'reallocarray'):
                n = st.notes.get('nblk', 0) + 1
                st.notes['nblk'] = n
                return Ptr('%s#%d' % (mc[0], n))
            return Lin.const(0)
        if t == '__errno_location':
            return Ptr('errno')
        if t in ('memset', 'memcpy'):
            st.events.append((t, args, i.loc, set(st.facts), list(st.atoms)))
            return args[0]
        return None


def errno_set(st, want):
    v = st.env.get('(*%t1)')
    for k, val in st.env.items():
        if k.startswith('(*%t') and isinstance(val, Lin) and val.is_const() and val.c == want:
            return True
    return any(e[0] == 'store' and e[1] == 'errno' and isinstance(e[5], Lin) and e[5].is_const() and e[5].c == want
               for e in st.events)


def run(ctx, chk):
    prog, irp = ctx.prog, ctx.irp
    chk.explanation = ('Partial, structural decision of C15 on the five functions installed by uriCompleteMemoryManager (found '
                       'through the stores into the output manager), each explored symbolically over all paths: the user pointer '
                       'is the backend pointer + H and the pointer handed back to the backend\'s free is the user pointer - H '
                       'with the same H = sizeof(size_t); the size is stored where it is later read; the backend request is '
                       'size + H on a path where size <= SIZE_MAX - H; every product nmemb*size reaching an allocation passed '
                       'the overflow test (or both factors are below 2^(bits/2)) and the failing side sets ENOMEM and returns '
                       'NULL; realloc follows the decision table (NULL -> malloc; size 0 -> free + NULL; size <= old -> same '
                       'pointer; else new block, copy of the old size, old block freed after the new one was obtained; failure '
                       'returns NULL with the old block untouched); calloc zeroes exactly the checked product; the wiring stores '
                       'all five members and userData. NOT decided: disjointness/usability of live blocks (the backend\'s '
                       'contract) and behaviour over call histories.')
    chk.rule('wiring', 'uriCompleteMemoryManager stores all five function members and userData, after rejecting NULL arguments '
             'and a backend without malloc/free', floor=6)
    chk.rule('header-offset', 'decorated malloc returns backend pointer + H, stores the size at the block start, requests '
             'size + H under the guard size <= SIZE_MAX - H; decorated free hands pointer - H to the backend; realloc reads '
             'the old size at pointer - H: the same H everywhere', floor=3)
    chk.rule('realloc-table', 'decorated realloc: decision table over (ptr NULL, size 0, size <= old) with copy length = old '
             'size, old block freed only after the new one was obtained, failure leaves the old block intact', floor=5)
    chk.rule('overflow-guard', 'every product nmemb*size that reaches an allocation is dominated by the overflow test; the '
             'failing side sets ENOMEM and returns NULL; calloc zeroes exactly the product', floor=2)
    inst = installed(prog, irp)
    want_members = ['malloc', 'calloc', 'realloc', 'reallocarray', 'free', 'userData']
    for m in want_members:
        chk.add('wiring', 'wiring:%s' % m, m in inst, irp.funcs['uriCompleteMemoryManager'].loc,
                'member %s %s' % (m, ('= ' + str(inst.get(m))) if m in inst else 'is not set by uriCompleteMemoryManager'),
                func='uriCompleteMemoryManager')
    if not all(m in inst for m in want_members):
        return
    enomem, einval = 12, 22
    # ---------------- decorated malloc
    fm = inst['malloc']
    E = Explorer(ctx, fm)
    okp = 0
    problems = []
    for (st, rv, loc) in E.paths:
        calls = [e for e in st.events if e[0] == 'mcall']
        if not calls:
            if not (isinstance(rv, Ptr) and rv.base == 'NULL'):
                problems.append((loc, 'returns %r without a backend allocation' % rv))
            continue
        c = calls[0]
        req = c[3][1]
        size = Lin.sym(E.f.params[1])
        if not (isinstance(req, Lin) and req == size + Lin.const(H)):
            problems.append((c[4], 'backend request is %r, expected size + sizeof(size_t)' % req))
        s2 = PState()
        s2.facts = c[5]
        SIZE_MAX = (1 << 64) - 1
        if E.se.decide_le(size + Lin.const(H) - Lin.const(SIZE_MAX), s2) is not True:
            problems.append((c[4], 'the request size + sizeof(size_t) is not guarded against unsigned overflow'))
        blk = 'malloc#1'
        if st.notes.get(('nonnull', blk)) is False:
            if not (isinstance(rv, Ptr) and rv.base == 'NULL'):
                problems.append((loc, 'backend failure does not surface as NULL'))
            continue
        hdr = [e for e in st.events if e[0] == 'store' and e[1] == blk]
        if not (len(hdr) == 1 and hdr[0][2] == Lin.const(0) and hdr[0][5] == size):
            problems.append((loc, 'size header is not stored at the start of the backend block'))
        if not (isinstance(rv, Ptr) and rv.base == blk and rv.off == Lin.const(H)):
            problems.append((loc, 'returns %r, expected backend block + sizeof(size_t)' % rv))
        okp += 1
    _emit(chk, 'header-offset', 'hdr:malloc', problems, E.f, '%d paths: request size+H guarded, header at +0, returns +H' % okp, fm)
    # ---------------- decorated free
    ff = inst['free']
    E = Explorer(ctx, ff)
    problems = []
    n = 0
    for (st, rv, loc) in E.paths:
        calls = [e for e in st.events if e[0] == 'mcall' and e[1] == 'free']
        for c in calls:
            n += 1
            a = c[3][1]
            if not (isinstance(a, Ptr) and a.base == E.f.params[1] and a.off == Lin.const(-H)):
                problems.append((c[4], 'hands %r to the backend\'s free, expected user pointer - sizeof(size_t)' % a))
            if c[2] == E.f.params[0]:
                problems.append((c[4], 'frees through the decorated manager itself instead of the backend'))
        if not calls and st.notes.get(('nonnull', E.f.params[1])) is True and st.notes.get(('nonnull', E.f.params[0])) is True \
                and all(v is not False for k, v in st.notes.items() if isinstance(k, tuple) and k[0] == 'nonnull'):
            problems.append((loc, 'a non-NULL block is not released on a path with a backend'))
    if n == 0:
        problems.append((E.f.loc, 'no backend free call found'))
    _emit(chk, 'header-offset', 'hdr:free', problems, E.f, 'backend free receives pointer - H', ff)
    # ---------------- decorated realloc
    fr = inst['realloc']
    E = Explorer(ctx, fr)
    ptr, size = E.f.params[1], E.f.params[2]
    rows = {'ptr-null': [], 'size-zero': [], 'shrink': [], 'grow-ok': [], 'grow-fail': []}
    problems = []
    for (st, rv, loc) in E.paths:
        if st.notes.get(('nonnull', E.f.params[0])) is False:
            continue
        calls = [e for e in st.events if e[0] == 'mcall']
        frees = [c for c in calls if c[1] == 'free']
        mallocs = [c for c in calls if c[1] == 'malloc']
        copies = [e for e in st.events if e[0] == 'memcpy']
        if st.notes.get(('nonnull', ptr)) is False:
            ok = len(mallocs) == 1 and not frees and isinstance(rv, Ptr) and rv.base.startswith('malloc#') and \
                mallocs[0][3][1] == Lin.sym(size)
            rows['ptr-null'].append((ok, loc, 'ptr == NULL must behave as malloc(size)'))
            continue
        # ptr non-NULL
        atoms = dict((a, t) for a, t in st.atoms)
        zero = [t for a, t in st.atoms if a.replace(' ', '') in ('%s<=0' % size, '-1*%s+1<=0' % size)]
        size_is_zero = any((a.replace(' ', '') in ('(%s==0)' % size, '%s<=0' % size) and t) or
                           (a.replace(' ', '') in ('(%s!=0)' % size, '-1*%s+1<=0' % size) and not t) for a, t in st.atoms)
        if not size_is_zero:
            s0 = PState()
            s0.facts = set(st.facts)
            size_is_zero = E.se.decide_le(Lin.sym(size), s0) is True
        if size_is_zero:
            ok = len(frees) == 1 and not mallocs and isinstance(rv, Ptr) and rv.base == 'NULL' and \
                isinstance(frees[0][3][1], Ptr) and frees[0][3][1].base == ptr and frees[0][3][1].off == Lin.const(0)
            rows['size-zero'].append((ok, loc, 'size == 0 must free the block and return NULL'))
            continue
        loads = [e for e in st.events if e[0] == 'load']
        if loads and not all(e[1] == ptr and e[2] == -H for e in loads):
            problems.append((loads[0][3], 'old size is read at offset %s of %s, expected -sizeof(size_t) of the user pointer'
                             % (loads[0][2], loads[0][1])))
        old = Lin.sym('hdr(%s%+d)' % (ptr, -H))
        if not mallocs:
            s2 = PState()
            s2.facts = set(st.facts)
            fits = E.se.decide_le(Lin.sym(size) - old, s2) is True
            ok = fits and not frees and not copies and isinstance(rv, Ptr) and rv.base == ptr and rv.off == Lin.const(0)
            rows['shrink'].append((ok, loc, 'size <= old size must return the same pointer untouched (and only then)'))
            continue
        nb = mallocs[0]
        blk = 'malloc#1'
        if st.notes.get(('nonnull', blk)) is False:
            ok = not frees and not copies and isinstance(rv, Ptr) and (rv.base == 'NULL' or (rv.base == blk and rv.off == Lin.const(0)))
            rows['grow-fail'].append((ok, loc, 'a failed allocation must return NULL and leave the old block allocated and intact'))
            continue
        ok = len(copies) == 1 and len(frees) == 1 and isinstance(rv, Ptr) and rv.base == blk and rv.off == Lin.const(0)
        detail = 'growing must allocate size, copy the old size, free the old block, return the new block'
        if ok:
            cp = copies[0]
            dst, src, ln = cp[1][0], cp[1][1], cp[1][2]
            ok = isinstance(dst, Ptr) and dst.base == blk and isinstance(src, Ptr) and src.base == ptr and src.off == Lin.const(0) \
                and ln == old and nb[3][1] == Lin.sym(size)
            s2 = PState()
            s2.facts = cp[3]
            if E.se.decide_le(old - Lin.sym(size), s2) is not True:
                ok = False
                detail = 'the copy length (old size) is not known to fit the new block'
            fr_ = frees[0]
            if not (isinstance(fr_[3][1], Ptr) and fr_[3][1].base == ptr and fr_[3][1].off == Lin.const(0)):
                ok = False
            # order: malloc before free
            order = [e[1] for e in st.events if e[0] == 'mcall']
            if order.index('malloc') > order.index('free'):
                ok = False
                detail = 'the old block is freed before the new one was obtained'
        rows['grow-ok'].append((ok, loc, detail))
    for row, lst in rows.items():
        key = 'realloc:%s' % row
        if not lst:
            chk.bad('realloc-table', key, E.f.loc, '%s has no path for the case %s' % (fr, row), func=fr)
            continue
        bad = [x for x in lst if not x[0]]
        if bad:
            chk.bad('realloc-table', key, bad[0][1], '%s: %s' % (fr, bad[0][2]), func=fr)
        else:
            chk.ok('realloc-table', key, lst[0][1], '%d path(s) conform' % len(lst), func=fr)
    _emit(chk, 'header-offset', 'hdr:realloc-old-size', problems, E.f, 'old size read at pointer - H', fr)
    # the size == 0 row again with size bound to the constant 0: every feasible path must free and return NULL
    def preset(st):
        st.env[size] = Lin.const(0)
        st.notes[('nonnull', ptr)] = True
        st.notes[('nonnull', E.f.params[0])] = True
    E0 = Explorer(ctx, fr, preset)
    bad0 = None
    for (st, rv, loc) in E0.paths:
        frees = [e for e in st.events if e[0] == 'mcall' and e[1] == 'free']
        if not (len(frees) == 1 and isinstance(rv, Ptr) and rv.base == 'NULL'):
            bad0 = (loc, 'with ptr != NULL and size == 0 a path returns %r after %d free call(s); realloc(p, 0) must free p and '
                    'return NULL' % (rv, len(frees)))
    _emit(chk, 'realloc-table', 'realloc:size-zero-concrete', [bad0] if bad0 else [], E.f, 'all %d paths with size = 0 free and return NULL'
          % len(E0.paths), fr)
    # ---------------- overflow guards (calloc, reallocarray)
    for member in ('calloc', 'reallocarray'):
        fn = inst[member]
        E = Explorer(ctx, fn)
        f = E.f
        nm = [p for p in f.params if p.lower().startswith('nmemb')]
        sz = [p for p in f.params if p == 'size']
        if not nm or not sz:
            raise AnalysisBroken('%s: parameters nmemb/size not found' % fn)
        prod_txt = None
        problems = []
        nalloc = 0
        for (st, rv, loc) in E.paths:
            calls = [e for e in st.events if e[0] == 'mcall' and e[1] in ('malloc', 'realloc')]
            guard_atoms = [(a, t) for a, t in st.atoms if '/' in a]
            for c in calls:
                nalloc += 1
                # the division test must have been passed (false), or nmemb == 0
                prodvars = [k for k, v in st.env.items() if isinstance(v, Lin) and v == c[3][-1]]
                passed = any(((not t) if '!=' in a else t) for a, t in guard_atoms
                             if any(pv in a for pv in prodvars) and nm[0] in a and sz[0] in a) \
                    or any(a.replace(' ', '') == '(%s!=0)' % nm[0] and not t for a, t in st.atoms) \
                    or any(a.replace(' ', '') == '(%s==0)' % nm[0] and t for a, t in st.atoms)
                small = False
                s2 = PState()
                s2.facts = c[5]
                lim = Lin.const((1 << 32) - 1)
                if E.se.decide_le(Lin.sym(nm[0]) - lim, s2) is True and E.se.decide_le(Lin.sym(sz[0]) - lim, s2) is True:
                    small = True
                if not passed and not small:
                    problems.append((c[4], 'the product %s*%s reaches the allocation on a path that skipped the overflow test although '
                                     'the factors are not both below 2^32' % (nm[0], sz[0])))
                arg = c[3][-1]
                if not (isinstance(arg, Lin) and len(arg.t) == 1 and '*' in list(arg.t)[0]):
                    problems.append((c[4], 'the allocation size %r is not the checked product' % arg))
            if any((t if '!=' in a else not t) for a, t in guard_atoms) and not calls:
                # failing side of the overflow test
                if not (isinstance(rv, Ptr) and rv.base == 'NULL') or not errno_set(st, enomem):
                    problems.append((loc, 'an overflowing product does not return NULL with errno = ENOMEM'))
            if member == 'calloc':
                ms = [e for e in st.events if e[0] == 'memset']
                if calls and st.notes.get(('nonnull', 'malloc#1')) is not False:
                    okz = len(ms) == 1 and isinstance(ms[0][1][0], Ptr) and ms[0][1][0].base == 'malloc#1' and \
                        ms[0][1][1] == Lin.const(0) and ms[0][1][2] == calls[0][3][-1]
                    if not okz:
                        problems.append((loc, 'the new block is not zeroed over exactly the allocated product'))
        if nalloc == 0:
            problems.append((f.loc, 'no allocation call found'))
        _emit(chk, 'overflow-guard', 'overflow:%s' % member, problems, f, 'product checked on every path to the allocation', fn)
    chk.analysed['installed'] = inst


def _emit(chk, rule, key, problems, f, okmsg, fn):
    if problems:
        chk.bad(rule, key, problems[0][0], '%s: %s' % (fn, problems[0][1]), func=fn)
    else:
        chk.ok(rule, key, f.loc, okmsg, func=fn)
