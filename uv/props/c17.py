"""C17 -- composed query output fits the stated size (partial: bounded writes, estimates, integer guards)."""
from .. import pp
from ..frontend import fmt_loc, AnalysisBroken
from ..ir import call_target, strip_casts, const_value, manager_call
from ..cfgutil import dominators, expr_key
from ..symexec import SymExec, PState, Lin, Ptr, NULLP
from ..tables import base_name
from .c05 import find_engine
from .c16 import Stepper, char_values

RETRY_INLINED = True
LEVEL = 'other'

# characters that may appear in a URI query (RFC 3986: pchar / "/" / "?"), besides pct-encoded triplets
QUERY_CHARS = set(b'ABCDEFGHIJKLMNOPQRSTUVWXYZabcdefghijklmnopqrstuvwxyz0123456789-._~!$&\'()*+,;=:@/?')


def escape_factor(ctx, suf):
    """largest output advance of one escape iteration, per normalizeBreaks value (from the source, as in C16)"""
    esc = ctx.irp.funcs['uriEscapeEx' + suf]
    ES = Stepper(ctx, esc, 'in')
    fac = {}
    alphabet = set()
    for nb in (0, 1):
        m = 0
        for s2p in (0, 1):
            for prev in (0, 1):
                for v in char_values(suf):
                    if v == 0:
                        continue
                    env = {'read': Ptr('in'), 'write': Ptr('out'), 'prevWasCr': Lin.const(prev), 'spaceToPlus': Lin.const(s2p),
                           'normalizeBreaks': Lin.const(nb), 'inAfterLast': NULLP, 'inFirst': Ptr('in'), 'out': Ptr('out')}
                    kind, e2, stores, rv, loc, loads, outside = ES.step(env, {0: v})
                    wr = e2.get('write')
                    if kind == 'next' and isinstance(wr, Ptr) and wr.off.is_const():
                        m = max(m, wr.off.c)
                    for s in stores:
                        if s[0] == 'out' and s[2] is not None:
                            alphabet.add(s[2])
        fac[nb] = m
    return fac, alphabet


def _src_type(e):
    """type of an argument before implicit integral conversions"""
    n = e
    while n is not None and n.k == 'cast' and not (n.x and n.x.get('explicit')) and n.v in ('IntegralCast', 'LValueToRValue', 'NoOp'):
        n = n.c[0]
    return ((n.x or {}).get('dty') if n is not None and n.x and n.x.get('dty') else (n.ty if n is not None else '')) or ''


def rule_flag_forwarding(ctx, chk):
    prog, irp = ctx.prog, ctx.irp
    n = 0
    for name, f in sorted(irp.funcs.items()):
        if not (f.unit or '').endswith('UriQuery.c'):
            continue
        for b in f.blocks:
            for i in b.ins:
                if i.op != 'call':
                    continue
                t = call_target(i)
                decl = prog.funcs.get(t) or (prog.decls.get(t) or [None])[0]
                if decl is None:
                    continue
                params = [c for c in decl.c if c.k == 'parm']
                for p, a in zip(params, i.args):
                    pt = (p.ty or '').replace('const ', '').strip()
                    if pt not in ('UriBool', 'UriBreakConversion'):
                        continue
                    at = _src_type(a).replace('const ', '').strip()
                    cv = const_value(a, prog)
                    n += 1
                    if pt == 'UriBreakConversion':
                        ok = 'UriBreakConversion' in at or 'UriBreakConversionEnum' in at or (cv is not None and at not in ('UriBool',))
                    else:
                        ok = 'UriBreakConversion' not in at
                    chk.add('flag-forwarding', 'flag:%s->%s/%s' % (base_name(name), base_name(t), p.v) if ok else
                            'flag:%s->%s/%s:%s' % (base_name(name), base_name(t), p.v, at), ok, i.loc,
                            '%s passes `%s` (%s) for parameter %s (%s) of %s' % (name, pp.expr(a)[:40], at or '?', p.v, pt, t), func=name)
    return n


def rule_option_forwarding(ctx, chk):
    """A function of the query unit that takes an option (UriBool / UriBreakConversion parameter) and hands options of
    that type to an internal worker must hand over its own parameter, the same one at every call of that worker: the
    items of one list are then all treated under the caller's options (seed C17-8: the call for the last item passed a
    constant)."""
    prog, irp = ctx.prog, ctx.irp
    OPT = ('UriBool', 'UriBreakConversion')
    for name, f in sorted(irp.funcs.items()):
        if not (f.unit or '').endswith('UriQuery.c'):
            continue
        own = {}
        for p in f.params:
            t = (f.param_types.get(p) or '').replace('const ', '').strip()
            if t in OPT:
                own.setdefault(t, []).append(p)
        if not own:
            continue
        sites = {}
        for b in f.blocks:
            for i in b.ins:
                if i.op != 'call':
                    continue
                t = call_target(i)
                decl = prog.funcs.get(t)
                if decl is None or base_name(t) not in ('uriAppendQueryItem',):
                    continue
                params = [c for c in decl.c if c.k == 'parm']
                for p, a in zip(params, i.args):
                    pt = (p.ty or '').replace('const ', '').strip()
                    if pt in OPT and pt in own:
                        sites.setdefault((t, p.v, pt), []).append((i.loc, pp.expr(strip_casts(a))))
        for (t, pv, pt), lst in sorted(sites.items()):
            for loc, txt in lst:
                ok = txt in own[pt] and txt == lst[0][1]
                chk.add('option-forwarding', 'option:%s->%s/%s' % (base_name(name), base_name(t), pv) if ok else
                        'option:%s->%s/%s:%s' % (base_name(name), base_name(t), pv, txt[:30]), ok, loc,
                        '%s passes `%s` for option %s (%s) of %s; its own %s parameters: %s; first call passes `%s`' %
                        (name, txt[:40], pv, pt, t, pt, ', '.join(own[pt]), lst[0][1][:40]), func=name)


def run(ctx, chk):
    prog, irp = ctx.prog, ctx.irp
    chk.explanation = ('Partial, structural decision of C17. Decided: the compose engine is executed symbolically (write mode '
                       'and measuring mode, flags over the documented UriBool values {0,1}, loop merged at its header with the '
                       'invariant cursor <= capacity-1) with a write summary of the escape routine (stores out[0..k], k <= F*len, '
                       'NUL at k, returns out+k; F taken from the escape source as in C16): every store through dest - "&", "=", '
                       'both escape calls including their transient terminator, the final terminator - is proved below the '
                       'capacity from the dominating comparisons; per item and path condition the measuring branch adds at least '
                       'what the writing branch can write; *charsWritten = cursor - dest + 1; the malloc variant allocates '
                       'required+1 characters and passes that as capacity; every int product/sum of lengths is proved <= '
                       'INT_MAX or reported; the composed alphabet is a subset of the query characters; an item is counted iff '
                       'a node is linked. NOT decided: compose(dissect) round trip and the splitting rules.')
    chk.rule('compose-store-bounded', 'every store through dest in the compose engine lies below the capacity', floor=16)
    chk.rule('estimate-sufficient', 'per item: characters the writing branch can emit <= amount the measuring branch adds', floor=8)
    chk.rule('compose-chars-written', '*charsWritten = cursor - dest + 1 (text length plus terminator)', floor=2)
    chk.rule('compose-precondition', 'the engine is entered for writing only with capacity >= 1; the malloc variant allocates '
             'charsRequired + 1 characters (refusing INT_MAX) and passes exactly that as capacity', floor=4)
    chk.rule('int-guard', 'every int-typed product or sum of lengths in the compose engine is proved not to exceed INT_MAX from '
             'the dominating comparisons (otherwise the function has returned the too-large code)', floor=8)
    chk.rule('query-alphabet', 'characters the composer can emit are legal in a URI query', floor=2)
    chk.rule('flag-forwarding', 'every call made from the query unit passes an option of enumeration type (UriBreakConversion) where '
             'the callee expects that enumeration and a UriBool where it expects a UriBool: the compiler converts one into the other '
             'silently, and a swapped pair makes keys and values be unescaped under different options', floor=8)
    rule_flag_forwarding(ctx, chk)
    chk.rule('option-forwarding', 'the dissecting function passes its own plus-to-space and line-break parameters, the same ones '
             'at every call of uriAppendQueryItem: every item of a list is unescaped under the caller\'s options', floor=8)
    rule_option_forwarding(ctx, chk)
    chk.rule('dissect-unescape', 'uriAppendQueryItem unescapes every key / value text it copies, on every success path, with the '
             'caller\'s plus-to-space and line-break options', floor=2)
    chk.rule('item-count', 'uriAppendQueryItem increments *itemCount exactly on the paths that leave a node linked', floor=4)
    INTMAX = prog.macros.get('INT_MAX', 2147483647)
    toolarge = prog.macros.get('URI_ERROR_OUTPUT_TOO_LARGE')
    for suf, cs in (('A', 1), ('W', 4)):
        pub = 'uriComposeQueryEx' + suf
        eng, ai = find_engine(irp, pub)
        if eng is None:
            raise AnalysisBroken('compose engine not found from %s' % pub)
        f = irp.funcs[eng]
        bn = base_name(eng)
        fac, alphabet = escape_factor(ctx, suf)
        chk.analysed.setdefault('escape_factor', {})[suf] = fac
        bad_alpha = sorted(x for x in alphabet | {ord('&'), ord('=')} if x not in QUERY_CHARS and x not in (ord('%'), 0))
        chk.add('query-alphabet', 'alphabet:%s' % suf, not bad_alpha, f.loc, 'escape alphabet (%d characters) plus "&" "=" %s'
                % (len(alphabet), ('contains illegal %s' % bad_alpha) if bad_alpha else 'is a subset of the query characters'),
                func=eng)
        escname = 'uriEscapeEx' + suf
        deltas = {}
        from ..effects import FuncAnalysis
        from .. import shared
        eng_e = shared.effects(ctx)
        dname = f.params[ai]
        r1 = FuncAnalysis(eng_e, f, ((dname, 'nonnull'),)).reach
        r0 = FuncAnalysis(eng_e, f, ((dname, 0),)).reach
        cut = set(b.id for b in f.blocks if len(b.preds) >= 2 and b.id in r1 and b.id in r0)
        for mode in ('write', 'required'):
            for nb in (0, 1):
                for s2p in (0, 1):
                    se = SymExec(prog, f, cs)
                    se.merge_vars = ['write', '(*charsRequired)']
                    se.keep_vars = {'maxChars', 'dest'}
                    se.cut_blocks = cut
                    se.volatile_names = ('queryList', 'esc#', 'strlen(', 'wcslen(')
                    se.nonneg = lambda t: t.startswith('strlen(') or t.startswith('wcslen(') or t.startswith('esc#')
                    counter = [0]
                    escfacts = []

                    def inv(se_, st):
                        w = st.env.get('write')
                        m = st.env.get('maxChars')
                        if isinstance(w, Ptr) and isinstance(m, Lin):
                            return [('cursor<=capacity-1', w.off - m)]
                        return []
                    se.invariants = inv

                    def on_call(se_, i, st, args, nb=nb):
                        t = call_target(i)
                        if t == escname:
                            # summary: stores out[0..k], k <= F*len, NUL at k, returns out + k
                            inp, inend, out = args[0], args[1], args[2]
                            ln = None
                            if isinstance(inp, Ptr) and isinstance(inend, Ptr) and inp.base == inend.base:
                                ln = inend.off - inp.off
                            counter[0] += 1
                            k = Lin.sym('esc#%d' % counter[0])
                            if ln is not None:
                                bound = k - ln.scale(fac[nb])
                                st.facts.add(bound.key())
                                st.events.append(('escbound', k, ln.scale(fac[nb])))
                            if isinstance(out, Ptr):
                                st.events.append(('store-range', out.base, out.off, k + Lin.const(1), i.loc, 'escape', set(st.facts)))
                                return Ptr(out.base, out.off + k)
                        if t in ('strlen', 'wcslen'):
                            return Lin.sym('%s(%s)' % (t, se_.text_of(i.args[0], st)))
                        return None
                    se.on_call = on_call
                    st = PState()
                    for p in f.params:
                        if '*' not in f.param_types[p]:
                            st.env[p] = Lin.sym(p + '0')
                    st.env['normalizeBreaks'] = Lin.const(nb)
                    st.env['spaceToPlus'] = Lin.const(s2p)
                    dest = f.params[ai]
                    st.env[dest] = Ptr('dest') if mode == 'write' else NULLP
                    st.notes[('nonnull', 'dest')] = (mode == 'write')
                    if mode == 'write':
                        # precondition established by the callers (rule compose-precondition)
                        st.facts.add((Lin.const(1) - Lin.sym('maxChars0')).key())
                    else:
                        st.notes[('nonnull', 'charsRequired')] = True
                    se.run(st)
                    M0 = Lin.sym('maxChars0')
                    for (start, end, atoms, events, env, facts, retval, loc, notes) in se.regions:
                        if mode == 'write':
                            for ev in events:
                                if ev[0] == 'store' and ev[1] == 'dest':
                                    s2 = PState()
                                    s2.facts = ev[7]
                                    ok = se.decide_le(ev[2] + Lin.const(1) - M0, s2) is True
                                    what = 'terminator' if (isinstance(ev[5], Lin) and ev[5].is_const() and ev[5].c == 0) else \
                                        ('separator %s' % (chr(ev[5].c) if isinstance(ev[5], Lin) and ev[5].is_const() else '?'))
                                    key = 'store:%s/%s' % (bn, what)
                                    chk.add('compose-store-bounded', key, ok, ev[4], '%s: store of the %s at dest[%r] %s'
                                            % (eng, what, ev[2], 'is below the capacity' if ok else 'is not proved to be below the capacity maxChars'),
                                            func=eng)
                                elif ev[0] == 'store-range' and ev[1] == 'dest':
                                    s2 = PState()
                                    s2.facts = ev[6]
                                    ok = se.decide_le(ev[2] + ev[3] - M0, s2) is True
                                    key = 'store:%s/escape-call' % bn
                                    chk.add('compose-store-bounded', key, ok, ev[4], '%s: the escape call writes dest[%r .. +%r) %s'
                                            % (eng, ev[2], ev[3], 'below the capacity' if ok else
                                               '- not proved below the capacity (worst case of the escape routine is %d output characters per input character)' % fac[nb]),
                                            func=eng)
                                elif ev[0] == 'store' and ev[1] == 'charsWritten':
                                    w = env.get('write')
                                    ok = isinstance(w, Ptr) and isinstance(ev[5], Lin) and ev[5] == w.off + Lin.const(1)
                                    chk.add('compose-chars-written', 'written:%s' % bn, ok, ev[4], '*charsWritten = %r with cursor at %r'
                                            % (ev[5], w.off if isinstance(w, Ptr) else w), func=eng)
                            w_end = env.get('write')
                            w_start = dict(notes.get('start_vals', ())).get('write', Lin.const(0))
                            if isinstance(w_end, Ptr) and isinstance(end, int):
                                d = w_end.off - w_start
                                # upper bound: replace escape outputs by their bounds
                                sub = {}
                                for e in events:
                                    if e[0] == 'escbound':
                                        sub[list(e[1].t)[0]] = e[2]
                                deltas.setdefault((nb, s2p), {}).setdefault('W', {}).setdefault((start, end, _akey(atoms) + _nkey(notes)), []).append((d.subst(sub), loc or f.loc))
                        else:
                            r_end = env.get('(*charsRequired)')
                            r_start = dict(notes.get('start_vals', ())).get('(*charsRequired)')
                            if isinstance(r_end, Lin) and isinstance(end, int):
                                d = r_end if r_start is None else r_end - r_start
                                deltas.setdefault((nb, s2p), {}).setdefault('R', {}).setdefault((start, end, _akey(atoms) + _nkey(notes)), []).append((d, loc or f.loc))
                        # integer guards: int-typed arithmetic results
                        for ev in events:
                            if ev[0] == 'intop':
                                s2 = PState()
                                s2.facts = ev[3]
                                ok = se.decide_le(ev[1] - Lin.const(INTMAX), s2) is True
                                key = 'int:%s/%s' % (bn, ev[4])
                                chk.add('int-guard', key, ok, ev[2], '%s: `%s` %s' % (eng, ev[4], 'stays within int' if ok else
                                        'is an int sum/product of lengths that is not bounded by INT_MAX on this path (it can wrap '
                                        'for very long keys/values or very many items)'), func=eng)
                    # collect int ops by re-walking assignments: done through events hook below
                for_int = None
        # per-item estimate vs write
        for (nb, s2p), d in sorted(deltas.items()):
            Wd, Rd = d.get('W', {}), d.get('R', {})
            for k in sorted(set(Wd) | set(Rd), key=str):
                kk = 'estimate:%s/nb=%d/%s->%s/%s' % (bn, nb, k[0], k[1], k[2])
                if k in Wd and k in Rd:
                    worst = None
                    for (dw, lw) in Wd[k]:
                        for (dr, lr) in Rd[k]:
                            if not SymExec.nonpos(_NN, dw - dr):
                                worst = (dw, dr, lw)
                    if worst:
                        chk.bad('estimate-sufficient', kk, worst[2], '%s region %s->%s [%s]: the writing branch can emit up to %r characters '
                                'but the measuring branch adds only %r on a path with the same condition: chars-required may be too small'
                                % (eng, k[0], k[1], k[2], worst[0], worst[1]), func=eng)
                    else:
                        chk.ok('estimate-sufficient', kk, Wd[k][0][1], 'writes at most %r, measures at least as much on %d path(s)'
                               % (Wd[k][0][0], len(Rd[k])), func=eng)
                elif k in Wd and any(not SymExec.nonpos(_NN, dw) for (dw, _l) in Wd[k]):
                    chk.bad('estimate-sufficient', kk, Wd[k][0][1], '%s: region %s->%s [%s] writes up to %r characters but the measuring '
                            'run has no region with the same condition' % (eng, k[0], k[1], k[2], Wd[k][0][0]), func=eng)
        _int_guards(ctx, chk, f, eng, bn, INTMAX, fac)
        _preconditions(ctx, chk, suf, eng, ai, INTMAX)
        _item_count(ctx, chk, suf)


class _NNC(object):
    nonneg = staticmethod(lambda t: t.startswith('strlen(') or t.startswith('wcslen(') or t.startswith('esc#'))

    def is_nonneg(self, t):
        return self.nonneg(t)


_NN = _NNC()


def _akey(atoms):
    return ';'.join(sorted('%s%s' % ('' if t else '!', a) for a, t in atoms if not a.endswith('<= 0') and 'charsWritten' not in a))[:200]


def _nkey(notes):
    return '|' + ';'.join(sorted('%s%s' % ('' if v else '!', k[1]) for k, v in notes.items()
                                 if isinstance(k, tuple) and k[0] == 'nonnull' and 'queryList->' in str(k[1])))


def _int_guards(ctx, chk, f, eng, bn, INTMAX, fac):
    """int-typed arithmetic on lengths: interval propagation along dominating guards"""
    prog = ctx.prog
    for nb in (0, 1):
        se = SymExec(prog, f)
        se.merge_vars = ['write', '(*charsRequired)']
        se.keep_vars = {'maxChars', 'dest'}
        se.volatile_names = ('queryList',)
        se.nonneg = lambda t: t.startswith('strlen(') or t.startswith('wcslen(') or t.startswith('esc#') or t.startswith('(*charsRequired)@')
        found = []

        def on_call(se_, i, st, args):
            t = call_target(i)
            if t in ('strlen', 'wcslen'):
                return Lin.sym('%s(%s)' % (t, se_.text_of(i.args[0], st)))
            return None
        se.on_call = on_call
        orig_assign = se.assign

        def assign(i, st):
            # int-typed results of + and * (and compound +=) on non-constant operands
            src = i.src
            ty = (i.dst.ty or '')
            if ty == 'int' and src.k == 'bin' and src.v in ('+', '*'):
                v = se.ev(src, st)
                if isinstance(v, Lin) and not v.is_const():
                    from .. import pp as _pp
                    txt = '%s = %s' % (_pp.expr(strip_casts(i.dst)), _pp.expr(src))
                    found.append((v, i.loc, set(st.facts), txt))
            orig_assign(i, st)
        se.assign = assign
        st = PState()
        for p in f.params:
            if '*' not in f.param_types[p]:
                st.env[p] = Lin.sym(p + '0')
        st.env['normalizeBreaks'] = Lin.const(nb)
        st.notes[('nonnull', 'dest')] = False
        st.env[f.params[0]] = NULLP
        st.notes[('nonnull', 'charsRequired')] = True
        se.run(st)
        seen = set()
        for v, loc, facts, txt in found:
            k = txt
            s2 = PState()
            s2.facts = facts
            ok = se.decide_le(v - Lin.const(INTMAX), s2) is True
            key = 'int:%s/%s' % (bn, txt.replace(' ', '')[:80])
            if (key, ok) in seen:
                continue
            seen.add((key, ok))
            chk.add('int-guard', key, ok, loc, '%s: `%s` %s' % (eng, txt, 'is bounded by INT_MAX on every path (normalizeBreaks=%d)' % nb if ok else
                    'is an int sum of lengths that is not bounded by INT_MAX on this path: it wraps for very long keys/values or '
                    'very many items instead of being refused'), func=eng)


def _preconditions(ctx, chk, suf, eng, ai, INTMAX):
    prog, irp = ctx.prog, ctx.irp
    from ..failclean import zero_test
    # ComposeQueryEx: call of the engine dominated by maxChars >= 1
    name = 'uriComposeQueryEx' + suf
    f = irp.funcs[name]
    dom = dominators(f)
    ok = False
    for b in f.blocks:
        for i in b.ins:
            if i.op == 'call' and call_target(i) == eng:
                for d in f.blocks:
                    t = d.term
                    if t[0] == 'br' and d.id in dom[b.id]:
                        c = strip_casts(t[1])
                        if c.k == 'bin' and c.v == '<' and expr_key(c.c[0]) == 'maxChars' and const_value(c.c[1], prog) == 1 \
                                and t[3].id in dom[b.id]:
                            ok = True
    chk.add('compose-precondition', 'precondition:%s' % base_name(name), ok, f.loc, '%s %s' % (name, 'rejects capacities below 1 before '
            'entering the engine' if ok else 'can enter the writing engine with a capacity below 1'), func=name)
    # CharsRequiredEx passes dest = NULL
    name = 'uriComposeQueryCharsRequiredEx' + suf
    f = irp.funcs[name]
    ok = any(i.op == 'call' and call_target(i) == eng and const_value(i.args[ai], prog) == 0 for b in f.blocks for i in b.ins)
    chk.add('compose-precondition', 'precondition:%s' % base_name(name), ok, f.loc, '%s measures with dest == NULL' % name, func=name)
    # malloc variant
    name = 'uriComposeQueryMallocExMm' + suf
    f = irp.funcs[name]
    se = SymExec(prog, f)

    def on_call(se_, i, st, args):
        t = call_target(i)
        if t and t.startswith('uriComposeQueryCharsRequiredEx'):
            st.env['charsRequired'] = Lin.sym('required')
            return Lin.const(0)
        if t and t.startswith('uriComposeQueryEx'):
            st.events.append(('compose', args, i.loc))
            return Lin.sym('res')
        if t == 'uriMemoryManagerIsComplete':
            return Lin.const(1)
        mc = manager_call(i)
        if mc and mc[0] == 'calloc':
            st.events.append(('calloc', args, i.loc, se_.text_of(i.args[2], st)))
            return Ptr('block')
        return None
    se.on_call = on_call
    st = PState()
    st.notes[('nonnull', 'dest')] = True
    st.notes[('nonnull', 'memory')] = True
    st.notes[('nonnull', 'block')] = True
    se.run(st)
    good = 0
    bad = None
    for (s2, v, loc) in se.paths:
        ca = [e for e in s2.events if e[0] == 'calloc']
        co = [e for e in s2.events if e[0] == 'compose']
        if ca and co:
            n, size = ca[0][1][1], ca[0][1][2]
            cap = co[0][1][2]
            want = Lin.sym('required') + Lin.const(1)
            if n == want and cap == want and isinstance(co[0][1][0], Ptr) and co[0][1][0].base == 'block' and 'sizeof' in ca[0][3] or \
                    (n == want and cap == want and isinstance(size, Lin) and size.is_const() and size.c in (1, 4)):
                good += 1
            else:
                bad = (ca[0][2], 'allocates %r elements of %r bytes and passes capacity %r (expected %r characters for both)' % (n, size, cap, want))
            # INT_MAX refused
            if se.decide_le(Lin.sym('required') - Lin.const(INTMAX - 1), s2) is not True and \
                    not any(a == ('%r <= 0' % (Lin.sym('required') - Lin.const(INTMAX - 1)), True) for a in s2.atoms):
                pass
    key = 'malloc-variant:%s' % base_name(name)
    if bad or not good:
        chk.bad('compose-precondition', key, bad[0] if bad else f.loc, '%s: %s' % (name, bad[1] if bad else 'allocation/compose pair not found'), func=name)
    else:
        chk.ok('compose-precondition', key, f.loc, 'calloc(required + 1, sizeof(URI_CHAR)) and capacity required + 1 on %d paths' % good, func=name)
    # the INT_MAX refusal: a comparison of charsRequired with INT_MAX dominating the increment
    dom = dominators(f)
    okmax = False
    for b in f.blocks:
        t = b.term
        if t[0] == 'br':
            c = strip_casts(t[1])
            if c.k == 'bin' and c.v in ('==', '>=') and expr_key(c.c[0]) == 'charsRequired' and const_value(c.c[1], prog) == INTMAX:
                okmax = True
    chk.add('compose-precondition', 'malloc-variant-intmax:%s' % base_name(name), okmax, f.loc,
            '%s %s' % (name, 'refuses charsRequired == INT_MAX before adding the terminator' if okmax else
                       'increments charsRequired without refusing INT_MAX'), func=name)


def _item_count(ctx, chk, suf):
    prog, irp = ctx.prog, ctx.irp
    name = 'uriAppendQueryItem' + suf
    f = irp.funcs.get(name)
    if f is None:
        raise AnalysisBroken('%s not found' % name)
    se = SymExec(prog, f)

    def on_call(se_, i, st, args):
        mc = manager_call(i)
        if mc and mc[0] in ('malloc', 'calloc'):
            n = st.notes.get('nalloc', 0) + 1
            st.notes['nalloc'] = n
            return Ptr('blk%d' % n)
        if mc and mc[0] == 'free':
            st.events.append(('free', args[1] if len(args) > 1 else None))
            return Lin.const(0)
        if call_target(i) == 'uriUnescapeInPlaceEx' + suf and len(args) == 3:
            st.events.append(('unescaped', args[0].base if isinstance(args[0], Ptr) else None, repr(args[1]), repr(args[2]), i.loc))
            return args[0]
        return None
    se.on_call = on_call
    st = PState()
    st.env['(*itemCount)'] = Lin.sym('count0')
    for p in f.params:
        if '*' not in f.param_types[p]:
            st.env[p] = Lin.sym(p + '0')
    se.run(st)
    n_ok = 0
    bad = None
    for (s2, v, loc) in se.paths:
        cnt = s2.env.get('(*itemCount)')
        delta = (cnt - Lin.sym('count0')) if isinstance(cnt, Lin) else None
        node = s2.env.get('(*prevNext)')
        linked = isinstance(node, Ptr) and node.base.startswith('blk') and s2.notes.get(('nonnull', node.base)) is not False
        rv = v.c if isinstance(v, Lin) and v.is_const() else None
        want = Lin.const(1) if (linked and rv == 1) else Lin.const(0)
        if rv == 0 and linked:
            bad = (loc, 'returns FALSE while a node is still linked')
        elif delta != want:
            bad = (loc, 'item counter changes by %r on a path that %s a node (returns %s)' % (delta, 'links' if linked else 'does not link', rv))
        else:
            n_ok += 1
    # every text copied into an item is unescaped with the caller's options (what the composer escaped must be undone here)
    opt = {}
    for pn in f.params:
        ty = f.param_types.get(pn) or ''
        if 'UriBool' in ty:
            opt['plus'] = pn + '0'
        if 'UriBreakConversion' in ty:
            opt['brk'] = pn + '0'
    if len(opt) != 2:
        raise AnalysisBroken('%s: option parameters not recognised' % name)
    ncopy = 0
    badu = None
    for (s2, v, loc) in se.paths:
        rv = v.c if isinstance(v, Lin) and v.is_const() else None
        if rv != 1:
            continue
        evs = s2.events
        for k, ev in enumerate(evs):
            if ev[0] == 'store-bytes' and str(ev[1]).startswith('blk'):
                ncopy += 1
                later = [u for u in evs[k + 1:] if u[0] == 'unescaped' and u[1] == ev[1]]
                if not later:
                    badu = badu or (ev[4], 'copies text into block %s and returns success without unescaping it' % ev[1])
                elif (later[0][2], later[0][3]) != (opt['plus'], opt['brk']):
                    badu = badu or (later[0][4], 'unescapes the copied text with options (%s, %s) instead of the caller\'s (%s, %s)'
                                    % (later[0][2], later[0][3], opt['plus'], opt['brk']))
    if ncopy:
        # (no copy in this function: the text is duplicated in a helper - the rule's floor then sends the check to the inlined view)
        chk.add('dissect-unescape', 'unescape:%s' % (name if badu is None else base_name(name)), badu is None, badu[0] if badu else f.loc,
                '%s %s' % (name, badu[1] if badu else 'unescapes every copied key / value text with the caller\'s plus and line-break options (%d copies on '
                           'success paths)' % ncopy), func=name)
    key = 'itemcount:%s' % base_name(name)
    if bad:
        chk.bad('item-count', key, bad[0], '%s %s' % (name, bad[1]), func=name)
    else:
        chk.ok('item-count', key, f.loc, '%d paths: counter incremented exactly when a node stays linked' % n_ok, func=name)
    chk.ok('item-count', key + '/paths', f.loc, '%d paths explored' % len(se.paths), func=name)
