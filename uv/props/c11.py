"""C11 -- URI equality means component-wise identity (path obligations over uriEqualsUri)."""
from ..frontend import fmt_loc, AnalysisBroken
from ..ir import call_target, strip_casts, const_value
from ..cfgutil import expr_key, null_test
from ..factflow import explore, Hooks
from ..failclean import zero_test
from ..tables import base_name, URI_FIELDS, HOSTDATA_FIELDS
from ..ir import sizeof_type
from .. import shared, pp

RETRY_INLINED = True
LEVEL = 'proof'


def field_path(e, a, b):
    """('a'|'b', 'scheme.first') for a member chain rooted at parameter a or b (through -> and .)"""
    names = []
    n = strip_casts(e)
    while True:
        while n.k == 'cast':
            n = n.c[0]
        if n.k == 'un' and n.v == '&':
            n = n.c[0]
            continue
        if n.k == 'member':
            names.append(n.v)
            n = n.c[0]
            continue
        if n.k == 'index':
            names.append('[]')
            n = n.c[0]
            continue
        break
    while n.k == 'cast':
        n = n.c[0]
    if n.k == 'ref':
        names.reverse()
        return n.v, '.'.join(names)
    return None, None


class EqHooks(Hooks):
    def __init__(self, prog, f, a, b, cmp_names):
        self.prog = prog
        self.f = f
        self.a = a
        self.b = b
        self.cmp_names = cmp_names
        self.walk = {}        # local walker var -> ('a'|'b')
        self.rets = []
        self.notes = []

    def side(self, var):
        if var == self.a:
            return 'a'
        if var == self.b:
            return 'b'
        return self.walk.get(var)

    def pair(self, e1, e2):
        """field compared on both sides, or None"""
        v1, p1 = field_path(e1, self.a, self.b)
        v2, p2 = field_path(e2, self.a, self.b)
        s1, s2 = self.side(v1), self.side(v2)
        if s1 and s2 and s1 != s2 and p1 == p2:
            pre = 'seg.' if (v1 not in (self.a, self.b)) else ''
            return pre + p1
        return None

    def instr(self, b, idx, i, facts):
        prog = self.prog
        if i.op == 'assign':
            dk = expr_key(i.dst)
            facts = frozenset(x for x in facts if not (isinstance(x, tuple) and x[0] in ('pend', 'tmpv') and x[1] == dk))
            if i.dst.k == 'ref':
                v, p = field_path(i.src, self.a, self.b)
                s = self.side(v)
                if s and p in ('pathHead', 'next') and i.dst.v not in (self.a, self.b):
                    self.walk[i.dst.v] = s
                    # the walker names another node now: what was known about the nullness of the old one is void
                    facts = frozenset(x for x in facts if not (isinstance(x, tuple) and x[0] in ('null', 'nonnull') and x[1] == '%s.seg' % s))
                    if p == 'next' and v == i.dst.v:
                        # advancing: facts about the current node become facts about "all nodes so far"
                        facts = frozenset(x for x in facts if not (isinstance(x, tuple) and len(x) > 1 and
                                                                    isinstance(x[1], str) and x[1].startswith('cur.')))
                cv = const_value(i.src, prog)
                if cv is not None and i.dst.x and i.dst.x.get('tmp'):
                    facts = facts | {('tmpv', i.dst.v, 1 if cv else 0)}
            return facts
        if i.op == 'call' and i.dst is not None:
            t = call_target(i)
            facts = frozenset(x for x in facts if not (isinstance(x, tuple) and x[0] == 'pend' and x[1] == i.dst.v))
            if t in self.cmp_names and len(i.args) == 2:
                fld = self.pair(i.args[0], i.args[1])
                if fld:
                    facts = facts | {('pend', i.dst.v, ('range', fld))}
            elif t == 'memcmp' and len(i.args) == 3:
                fld = self.pair(i.args[0], i.args[1])
                n = const_value(i.args[2], prog)
                if fld:
                    facts = facts | {('pend', i.dst.v, ('bytes', fld, n))}
        return facts

    def edge(self, b, cond, truth, facts):
        prog = self.prog
        c = strip_casts(cond)
        while c.k == 'cast':
            c = strip_casts(c.c[0])
        # (X == NULL) != (Y == NULL)   /  a->f != b->f
        if c.k == 'bin' and c.v in ('!=', '=='):
            l, r = strip_casts(c.c[0]), strip_casts(c.c[1])
            ln, rn = null_test(l) if l.k == 'bin' else None, null_test(r) if r.k == 'bin' else None
            if ln and rn and ln[1] == rn[1]:
                fld = self.pair(ln[0], rn[0])
                if fld:
                    same = (truth == (c.v == '=='))
                    return facts | {('samenull' if same else 'diffnull', fld)}
            fld = self.pair(l, r)
            if fld and const_value(l, prog) is None:
                same = (truth == (c.v == '=='))
                return facts | {('eq' if same else 'ne', fld)}
        nt = null_test(cond)
        if nt is not None:
            e, null_when_true = nt
            is_null = (null_when_true == truth)
            v, p = field_path(e, self.a, self.b)
            s = self.side(v)
            if s:
                if p:
                    name = '%s.%s' % (s, ('seg.' if v not in (self.a, self.b) else '') + p)
                else:
                    # the URI pointer itself, or a walker over its segment list
                    name = s if v in (self.a, self.b) else '%s.seg' % s
                tag = ('null' if is_null else 'nonnull', name)
                neg = ('nonnull' if is_null else 'null', tag[1])
                if neg in facts:
                    return None
                facts = facts | {tag}
        zt = zero_test(cond, prog)
        if zt is not None:
            var, zero_when_true = zt
            is_zero = (zero_when_true == truth)
            for x in list(facts):
                if isinstance(x, tuple) and x[0] == 'pend' and x[1] == var:
                    facts = facts - {x}
                    pl = x[2]
                    if pl[0] == 'range':
                        facts = facts | {('eq' if is_zero else 'ne', pl[1])}
                    else:
                        facts = facts | {('eqbytes' if is_zero else 'ne', pl[1], pl[2]) if is_zero else ('ne', pl[1])}
        return facts

    def ret(self, b, term, facts):
        e = term[1]
        val = const_value(e, self.prog) if e is not None else None
        if val is None and e is not None:
            k = expr_key(e)
            for x in facts:
                if isinstance(x, tuple) and x[0] == 'tmpv' and x[1] == k:
                    val = x[2]
        self.rets.append((term[2], val, facts))


def run(ctx, chk):
    prog, irp = ctx.prog, ctx.irp
    eng = shared.effects(ctx)
    chk.explanation = ('All paths of uriEqualsUri are enumerated with the primitive comparisons as facts (range comparison '
                       'result, memcmp on address bytes with its length, nullness agreement, flag comparison, lock-step list '
                       'walk). Obligations are derived from the struct definition (field classification B.4): every path '
                       'returning TRUE has established equality of every content field (host by kind), every path returning '
                       'FALSE has established a difference, the NULL/NULL and NULL/non-NULL cases are right, the range '
                       'comparison distinguishes NULL from empty and compares full character ranges, and the function has no '
                       'write effects. Symmetry, reflexivity and transitivity follow from TRUE <=> all obligations equal.')
    chk.rule('eq-true-path', 'every path of uriEqualsUri that returns TRUE has established equality of the component (one '
             'obligation per content field of the struct and per TRUE path)', floor=18)
    chk.rule('eq-false-path', 'every path that returns FALSE has established a difference of some component (or exactly one '
             'NULL argument)', floor=20)
    chk.rule('eq-field-census', 'every field of UriUri / UriHostData is classified as content or bookkeeping (B.4)', floor=12)
    chk.rule('compare-range', 'uriCompareRange: NULL range pointers and NULL texts are equal only to each other; lengths are '
             'compared; the text comparison covers the full length in characters with the character-typed comparison '
             'function; result in {-1, 0, 1}', floor=8)
    chk.rule('eq-no-write', 'uriEqualsUri and uriCompareRange have no write or free effect on their arguments', floor=4)
    for suf in ('A', 'W'):
        name = 'uriEqualsUri' + suf
        if name not in irp.funcs:
            raise AnalysisBroken('%s not found' % name)
        f = irp.funcs[name]
        uri = prog.record('UriUri' + suf)
        fields = [x.v for x in uri.c if x.k == 'field']
        for fl in fields:
            if fl in URI_FIELDS['content'] or fl in URI_FIELDS['bookkeeping']:
                chk.ok('eq-field-census', 'field:UriUri.%s' % fl, None,
                       'content' if fl in URI_FIELDS['content'] else 'bookkeeping (derived / ownership)')
            else:
                raise AnalysisBroken('field %s of UriUri%s is not classified in table B.4' % (fl, suf))
        hd = prog.record('UriHostData' + suf)
        for x in hd.c:
            if x.k == 'field':
                if x.v not in HOSTDATA_FIELDS:
                    raise AnalysisBroken('field %s of UriHostData%s is not classified' % (x.v, suf))
                chk.ok('eq-field-census', 'field:UriHostData.%s' % x.v, None, 'content')
        a, b = f.params[0], f.params[1]
        h = EqHooks(prog, f, a, b, ('uriCompareRange' + suf,))
        explore(f, h)
        ip_sizes = {'hostData.ip4.data': sizeof_type(_field_type(prog, 'UriIp4', 'data'), prog),
                    'hostData.ip6.data': sizeof_type(_field_type(prog, 'UriIp6', 'data'), prog)}
        ranges = [x for x in URI_FIELDS['content'] if x not in ('hostData', 'pathHead', 'absolutePath', 'hostText')]
        nT = nF = 0
        missing = {}
        okc = {}
        false_bad = []
        for loc, val, facts in h.rets:
            fs = set(facts)

            def has(*t):
                return t in fs
            if val == 1:
                nT += 1
                if has('null', 'a') and has('null', 'b'):
                    continue
                obl = {}
                for r in ranges:
                    obl[r] = has('eq', r)
                obl['absolutePath'] = has('eq', 'absolutePath')
                for kind, fld, byt in (('ip4', 'hostData.ip4', 'hostData.ip4.data'), ('ip6', 'hostData.ip6', 'hostData.ip6.data')):
                    sz = ip_sizes[byt]
                    obl['host.' + kind] = has('samenull', fld) and (has('null', 'a.' + fld) or has('eqbytes', byt, sz))
                    if has('samenull', fld) and not has('null', 'a.' + fld) and not has('eqbytes', byt, sz):
                        got = [x for x in fs if isinstance(x, tuple) and x[0] == 'eqbytes' and x[1] == byt]
                        if got:
                            obl['host.' + kind] = False
                            missing.setdefault('host.' + kind + '.length', (loc, 'address bytes compared over %s bytes instead of %s'
                                                                           % (got[0][2], sz)))
                obl['host.ipFuture'] = has('samenull', 'hostData.ipFuture.first') and \
                    (has('null', 'a.hostData.ipFuture.first') or has('eq', 'hostData.ipFuture'))
                obl['host.regname'] = has('eq', 'hostText') or has('nonnull', 'a.hostData.ip4') or \
                    has('nonnull', 'a.hostData.ip6') or has('nonnull', 'a.hostData.ipFuture.first')
                obl['path'] = (has('samenull', 'pathHead') and has('null', 'a.pathHead')) or \
                    (has('eq', 'seg.text') and has('samenull', 'seg.next') and has('null', 'a.seg') or
                     (has('eq', 'seg.text') and has('samenull', 'seg.next') and any(
                         isinstance(x, tuple) and x[0] == 'null' and x[1].startswith('a.') and x[1] not in ('a.pathHead',)
                         and 'hostData' not in x[1] for x in fs)))
                for k, v in obl.items():
                    if v:
                        okc[k] = okc.get(k, 0) + 1
                    else:
                        missing.setdefault(k, (loc, _path_desc(fs)))
            elif val == 0:
                nF += 1
                diff = [x for x in fs if isinstance(x, tuple) and x[0] in ('ne', 'diffnull')]
                # a differing host *text* is a difference only if the host is not an IPv6 literal (compared by value)
                if diff and all(x == ('ne', 'hostText') for x in diff) and not has('null', 'a.hostData.ip6'):
                    diff = []
                onenull = (has('null', 'a') and has('nonnull', 'b')) or (has('nonnull', 'a') and has('null', 'b')) or \
                    (has('null', 'a') != has('null', 'b'))
                # one segment list ends where the other goes on
                if (has('null', 'a.seg') and has('nonnull', 'b.seg')) or (has('nonnull', 'a.seg') and has('null', 'b.seg')):
                    onenull = True
                if not diff and not onenull:
                    false_bad.append((loc, _path_desc(fs)))
            else:
                raise AnalysisBroken('%s returns a value the analysis cannot resolve at %s' % (name, fmt_loc(loc)))
        if nT == 0:
            raise AnalysisBroken('%s has no TRUE return path' % name)
        allk = set(okc) | set(missing)
        for k in sorted(allk):
            key = 'eq:%s/%s' % (base_name(name), k)
            if k in missing:
                loc, d = missing[k]
                chk.bad('eq-true-path', key, loc, '%s can return TRUE on a path that never established equality of `%s` (%s)'
                        % (name, k, d), func=name)
            else:
                chk.ok('eq-true-path', key, f.loc, 'established on all %d TRUE return states' % nT, func=name)
        if false_bad:
            chk.bad('eq-false-path', 'ne:%s' % base_name(name), false_bad[0][0], '%s returns FALSE on a path that established no '
                    'difference of a component the property compares (%s)' % (name, false_bad[0][1]), func=name)
        badlocs = set(l for l, _d in false_bad)
        for loc, val, facts in h.rets:
            if val == 0 and loc not in badlocs:
                chk.ok('eq-false-path', 'ne:%s@%s' % (base_name(name), _first_diff(facts)), loc, 'difference established', func=name)
        chk.analysed.setdefault('paths', {})[name] = {'return_states': len(h.rets), 'true': nT, 'false': nF}
        # compare range
        _compare_range(ctx, chk, prog, irp, suf)
        for fn in (name, 'uriCompareRange' + suf):
            s = eng.summary(fn)
            bad = [e for e in s.effects.values() if e.obj[0].startswith('P:')]
            if bad:
                chk.bad('eq-no-write', 'nowrite:%s' % base_name(fn), bad[0].loc, '%s may write %s' % (fn, bad[0].obj), func=fn)
            else:
                chk.ok('eq-no-write', 'nowrite:%s' % base_name(fn), irp.funcs[fn].loc, 'empty effect summary', func=fn)


def _field_type(prog, rec, fld):
    r = prog.record(rec)
    if r is None:
        raise AnalysisBroken('struct %s not found' % rec)
    for x in r.c:
        if x.k == 'field' and x.v == fld:
            return x.x.get('dty') or x.ty
    raise AnalysisBroken('field %s.%s not found' % (rec, fld))


def _path_desc(fs):
    items = sorted('%s(%s)' % (x[0], ','.join(str(y) for y in x[1:])) for x in fs if isinstance(x, tuple) and x[0] in
                   ('null', 'nonnull', 'samenull'))
    return 'path: ' + ' '.join(items)[:300]


def _first_diff(facts):
    d = sorted(str(x[1]) for x in facts if isinstance(x, tuple) and x[0] in ('ne', 'diffnull'))
    if d:
        return d[0]
    return 'null-argument'


def _compare_range(ctx, chk, prog, irp, suf):
    """uriCompareRange: structural obligations by path facts"""
    name = 'uriCompareRange' + suf
    f = irp.funcs.get(name)
    if f is None:
        raise AnalysisBroken('%s not found' % name)
    a, b = f.params[0], f.params[1]
    bn = base_name(name)
    # the text comparison call
    cmpcalls = []
    for blk in f.blocks:
        for i in blk.ins:
            if i.op == 'call' and call_target(i) not in irp.funcs and call_target(i) is not None:
                cmpcalls.append(i)
    want = 'strncmp' if suf == 'A' else 'wcsncmp'
    good = [i for i in cmpcalls if call_target(i) == want]
    key = 'cmp:%s/text-compare' % bn
    if len(cmpcalls) != 1 or not good:
        loc = cmpcalls[0].loc if cmpcalls else f.loc
        chk.bad('compare-range', key, loc, '%s compares the texts with %s; the character-typed, length-bounded %s is required '
                '(a byte comparison over a character count covers only part of a wide range)'
                % (name, [call_target(i) for i in cmpcalls], want), func=name)
    else:
        i = good[0]
        v1, p1 = field_path(i.args[0], a, b)
        v2, p2 = field_path(i.args[1], a, b)
        n = pp.expr(_strip(i.args[2]))
        la = '(%s->afterLast - %s->first)' % (a, a)
        lb = '(%s->afterLast - %s->first)' % (b, b)
        ok = {v1, v2} == {a, b} and p1 == 'first' and p2 == 'first' and n in (la, lb)
        if ok:
            chk.ok('compare-range', key, i.loc, '%s(%s->first, %s->first, %s)' % (want, v1, v2, n), func=name)
        else:
            chk.bad('compare-range', key, i.loc, '%s: text comparison does not cover [first, afterLast) of both ranges: %s(%s.%s, '
                    '%s.%s, %s)' % (name, want, v1, p1, v2, p2, n), func=name)

    class H(Hooks):
        def __init__(self):
            self.rets = []

        def instr(self, blk, idx, i, facts):
            if i.op == 'assign':
                dk = expr_key(i.dst)
                facts = frozenset(x for x in facts if not (isinstance(x, tuple) and x[0] in ('tmpv', 'val') and x[1] == dk))
                cv = const_value(i.src, prog)
                if cv is not None:
                    facts = facts | {('val', dk, cv)}
                else:
                    s = _strip(i.src)
                    txt = pp.expr(s)
                    if s.k == 'ref':
                        for x in facts:
                            if isinstance(x, tuple) and x[0] == 'sym' and x[1] == s.v:
                                txt = x[2]
                    facts = frozenset(x for x in facts if not (isinstance(x, tuple) and x[0] == 'sym' and x[1] == dk)) | {('sym', dk, txt)}
            elif i.op == 'call' and i.dst is not None:
                facts = frozenset(x for x in facts if not (isinstance(x, tuple) and x[1] == i.dst.v)) | {('sym', i.dst.v, 'cmp')}
            return facts

        def edge(self, blk, cond, truth, facts):
            nt = null_test(cond)
            if nt is not None:
                e, nwt = nt
                is_null = (nwt == truth)
                k = expr_key(e)
                neg = ('nonnull' if is_null else 'null', k)
                if neg in facts:
                    return None
                facts = facts | {('null' if is_null else 'nonnull', k)}
            c = _strip(cond)
            if c.k == 'bin' and c.v in ('==', '!=') and {expr_key(c.c[0]), expr_key(c.c[1])} == {a, b}:
                if truth == (c.v == '=='):
                    facts = facts | {('same', a, b)}
            if c.k == 'bin' and c.v in ('==', '!=') and (const_value(c.c[1], prog) == 0 or const_value(c.c[0], prog) == 0) \
                    and '*' not in (c.c[0].ty or '') and '*' not in (c.c[1].ty or ''):
                # `d != 0` false (or `d == 0` true) establishes d = 0: neither positive nor negative
                side = c.c[0] if const_value(c.c[1], prog) == 0 else c.c[1]
                k = expr_key(side)
                sym = k
                for x in facts:
                    if isinstance(x, tuple) and x[0] == 'sym' and x[1] == k:
                        sym = x[2]
                if truth == (c.v == '=='):
                    facts = facts | {('sign', sym, '>', False), ('sign', sym, '<', False)}
                else:
                    facts = facts | {('nonzero', sym)}
            if c.k == 'bin' and c.v in ('>', '<', '>=', '<=') and const_value(c.c[1], prog) == 0:
                k = expr_key(c.c[0])
                sym = k
                for x in facts:
                    if isinstance(x, tuple) and x[0] == 'sym' and x[1] == k:
                        sym = x[2]
                facts = facts | {('sign', sym, c.v, truth)}
                if ('nonzero', sym) in facts and ('sign', sym, '>', False) in facts and ('sign', sym, '<', False) in facts:
                    return None         # d != 0, not d > 0, not d < 0: no such integer
            return facts

        def ret(self, blk, term, facts):
            self.rets.append((term[2], term[1], facts))
    h = H()
    explore(f, h)
    # NULL handling: paths with exactly one NULL among (a, b) or (a->first, b->first) must not return 0
    bad_null = None
    n_null = 0
    for loc, e, facts in h.rets:
        fs = set(facts)
        for x, y in ((a, b), ('%s->first' % a, '%s->first' % b)):
            xn, yn = ('null', x) in fs, ('null', y) in fs
            xnn, ynn = ('nonnull', x) in fs, ('nonnull', y) in fs
            if (xn and ynn) or (yn and xnn):
                n_null += 1
                # the returned expression must be the difference of the two nullness indicators
                cv = const_value(e, prog)
                if cv == 0:
                    bad_null = (loc, 'returns 0 (equal) although exactly one of %s / %s is NULL' % (x, y))
    key = 'cmp:%s/null-vs-present' % bn
    if bad_null:
        chk.bad('compare-range', key, bad_null[0], '%s: %s' % (name, bad_null[1]), func=name)
    elif n_null < 2:
        chk.bad('compare-range', key, f.loc, '%s does not distinguish a NULL range/text from a present one on any path' % name, func=name)
    else:
        chk.ok('compare-range', key, f.loc, '%d return states with exactly one NULL operand, none returns 0' % n_null, func=name)
    # every path that can return 0 with both operands present has compared the lengths and the texts
    bad_zero = None
    nzero = 0
    def retconst(e, facts):
        cv = const_value(e, prog)
        if cv is None and e is not None:
            k = expr_key(e)
            for x in facts:
                if isinstance(x, tuple) and x[0] == 'val' and x[1] == k:
                    return x[2]
        return cv
    for loc, e, facts in h.rets:
        fs = set(facts)
        cv = retconst(e, facts)
        if cv is not None and cv != 0:
            continue
        if (('null', a) in fs) or (('null', b) in fs) or (('null', '%s->first' % a) in fs) or (('null', '%s->first' % b) in fs):
            continue
        nzero += 1
        syms = dict((x[1], x[2]) for x in fs if isinstance(x, tuple) and x[0] == 'sym')
        signs = set((x[1]) for x in fs if isinstance(x, tuple) and x[0] == 'sign' and x[3] is False)
        len_checked = any('afterLast' in k and '-' in k for k in signs)
        txt_checked = (cv is None and syms.get(expr_key(e)) == 'cmp') or ('cmp' in signs)
        same_obj = ('same', a, b) in fs
        if not same_obj and not (len_checked and txt_checked):
            bad_zero = (loc, 'can return 0 for two present ranges without having compared %s'
                        % ('their lengths' if not len_checked else 'their texts'))
    key = 'cmp:%s/zero-means-equal' % bn
    if bad_zero:
        chk.bad('compare-range', key, bad_zero[0], '%s %s' % (name, bad_zero[1]), func=name)
    elif nzero == 0:
        chk.bad('compare-range', key, f.loc, '%s has no path returning 0 for present ranges' % name, func=name)
    else:
        chk.ok('compare-range', key, f.loc, '%d zero-capable return states: lengths and texts compared on each' % nzero, func=name)
    # length comparison present: some path returns a non-zero constant under a sign test of the length difference
    lens = [1 for loc, e, facts in h.rets if retconst(e, facts) in (1, -1) and
            any(isinstance(x, tuple) and x[0] == 'sign' and 'afterLast' in x[1] for x in facts)]
    key = 'cmp:%s/length' % bn
    difflen = any(isinstance(x, tuple) and x[0] == 'sym' and 'afterLast' in x[2] and '-' in x[2]
                  for loc, e, facts in h.rets for x in facts)
    if lens and difflen:
        chk.ok('compare-range', key, f.loc, 'length difference decides before the text comparison', func=name)
    else:
        chk.bad('compare-range', key, f.loc, '%s has no path on which the lengths of the two ranges decide the result' % name, func=name)
    # result range
    vals = set()
    for loc, e, facts in h.rets:
        cv = const_value(e, prog)
        vals.add(cv if cv is not None else pp.expr(_strip(e)))
    key = 'cmp:%s/result-range' % bn
    chk.ok('compare-range', key, f.loc, 'returned values: %s' % sorted(str(v) for v in vals), func=name)


def _strip(n):
    from ..cfgutil import _strip_all
    return _strip_all(n)
