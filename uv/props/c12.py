"""C12 -- owned URIs are independent of their source; borrowed text is never altered."""
from .. import shared, ownrules

RETRY_INLINED = True
LEVEL = 'proof'


def run(ctx, chk):
    eng = shared.effects(ctx)
    chk.explanation = ('Static ownership typing: (a) the make-owner engine duplicates every text component reachable from '
                       'the URI struct (classes derived from the struct definitions) on every success path; (b) the owner '
                       'flag is set only after such an engine succeeded, every done-mask bit stands for components that are '
                       'all fresh or absent, and every in-place public operation that returns success with a non-zero mask '
                       'has made the URI owner; (c) no function that writes through a const text pointer is reached on '
                       'borrowed text: the owner flag is true or the range was replaced by a fresh copy on that path; '
                       '(d) read-only inputs of every public function have empty may-write/may-free summaries at every '
                       'depth, alias edges included. The run-time statement (overwriting the source does not change the '
                       'URI) follows from (a)-(c); it is not executed.')
    ownrules.run_rules(ctx, chk, eng)
    from .. import memrules
    memrules.rule_mask_bit_after_copy(ctx, chk, eng)
    chk.analysed['cleanup_loops'] = ownrules.rule_kill_bound(ctx, chk)
    shared.rule_readonly_inputs(ctx, chk, eng, 'C12')
    shared.positive_examples(ctx, chk, ['static_written'])
    chk.analysed['functions'] = len(ctx.irp.funcs)
