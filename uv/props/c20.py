"""C20 -- no mutable shared state; read-only inputs are never written (E3 + census)."""
from ..frontend import fmt_loc, AnalysisBroken
from ..effects import EffectEngine, fmt_obj
from ..ir import call_target, manager_call
from ..tables import IN_PARAMS, ALLOWED_EXTERNALS, base_name
from .. import shared

RETRY_INLINED = True
LEVEL = 'proof'


def run(ctx, chk):
    prog, irp = ctx.prog, ctx.irp
    eng = shared.effects(ctx)
    chk.explanation = ('Static decision of the structural statement behind C20: (1) census of every object with static '
                       'storage duration in the 15 library units: const at every level or proved never written by the '
                       'whole-program effect analysis; (2) for every public function, every read-only input parameter '
                       '(pointer-to-const in the public header, plus the frozen baseline table) has an empty may-write '
                       'and may-free summary at every depth, alias edges included; the mask query is analysed with its '
                       'summary specialised to inMask=0/outMask!=NULL; (3) only stateless or thread-safe external '
                       'functions are called; (4) no address of a local is stored into static storage. Interleavings '
                       'are not explored: the absence of shared written locations is what is proved.')
    shared.rule_census(ctx, chk, eng)
    shared.rule_readonly_inputs(ctx, chk, eng, 'C20')
    shared.rule_externals(ctx, chk)
    shared.rule_default_manager_functions(ctx, chk, eng)
    shared.positive_examples(ctx, chk, ['static_written'])
    chk.analysed['functions'] = len(irp.funcs)
    chk.analysed['effect_summaries'] = len(eng.summaries)
    chk.analysed['effect_function_analyses'] = eng.analyses
