"""C13 -- all memory goes through the supplied manager and is fully returned (structural rules 1-6)."""
from ..frontend import fmt_loc, AnalysisBroken
from ..ir import call_target, manager_call, strip_casts, const_value
from ..cfgutil import edge_conditions, expr_key, null_test
from ..effects import fmt_obj
from ..tables import base_name
from .. import shared, memrules

RETRY_INLINED = True
LEVEL = 'proof'


def run(ctx, chk):
    eng = shared.effects(ctx)
    chk.explanation = ('C13 is a property of allocation histories; what is decided statically are the structural conditions '
                       'that make every history balanced: (1) the C allocator is called only by the functions installed in '
                       'the default manager table, and that table is referenced only by the defaulting step; (2) in every '
                       'public function with a manager parameter the defaulting/completeness test precedes every use of the '
                       'manager, and an incomplete manager returns the dedicated code without any manager call; (3) every '
                       'manager call uses the function\'s own manager (receiver and first argument agree) and no function '
                       'that was handed a manager reaches the defaulting step of another entry point; (4) the pointer given '
                       'to the manager\'s free is a loaded value, not an address computation, never a string literal, stack '
                       'object or (non-empty) placeholder; (5) every place where a managed block can be stored in a '
                       'caller-visible structure is released by the matching free function; (6) the free functions NULL '
                       'what they release, so freeing twice frees nothing. The balance of concrete runs is implied by these, '
                       'not observed.')
    memrules.rule_who_may_call(ctx, chk, eng)
    memrules.rule_check_first(ctx, chk, eng)
    memrules.rule_same_manager(ctx, chk, eng)
    memrules.rule_no_foreign_default(ctx, chk, eng)
    memrules.rule_exact_pointer(ctx, chk, eng)
    memrules.rule_sink_coverage(ctx, chk, eng)
    memrules.rule_free_then_null(ctx, chk, eng)
    memrules.rule_typestate(ctx, chk, eng, kinds=('double-free', 'use-after-free'), rule='no-double-free')
    # segment texts that were replaced by fresh copies are released when segments are removed
    from ..report import Check
    from .. import ownrules
    tmp = Check('tmp')
    ownrules.run_rules(ctx, tmp, eng)
    chk.rule('ownership-flag', tmp.rules['ownership-flag'], floor=4)
    for o in tmp.obls:
        if o.rule == 'ownership-flag':
            chk.obls.append(o)
    shared.positive_examples(ctx, chk, ['static_written'], want_alloc=True)
    chk.analysed['functions'] = len(ctx.irp.funcs)
