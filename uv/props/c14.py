"""C14 -- allocation failures are reported cleanly (partial: structural rules a-f)."""
from .. import shared, memrules
from ..failclean import FailClean
from ..tables import base_name
from ..frontend import fmt_loc

RETRY_INLINED = True
LEVEL = 'other'


def producers(ctx):
    """public functions that produce a fresh URI into an output parameter: they (transitively) reset it"""
    prog, irp = ctx.prog, ctx.irp
    from ..ir import call_target
    reach_reset = set()
    calls = {}
    for name, f in irp.funcs.items():
        cs = set()
        for b in f.blocks:
            for i in b.ins:
                if i.op == 'call':
                    t = call_target(i)
                    if t:
                        cs.add(t)
        calls[name] = cs
        if any(c.startswith('uriResetUri') for c in cs):
            reach_reset.add(name)
    changed = True
    while changed:
        changed = False
        for n, cs in calls.items():
            if n not in reach_reset and cs & reach_reset:
                reach_reset.add(n)
                changed = True
    pub = prog.public_functions()
    return sorted(n for n in pub if n in reach_reset and n in irp.funcs and '_TESTING_ONLY_' not in n)


def rule_producers_fail_clean(ctx, chk, rule='cleanup-on-failure'):
    irp = ctx.irp
    prods = producers(ctx)
    chk.rule(rule, 'every public function that produces a fresh URI (parse, resolve, create reference) releases the output '
             'URI on every path to a non-success return: must-pass-through the release function after the last allocating '
             'call, with callee summaries computed as a greatest fixpoint (a callee that fails has either cleaned up itself '
             'or the caller does)', floor=16)
    fc = FailClean(irp)
    r = fc.solve(prods)
    for n in prods:
        key = 'producer:%s' % base_name(n)
        if r[n][0]:
            chk.ok(rule, key, irp.funcs[n].loc, '%s: all failure returns are clean' % n, func=n)
        else:
            # walk down to the deepest function that returns a failure dirty
            loc, detail = fc.violations[n][0]
            cur = n
            seen = set()
            while detail.startswith('result of ') and cur not in seen:
                seen.add(cur)
                nxt = detail.split()[2]
                if nxt in fc.violations:
                    cur = nxt
                    loc, detail = fc.violations[nxt][0]
                else:
                    break
            chk.bad(rule, key, loc, '%s can return a failure while blocks allocated for the output URI are outstanding: '
                    '%s returns at %s without passing through the release function' % (n, cur, fmt_loc(loc)), func=n)
    chk.analysed['producers'] = prods
    chk.analysed['cleanup_scope_functions'] = len(fc.scope)
    chk.analysed['always_release_functions'] = sorted(fc.always_rel)


def run(ctx, chk):
    eng = shared.effects(ctx)
    chk.explanation = ('Partial, structural decision of C14: (a) every manager allocation result is NULL-tested before it is '
                       'dereferenced; (b) every internal call that can report an allocation failure is tested and the '
                       'failure region returns the out-of-memory value; (c) per-function typestate over all paths: each block '
                       'is freed, stored into caller-visible memory or returned at every exit, never freed twice, never used '
                       'after free; (d) producers of fresh URIs release the output on every failure return (must-pass-through '
                       'with callee summaries); (e) revert protocol of the in-place operations: fresh text stored into the '
                       'URI is covered by the done-mask handed to the revert routine or freed locally before a failure '
                       'return; (f) read-only inputs have empty write/free summaries on all paths; (g) list integrity at every '
                       'return of the functions that free or link path-segment nodes (freed node unlinked from what the cleanup '
                       'walks, linked malloc node terminated); (h) every field the release functions read is written in a '
                       'malloc\'ed node before the node escapes or is handed to a reader. NOT decided: freedom from leaks for structures that already '
                       'escaped into the URI in general, i.e. the full statement for every k.')
    memrules.rule_typestate(ctx, chk, eng, kinds=('unchecked-alloc', 'leak-at-exit', 'lost-block', 'double-free',
                                                   'use-after-free'), rule='alloc-discipline')
    memrules.rule_alloc_failure_propagated(ctx, chk, eng)
    rule_producers_fail_clean(ctx, chk)
    memrules.rule_revert_protocol(ctx, chk, eng)
    memrules.rule_mask_bit_after_copy(ctx, chk, eng)
    shared.rule_readonly_inputs(ctx, chk, eng, 'C14')
    from ..listrules import rule_list_integrity
    chk.rule('list-integrity', 'at every return, success or failure, of a function that frees or links path-segment nodes: a freed node '
             'is unlinked (its predecessor\'s next / pathHead reassigned, or the predecessor freed too) and a linked malloc node has its '
             'next written -- what the cleanup after a failure walks through', floor=6)
    nf, nfree, nlink = rule_list_integrity(ctx, chk)
    chk.analysed['list_functions'] = nf
    chk.analysed['node_free_sites'] = nfree
    chk.analysed['node_link_sites'] = nlink
    from ..initrules import rule_node_init
    chk.rule('node-init', 'a malloc\'ed list node (path segment, query item) has every field the release functions read (taken from '
             'their current source) written before it is reachable from caller-visible memory at a return or handed to a library '
             'function that reads the field', floor=6)
    nf, nsites, fields, rel = rule_node_init(ctx, chk)
    chk.analysed['node_malloc_functions'] = nf
    chk.analysed['node_malloc_sites'] = nsites
    chk.analysed['release_read_fields'] = fields
    chk.analysed['functions'] = len(ctx.irp.funcs)
