"""C05 -- string output never exceeds the caller's buffer; reported sizes are exact (E5)."""
from ..frontend import fmt_loc, AnalysisBroken
from ..ir import call_target, strip_casts
from ..symexec import SymExec, PState, Lin, Ptr
from ..tables import base_name

RETRY_INLINED = True
LEVEL = 'proof'


def find_engine(irp, pubname):
    """the function reached from the public writer that stores through the forwarded `dest` parameter"""
    f = irp.funcs[pubname]
    for b in f.blocks:
        for i in b.ins:
            if i.op == 'call':
                t = call_target(i)
                if t in irp.funcs:
                    for ai, a in enumerate(i.args):
                        s = strip_casts(a)
                        while s.k == 'cast':
                            s = strip_casts(s.c[0])
                        if s.k == 'ref' and s.v == f.params[0]:
                            return t, ai
    return None, None


def run_mode(prog, f, dest, mode, char_size, cut=None):
    se = SymExec(prog, f, char_size)
    se.merge_vars = ['written', '(*charsRequired)']
    se.cut_blocks = cut
    se.keep_vars = {'maxChars'}

    def inv(se_, st):
        w = st.env.get('written')
        m = st.env.get('maxChars')
        if isinstance(w, Lin) and isinstance(m, Lin):
            return [('written<=maxChars', w - m)]
        return []
    se.invariants = inv
    st = PState()
    for p in f.params:
        if '*' not in f.param_types[p]:
            st.env[p] = Lin.sym(p + '0')
    st.notes[('nonnull', dest)] = (mode == 'write')
    if mode == 'required':
        st.notes[('nonnull', 'charsRequired')] = True
    st.notes[('nonnull', 'uri')] = True
    se.run(st)
    return se


def atoms_key(atoms):
    out = []
    for txt, truth in atoms:
        if 'maxChars0' in txt or txt.startswith('charsWritten ==') or txt.startswith('charsRequired =='):
            continue
        out.append((txt, truth))
    return frozenset(out)


def run(ctx, chk):
    prog, irp = ctx.prog, ctx.irp
    chk.explanation = ('Symbolic execution (linear expressions over opaque lengths, facts from dominating comparisons, '
                       'constant-trip loops unrolled, the segment loop summarised with the invariant written <= maxChars) of the '
                       'function that stores through `dest`, once with dest != NULL and once with dest == NULL. Obligations: '
                       'every capacity comparison covers exactly the characters appended before the next comparison (so no '
                       'store exceeds the capacity and the exact-fit capacity is accepted); single stores (reset, terminator) '
                       'are inside the capacity; `written` advances by exactly what was stored; every failing exit resets '
                       'dest[0] and *charsWritten and returns the too-long code; per region and path condition the amount '
                       'appended equals the amount added to *charsRequired; *charsWritten is the cursor after the terminator. '
                       'All paths, all capacities (symbolic), both character types.')
    chk.rule('append-bounded', 'every group of stores into dest is preceded by a capacity comparison that holds exactly '
             '`cursor + characters appended until the next comparison <= capacity - 1`; offsets are contiguous', floor=40)
    chk.rule('single-store-bounded', 'every other store into dest (reset to empty string, terminator) is at an index proved '
             'smaller than the capacity', floor=4)
    chk.rule('cursor-advance', 'on every region path the cursor advances by exactly the number of characters stored', floor=40)
    chk.rule('failure-state', 'every failing exit after the capacity was found >= 1 leaves dest[0] = 0, sets *charsWritten = 0 '
             'when given, returns the too-long code, and stores nothing else; with capacity < 1 nothing is stored', floor=20)
    chk.rule('required-equals-written', 'for every region of the function and every path condition, the characters appended '
             'with dest != NULL equal the amount added to *charsRequired with dest == NULL', floor=40)
    chk.rule('chars-written', 'on success *charsWritten is the cursor after the terminator and the return code is success',
             floor=2)
    toolong = prog.macros.get('URI_ERROR_TOSTRING_TOO_LONG')
    for suf, cs in (('A', 1), ('W', 4)):
        pubname = 'uriToString' + suf
        if pubname not in irp.funcs:
            raise AnalysisBroken('%s not found' % pubname)
        eng, ai = find_engine(irp, pubname)
        if eng is None:
            raise AnalysisBroken('cannot find the function that receives dest from %s' % pubname)
        f = irp.funcs[eng]
        dest = f.params[ai]
        bn = base_name(eng)
        M0 = Lin.sym('maxChars0')
        # merge points: join blocks reachable with dest != NULL as well as with dest == NULL
        from ..effects import FuncAnalysis
        from .. import shared
        eng_e = shared.effects(ctx)
        r1 = FuncAnalysis(eng_e, f, ((dest, 'nonnull'),)).reach
        r0 = FuncAnalysis(eng_e, f, ((dest, 0),)).reach
        cut = set(b.id for b in f.blocks if len(b.preds) >= 2 and b.id in r1 and b.id in r0)
        W = run_mode(prog, f, dest, 'write', cs, cut)
        R = run_mode(prog, f, dest, 'required', cs, cut)
        chk.analysed.setdefault('symbolic_execution', {})[eng] = {
            'write_mode_regions': len(W.regions), 'required_mode_regions': len(R.regions),
            'block_visits': W.npaths + R.npaths, 'summarised_loop_iterations': len(W.iterations) + len(R.iterations)}
        n_app = 0
        deltasW = {}
        for (start, end, atoms, events, env, facts, retval, loc, notes) in W.regions:
            # ---- walk events
            groups = []
            cur = None
            fail = False
            stores_after_fail = []
            singles = []
            for ev in events:
                if ev[0] == 'check':
                    l, truth = ev[1], ev[2]
                    if 'maxChars0' not in repr(l):
                        continue
                    # what the taken edge establishes, as `est <= 0`; the capacity suffices when maxChars enters negatively
                    # (so `a + n <= m`, `m - a >= n` and `!(a + n > m)` are the same check)
                    est = l if truth else (l.scale(-1) + Lin.const(1))
                    coef = sum(v for k, v in est.t.items() if 'maxChars0' in k)
                    if all('maxChars0' in k for k in est.t) and ((coef > 0 and est.c == 0) or (coef < 0 and est.c == 1)):
                        # the test `capacity >= 1` on the capacity alone (`maxChars < 1`): its "capacity >= 1" edge opens the first
                        # region, which only resets dest[0]; that region is excluded from the append accounting
                        if coef < 0:
                            fail = True
                            cur = None
                        else:
                            cur = {'l': est, 'stores': [], 'loc': ev[3]}
                            groups.append(cur)
                        continue
                    if coef < 0:
                        cur = {'l': est, 'stores': [], 'loc': ev[3]}
                        groups.append(cur)
                    else:
                        fail = True
                        cur = None
                elif ev[0] == 'store-bytes' and ev[1] == dest:
                    n = ev[3]
                    if not isinstance(n, Lin) or any(v % cs for v in n.t.values()) or n.c % cs:
                        chk.bad('append-bounded', 'append:%s/units@%s' % (bn, ev[8]), ev[4], '%s: byte count `%s` of a copy into dest is '
                                'not a whole number of characters (sizeof(URI_CHAR) = %d)' % (eng, ev[8], cs), func=eng)
                        continue
                    chars = Lin(dict((k, v // cs) for k, v in n.t.items()), n.c // cs)
                    if fail:
                        stores_after_fail.append(ev)
                    elif cur is None:
                        chk.bad('append-bounded', 'append:%s/unchecked' % bn, ev[4], '%s copies %r characters into dest at '
                                'offset %r without a preceding capacity comparison' % (eng, chars, ev[2]), func=eng)
                    else:
                        cur['stores'].append((ev[2], chars, ev[4]))
                elif ev[0] == 'store' and ev[1] == dest:
                    singles.append((ev, fail))
                    if not fail:
                        cur = None if cur is None or cur['stores'] else cur
            stored = Lin.const(0)
            for g in groups:
                if not g['stores']:
                    continue
                w0 = g['stores'][0][0]
                tot = Lin.const(0)
                ok = True
                for off, chars, sloc in g['stores']:
                    if not (off == w0 + tot):
                        ok = False
                    tot = tot + chars
                expect = w0 + tot - M0 + Lin.const(1)
                n_app += 1
                key = 'append:%s/%s' % (bn, _term_name(tot))
                if ok and g['l'] == expect:
                    chk.ok('append-bounded', key, g['loc'], 'check `%r <= 0` covers %d store(s) of %r characters' %
                           (g['l'], len(g['stores']), tot), func=eng)
                else:
                    chk.bad('append-bounded', key, g['loc'], '%s: the capacity comparison establishes `%r <= 0` but the stores '
                            'that follow append %r characters at offset %r (needs `%r <= 0`)%s'
                            % (eng, g['l'], tot, w0, expect, '' if ok else '; offsets are not contiguous'), func=eng)
                stored = stored + tot
            # single stores
            term_off = None
            for ev, after_fail in singles:
                off = ev[2]
                l = off + Lin.const(1) - M0
                st = PState()
                st.facts = ev[7]
                dec = W.decide_le(l, st)
                key = 'single:%s/%s' % (bn, 'reset' if (off.is_const() and off.c == 0) else 'terminator')
                if dec is True:
                    chk.ok('single-store-bounded', key, ev[4], 'index %r < capacity proved from %d facts' % (off, len(ev[7])), func=eng)
                else:
                    chk.bad('single-store-bounded', key, ev[4], '%s stores into dest[%r] where the index is not proved to be '
                            'smaller than the capacity' % (eng, off), func=eng)
                if not (off.is_const() and off.c == 0):
                    term_off = off
                    stored = stored + Lin.const(1)
            # cursor advance
            w_start = dict(notes.get('start_vals', ())).get('written', Lin.const(0))
            w_end = env.get('written')
            if not fail and isinstance(w_end, Lin) and (groups or term_off is not None):
                d = w_end - w_start
                key = 'advance:%s/%s' % (bn, _term_name(stored))
                if d == stored:
                    chk.ok('cursor-advance', key, loc or (f.loc), 'cursor += %r' % d, func=eng)
                else:
                    chk.bad('cursor-advance', key, groups[0]['loc'] if groups else f.loc, '%s: the cursor advances by %r although '
                            '%r characters were stored in this region' % (eng, d, stored), func=eng)
            if not fail and isinstance(w_end, Lin):
                deltasW[(start, end if not isinstance(end, tuple) else end, atoms_key(atoms))] = (w_end - w_start - (Lin.const(1) if term_off is not None else Lin.const(0)),
                                                                                                   loc or f.loc)
            # failure state
            if fail:
                key = 'fail:%s' % bn
                zero = [ev for ev, af in singles if af and ev[2].is_const() and ev[2].c == 0 and isinstance(ev[5], Lin) and ev[5].is_const() and ev[5].c == 0]
                others = [ev for ev, af in singles if af and not (ev[2].is_const() and ev[2].c == 0)] + stores_after_fail
                cw = notes.get(('nonnull', 'charsWritten'))
                cwv = [e for e in events if e[0] == 'store' and e[1] == 'charsWritten']
                # the region may end at a join before the return: the code is checked at the return region
                if not zero:
                    chk.bad('failure-state', key, events[-1][4] if events and len(events[-1]) > 4 else f.loc, '%s: a failing path does '
                            'not reset dest[0]' % eng, func=eng)
                elif others:
                    chk.bad('failure-state', key, others[0][4], '%s: a failing path stores into dest beyond the reset' % eng, func=eng)
                elif cw is True and not any(isinstance(e[5], Lin) and e[5].is_const() and e[5].c == 0 for e in cwv):
                    chk.bad('failure-state', key, f.loc, '%s: a failing path does not set *charsWritten = 0' % eng, func=eng)
                else:
                    chk.ok('failure-state', key, f.loc, 'reset and *charsWritten = 0', func=eng)
            if term_off is not None and not fail:
                cwv = [e for e in events if e[0] == 'store' and e[1] == 'charsWritten']
                if True:
                    good = notes.get(('nonnull', 'charsWritten')) is not True or \
                        any(isinstance(e[5], Lin) and e[5] == term_off + Lin.const(1) for e in cwv)
                    if good:
                        chk.ok('chars-written', 'written:%s/%s' % (bn, notes.get(('nonnull', 'charsWritten'))), loc or f.loc, '*charsWritten = cursor after terminator (when given)', func=eng)
                    else:
                        chk.bad('chars-written', 'written:%s' % bn, loc or f.loc, '%s: *charsWritten is not the cursor after the terminator' % eng, func=eng)
        # early failures: ret regions whose value is the too-long code
        for (st_, v, loc) in W.paths:
            if isinstance(v, Lin) and v.is_const() and v.c not in (0, toolong) and v.c != prog.macros.get('URI_ERROR_NULL'):
                chk.bad('failure-state', 'code:%s' % bn, loc, '%s returns unexpected code %d' % (eng, v.c), func=eng)
        # required == written per region
        deltasR = {}
        for (start, end, atoms, events, env, facts, retval, loc, notes) in R.regions:
            r_start = dict(notes.get('start_vals', ())).get('(*charsRequired)')
            r_end = env.get('(*charsRequired)')
            if not isinstance(r_end, Lin):
                continue
            if r_start is None:
                # first region: value is assigned (= 0) inside
                d = r_end
            else:
                d = r_end - r_start
            deltasR[(start, end, atoms_key(atoms))] = (d, loc or f.loc)
        keys = set(deltasW) | set(deltasR)
        for k in sorted(keys, key=lambda x: (str(x[0]), str(x[1]), sorted(x[2]))):
            kk = 'region:%s/%s->%s/%s' % (bn, k[0], k[1], _akey(k[2]))
            if k in deltasW and k in deltasR:
                dw, dr = deltasW[k][0], deltasR[k][0]
                if dw == dr:
                    chk.ok('required-equals-written', kk, deltasW[k][1], 'both add %r' % dw, func=eng)
                else:
                    chk.bad('required-equals-written', kk, deltasW[k][1], '%s: with dest != NULL this region appends %r characters, '
                            'with dest == NULL it adds %r to *charsRequired (path condition: %s)' % (eng, dw, dr, _akey(k[2])), func=eng)
            elif k in deltasW:
                dw = deltasW[k][0]
                if dw == Lin.const(0):
                    continue
                chk.bad('required-equals-written', kk, deltasW[k][1], '%s: region appends %r characters but has no counterpart in '
                        'the measuring run' % (eng, dw), func=eng)
            else:
                dr = deltasR[k][0]
                if dr == Lin.const(0):
                    continue
                chk.bad('required-equals-written', kk, deltasR[k][1], '%s: measuring run adds %r in a region with no counterpart in '
                        'the writing run' % (eng, dr), func=eng)
        for ev_list in [r[3] for r in W.regions]:
            for ev in ev_list:
                if ev[0] == 'invariant-broken':
                    chk.bad('append-bounded', 'loop-invariant:%s' % bn, ev[2], '%s: the invariant cursor <= capacity is not '
                            're-established at the back edge of the loop' % eng, func=eng)


def _term_name(l):
    return repr(l).replace(' ', '')[:90]


def _akey(atoms):
    return ';'.join(sorted('%s%s' % ('' if t else '!', a) for a, t in atoms))[:160]
