"""C07 -- URIs produced keep their meaning when written and read back (partial: guard on every producer,
host / absolute-path flag, ranges written in pairs, tail of appended lists).

NOT decided: re-read equality for all operation sequences (what dot-segment removal exposes at the head of a path)."""
from ..frontend import AnalysisBroken, fmt_loc
from ..ir import call_target, strip_casts, const_value
from ..cfgutil import expr_key
from ..factflow import explore, Hooks
from ..pathenum import enumerate_paths
from ..report import Check
from ..tables import base_name
from .. import resolverules as RR

RETRY_INLINED = True
LEVEL = 'other'

GUARDS = ('uriFixAmbiguity',)
DOTREMOVERS = ('uriRemoveDotSegmentsEx', 'uriRemoveDotSegmentsAbsolute', 'uriRemoveDotSegments')


def reachable_from(irp, roots):
    seen = set()
    st = list(roots)
    while st:
        n = st.pop()
        if n in seen or n not in irp.funcs:
            continue
        seen.add(n)
        for b in irp.funcs[n].blocks:
            for i in b.ins:
                if i.op == 'call':
                    t = call_target(i)
                    if t:
                        st.append(t)
    return seen


def range_base(e):
    """(base key, 'first'|'afterLast') if e designates an end of a text range"""
    n = strip_casts(e)
    if n is not None and n.k == 'un' and n.v == '&':
        n = strip_casts(n.c[0])
    if n is not None and n.k == 'member' and n.v in ('first', 'afterLast'):
        bt = (n.c[0].ty or '')
        if 'TextRange' in bt:
            return expr_key(n.c[0]), n.v
    return None


class PairHooks(Hooks):
    """facts: ('pend', base, end) = that end of the range was written on this path and the other one not since"""

    def __init__(self):
        self.bad = []

    def write(self, facts, base, end):
        other = 'afterLast' if end == 'first' else 'first'
        if ('pend', base, other) in facts:
            return facts - {('pend', base, other)}
        return facts | {('pend', base, end)}

    def instr(self, b, idx, i, facts):
        if i.op == 'assign':
            rb = range_base(i.dst)
            if rb:
                return self.write(facts, rb[0], rb[1])
            return facts
        if i.op == 'call':
            # ends passed by address may be written by the callee; an end passed by value together with the address of the
            # other end is the in-place idiom (the callee shrinks the range it was given): counted as a pair write
            byaddr, byval = {}, {}
            for a in i.args:
                rb = range_base(a)
                if not rb:
                    continue
                n = strip_casts(a)
                (byaddr if (n.k == 'un' and n.v == '&') else byval).setdefault(rb[0], set()).add(rb[1])
            for base, es in byaddr.items():
                if len(es) == 1 and not (byval.get(base, set()) - es):
                    facts = self.write(facts, base, list(es)[0])
        return facts

    def ret(self, b, term, facts):
        pend = [f for f in facts if f[0] == 'pend']
        if pend:
            self.bad.append((term[2], pend))


def rule_pair_write(ctx, chk, funcs, rule='range-pairs'):
    chk.rule(rule, 'outside the parser, a function that writes one end of a text range writes the other end of the same range on '
             'every path before it returns (or copies the whole range), so ranges stay "both NULL or ordered"', floor=10)
    n = 0
    for name in sorted(funcs):
        f = ctx.irp.funcs[name]
        touches = False
        for b in f.blocks:
            for i in b.ins:
                if i.op == 'assign' and range_base(i.dst):
                    touches = True
                if i.op == 'call' and any(range_base(a) for a in i.args):
                    touches = True
        if not touches:
            continue
        h = PairHooks()
        explore(f, h, limit=20000)
        n += 1
        if h.bad:
            loc, pend = h.bad[0]
            chk.bad(rule, 'pair:%s:%s' % (base_name(name), pend[0][1]), loc, '%s can return after writing only %s.%s'
                    % (name, pend[0][1], pend[0][2]), func=name)
        else:
            chk.ok(rule, 'pair:%s' % name, f.loc, 'both ends written together on every path', func=name)
    return n


def rule_normalize_guard(ctx, chk, rule='ambiguity-guard'):
    """every dot-segment removal in the normalisation engine is followed, on the way to a success return, by the guard"""
    irp = ctx.irp
    for suf in ('A', 'W'):
        pub = irp.funcs.get('uriNormalizeSyntaxExMm' + suf)
        if pub is None:
            raise AnalysisBroken('uriNormalizeSyntaxExMm%s not found' % suf)
        engines = [t for b in pub.blocks for i in b.ins if i.op == 'call' for t in [call_target(i)] if t in irp.funcs and t != pub.name
                   and 'MemoryManager' not in t]
        if len(set(engines)) != 1:
            raise AnalysisBroken('normalisation engine not identified from %s: %s' % (pub.name, engines))
        f = irp.funcs[engines[0]]
        sites = []
        for b in f.blocks:
            for idx, i in enumerate(b.ins):
                if i.op == 'call' and base_name(call_target(i) or '') in DOTREMOVERS:
                    sites.append((b, idx, i))
        if not sites:
            raise AnalysisBroken('%s no longer calls a dot-segment removal routine' % f.name)
        for b, idx, i in sites:
            # search forward for a success return not preceded by a guard call
            seen = set()
            st = [(b, idx + 1)]
            found = None
            while st and found is None:
                blk, j = st.pop()
                guarded = False
                for k in range(j, len(blk.ins)):
                    ins = blk.ins[k]
                    if ins.op == 'call' and base_name(call_target(ins) or '') in GUARDS:
                        guarded = True
                        break
                if guarded:
                    continue
                t = blk.term
                if t[0] == 'ret':
                    v = const_value(t[1], ctx.prog) if t[1] is not None else None
                    if v == 0:
                        found = t[2]
                    continue
                for s in blk.succs():
                    if s.id not in seen:
                        seen.add(s.id)
                        st.append((s, 0))
            key = 'guard:normalize-path'
            if found is not None:
                chk.bad(rule, key, i.loc, '%s: the path left by dot-segment removal reaches the success return at %s without the '
                        'ambiguity guard: a host-less "/.//x" is normalised to "//x", which is read back as an authority'
                        % (f.name, fmt_loc(found)), func=f.name)
            else:
                chk.ok(rule, key + ':' + suf, i.loc, 'guard follows dot-segment removal on every success path', func=f.name)


class TailHooks(Hooks):
    """a fresh, terminated node that is linked behind another node is the last node: pathTail must name it"""

    def __init__(self, f, success_nonzero, prog):
        self.f = f
        self.bad = []
        self.success_nonzero = success_nonzero
        self.prog = prog
        self.n = 0

    def instr(self, b, idx, i, facts):
        from ..ir import manager_call, is_tmp
        if i.op == 'call':
            mc = manager_call(i)
            if mc and mc[0] == 'free' and len(i.args) > 1:
                a = strip_casts(i.args[1])
                if a is not None and a.k == 'ref':
                    facts = facts - {('lastmade', a.v, None)}
                return facts
            if mc and mc[0] in ('malloc', 'calloc') and i.dst is not None:
                facts = frozenset(x for x in facts if x[1] != i.dst.v)
                return facts | {('alloc', i.dst.v, mc[0])}
            return facts
        if i.op != 'assign':
            return facts
        d = strip_casts(i.dst)
        s = strip_casts(i.src)
        if d.k == 'ref':
            v = d.v
            import re
            pat = re.compile(r'(?<![A-Za-z0-9_])%s(?![A-Za-z0-9_])' % re.escape(v))
            facts = frozenset(x for x in facts if x[1] != v and not (x[0] in ('eq', 'null') and
                                                                    (pat.search(str(x[1])) or pat.search(str(x[2])))))
            cv = const_value(i.src, self.prog)
            if cv is not None:
                # flag locals such as `removeSegment`: remembered so that the branches they decide are not both taken
                if cv == 0 and '*' in (d.ty or ''):
                    return facts | {('null', v, None)}
                return facts | {('cv', v, cv)}
            if s is not None and '*' in (d.ty or ''):
                sk = expr_key(s)
                if not pat.search(sk):
                    facts = facts | {('eq', v, sk)}
                    if ('null', sk, None) in facts:
                        facts = facts | {('null', v, None)}
            if s is not None and s.k == 'ref':
                al = [x for x in facts if x[0] == 'alloc' and x[1] == s.v]
                if al and 'PathSegment' in (d.ty or ''):
                    self.n += 1
                    facts = facts | {('fresh', v, None)}
                    if al[0][2] == 'calloc':
                        facts = facts | {('term', v, None)}
            return facts
        if d.k == 'member' and d.v == 'next':
            base = strip_casts(d.c[0])
            if base.k == 'ref' and ('fresh', base.v, None) in facts:
                if const_value(i.src, self.prog) == 0:
                    return facts | {('term', base.v, None)}
                return facts - {('term', base.v, None)}
            if base.k == 'ref' and base.v in self.f.locals:
                # an existing node is made the last one (`v->next = NULL`): pathTail has to follow
                if const_value(i.src, self.prog) == 0:
                    self.n += 1
                    return facts | {('lastmade', base.v, None)}
                facts = facts - {('lastmade', base.v, None)}
            if s is not None and s.k == 'ref' and ('fresh', s.v, None) in facts:
                return facts | {('linked', s.v, None)}
            return facts
        if d.k == 'member' and d.v == 'pathTail':
            if s is not None and s.k == 'ref' and ('lastmade', s.v, None) in facts:
                facts = facts - {('lastmade', s.v, None)}
            if s is not None and s.k == 'ref' and ('fresh', s.v, None) in facts:
                return facts | {('tail', s.v, None)}
            # tail moved elsewhere: earlier claims are void
            return frozenset(x for x in facts if x[0] != 'tail')
        return facts

    def edge(self, b, cond, truth, facts):
        from ..failclean import zero_test
        zt = zero_test(cond, self.prog)
        if zt is not None:
            var, zero_when_true = zt
            for x in facts:
                if x[0] == 'cv' and x[1] == var:
                    is_zero = (x[2] == 0)
                    if (is_zero == zero_when_true) != truth:
                        return None
        from ..cfgutil import null_test
        nt = null_test(cond)
        if nt is not None:
            e, null_when_true = nt
            k = expr_key(e)
            is_null = (null_when_true == truth)
            known = ('null', k, None) in facts
            if known and not is_null:
                return None
            if is_null:
                add = {('null', k, None)}
                for x in facts:
                    if x[0] == 'eq' and x[2] == k:
                        add.add(('null', x[1], None))
                    if x[0] == 'eq' and x[1] == k:
                        add.add(('null', x[2], None))
                facts = facts | add
        return facts

    def ret(self, b, term, facts):
        v = const_value(term[1], self.prog) if term[1] is not None else None
        if v is not None and ((v != 0) != self.success_nonzero):
            return
        for x in facts:
            if x[0] == 'linked' and ('term', x[1], None) in facts and ('tail', x[1], None) not in facts:
                self.bad.append((term[2], x[1]))
            if x[0] == 'lastmade':
                self.bad.append((term[2], x[1]))


def rule_fresh_tail(ctx, chk, funcs, rule='list-tail'):
    n = 0
    for name in sorted(funcs):
        f = ctx.irp.funcs[name]
        if not any('PathSegment' in (t or '') for t in f.locals.values()):
            continue
        h = TailHooks(f, success_nonzero=(f.ret_type or '').strip() == 'UriBool', prog=ctx.prog)
        explore(f, h, limit=60000)
        if not h.n:
            continue
        n += 1
        if h.bad:
            loc, var = h.bad[0]
            chk.bad(rule, 'fresh-tail:%s:%s' % (base_name(name), var), loc, '%s can return successfully after making `%s` the last node (fresh node '
                    'linked behind another one, or `->next = NULL` on an existing node) while pathTail does not name it: the tail is no longer the last node'
                    % (name, var), func=name)
        else:
            chk.ok(rule, 'fresh-tail:%s' % name, f.loc, 'every fresh terminated node linked at the end becomes pathTail', func=name)
    return n


def contract_append_segment(ctx, suf):
    f = RR.fn(ctx, 'uriAppendSegment', suf)
    u = f.params[0]
    probs = []
    for p in RR.success_paths(enumerate_paths(ctx.prog, f)):
        a = RR.amap(p)
        node = a.get('%s->pathTail' % u, '')
        if not node.startswith('memory->malloc'):
            probs.append(('pathTail is not the new node', p.retloc))
            continue
        if a.get(node + '->next') != '0':
            probs.append(('the new node is not terminated', p.retloc))
        c = p.conds()
        if c.get('%s->pathTail' % u) is False:
            if a.get('%s->pathHead' % u) != node:
                probs.append(('first node does not become the head', p.retloc))
        elif a.get('%s->pathTail->next' % u) != node:
            probs.append(('old tail is not linked to the new node', p.retloc))
    return f, probs


def run(ctx, chk):
    from . import c06, c10
    chk.explanation = ('Partial. (a) every producer of a possibly host-less path that is not the verbatim path of a parsed URI passes '
                       'it through the ambiguity guard: all rows of resolution (obligations shared with C06), domain-root and '
                       'relative reference creation (shared with C10), normalisation of the path; the guard prepends "." exactly for '
                       'host-less paths that would begin with "//"; (b) a host never coexists with the absolute-path flag: when '
                       'authority and path come from different sources the flag is reconciled with the host; (c) outside the parser '
                       'both ends of a text range are written together on every path; (d) list builders keep the tail as the last, '
                       'terminated node (path copy, segment append, guard insertion). a node established to be the last one is freed only with '
                       'a store to pathTail before a successful return (dot removal). NOT decided: general re-read equality (it '
                       'depends on what dot-segment removal exposes at the head of a path).')
    chk.rule('ambiguity-guard', 'every success path of a producer whose result may be host-less and whose path was rebuilt passes '
             'through the ambiguity guard after the last path operation', floor=8)
    chk.rule('guard-condition', 'the guard prepends "." exactly when the URI has no host and its path would begin with "//"', floor=2)
    chk.rule('flag-reconcile', 'authority and path from different sources: the absolute-path flag is reconciled with the host', floor=2)
    chk.rule('naked-guard', 'reference creation: "." in front of a first segment that is empty or contains ":"; domain-root mode passes '
             'through the guard with the final flag', floor=4)
    chk.rule('essential-dot', 'normalisation in relative mode drops a "." only after establishing that it is not the current head of '
             'the path, or that it is the last segment, or that the next segment contains no ":" (else "./a:b" would be re-read with scheme a)',
             floor=2)
    from ..dotrules import rule_dot_removal
    chk.analysed['dot_removal_sites'] = rule_dot_removal(ctx, chk, {'essential-dot': 'essential-dot', 'new-head-colon': 'essential-dot'})
    chk.rule('list-tail', 'list builders leave pathTail on the last node with next == NULL', floor=4)
    for mod, rules in ((c06, ('ambiguity-guard', 'guard-condition', 'flag-reconcile')), (c10, ('naked-guard',))):
        tmp = Check('tmp', tier=chk.tier)
        mod.run(ctx, tmp)
        for o in tmp.obls:
            if o.rule in rules:
                chk.obls.append(o)
    rule_normalize_guard(ctx, chk)
    for suf in ('A', 'W'):
        for fnc in (RR.contract_copy_path, contract_append_segment):
            hf, probs = fnc(ctx, suf)
            tailp = [p for p in probs if 'tail' in p[0].lower() or 'terminated' in p[0] or 'head' in p[0] or 'linked' in p[0]]
            if tailp:
                chk.bad('list-tail', 'tail:%s:%s' % (base_name(hf.name), tailp[0][0]), tailp[0][1], '%s: %s' % (hf.name, tailp[0][0]),
                        func=hf.name)
            else:
                chk.ok('list-tail', 'tail:%s' % hf.name, hf.loc, 'tail is the last node, terminated', func=hf.name)
    for suf in ('A', 'W'):
        hf, probs = RR.contract_flag_reconcile(ctx, suf)
        chk.add('flag-reconcile', 'contract:%s' % (base_name(hf.name) if probs else hf.name), not probs, probs[0][1] if probs else hf.loc,
                '%s: %s' % (hf.name, probs[0][0] if probs else 'clears the flag whenever a host is present (adds the empty segment for "/")'),
                func=hf.name)
    roots = []
    for suf in ('A', 'W'):
        roots += ['uriAddBaseUriExMm' + suf, 'uriRemoveBaseUriMm' + suf, 'uriNormalizeSyntaxExMm' + suf, 'uriMakeOwnerMm' + suf]
    funcs = reachable_from(ctx.irp, roots)
    parser = reachable_from(ctx.irp, ['uriParseSingleUriExMmA', 'uriParseSingleUriExMmW', 'uriParseUriExA', 'uriParseUriExW'])
    # the release function is shared by every producer; the parser's own rule functions are C02's business
    funcs = set(n for n in funcs if n not in parser or base_name(n) in ('uriFreeUriMembersMm', 'uriResetUri', 'uriIsHostSet'))
    n = rule_pair_write(ctx, chk, funcs)
    chk.analysed['list_building_functions'] = rule_fresh_tail(ctx, chk, funcs)
    from ..listrules import rule_tail_after_removal
    chk.analysed['last_node_frees'] = rule_tail_after_removal(ctx, chk, funcs)
    chk.analysed['producer_functions'] = len(funcs)
    chk.analysed['range_writing_functions'] = n
