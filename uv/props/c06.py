"""C06 -- reference resolution follows RFC 3986 section 5.2 (partial: provenance table, guard rule, helper contracts).

NOT decided: that uriMergePath and uriRemoveDotSegmentsEx implement 5.2.3 / 5.2.4 on the segment list."""
import itertools

from ..frontend import AnalysisBroken, fmt_loc
from ..pathenum import enumerate_paths
from ..tables import base_name
from .. import resolverules as RR

RETRY_INLINED = True
LEVEL = 'other'

ROLE = {'uriCopyAuthority': 'copy-authority', 'uriCopyPath': 'copy-path', 'uriMergePath': 'merge',
        'uriRemoveDotSegmentsAbsolute': 'rds', 'uriResolveAbsolutePathFlag': 'flag-reconcile', 'uriFixAmbiguity': 'guard',
        'uriFixEmptyTrailSegment': 'lone-empty', 'uriResetUri': 'reset', 'uriIsHostSet': 'host-test',
        'uriCompareRange': 'compare-range'}


def expected(S, A, E, L, Q):
    """RFC 3986 5.2.2 as provenance: (scheme, authority, path term, query, fragment)"""
    if S:
        return ('R', 'R', ('rds', ('path', 'R')), 'R', 'R')
    if A:
        return ('B', 'R', ('rds', ('path', 'R')), 'R', 'R')
    if E:
        return ('B', 'B', ('path', 'B'), 'R' if Q else 'B', 'R')
    if L:
        return ('B', 'B', ('rds', ('path', 'R')), 'R', 'R')
    return ('B', 'B', ('rds', ('merge', ('path', 'B'), 'R')), 'R', 'R')


def find_impl(ctx, suf):
    """the function called by the public uriAddBaseUriExMm that receives the three URIs and the options"""
    from ..ir import call_target
    pub = ctx.irp.funcs.get('uriAddBaseUriExMm' + suf)
    if pub is None:
        raise AnalysisBroken('uriAddBaseUriExMm%s not found' % suf)
    cands = []
    for b in pub.blocks:
        for i in b.ins:
            if i.op == 'call':
                t = call_target(i)
                if t in ctx.irp.funcs and len(ctx.irp.funcs[t].params) == 5 and len(i.args) == 5:
                    cands.append(t)
    if len(set(cands)) != 1:
        raise AnalysisBroken('resolution engine not identified from uriAddBaseUriExMm%s: %s' % (suf, cands))
    return ctx.irp.funcs[cands[0]], pub


def provenance(p, dest, R, B, suf):
    """interpret the events of a path on the destination; returns dict or raises ValueError(text)"""
    who = {R: 'R', B: 'B'}
    out = {'scheme': None, 'authority': None, 'path': None, 'query': None, 'fragment': None,
           'guard_after_path': False, 'flagfix_after_copy': False, 'lone_empty': False, 'path_source_auth_differs': False}
    for e in p.events:
        if e[0] == 'assign':
            for comp in ('scheme', 'query', 'fragment'):
                if e[1] == '%s->%s' % (dest, comp):
                    src = e[2]
                    owner = src.split('->')[0]
                    if not src.endswith('->' + comp) or owner not in who:
                        raise ValueError('%s of the target is set from %s' % (comp, src))
                    out[comp] = who[owner]
            if e[1].startswith(dest + '->') and e[1].split('->')[1].split('.')[0] in ('userInfo', 'hostText', 'hostData', 'portText',
                                                                                     'pathHead', 'pathTail', 'absolutePath'):
                raise ValueError('resolution engine writes %s directly' % e[1])
        elif e[0] == 'call':
            role = ROLE.get(base_name(e[1]))
            args = e[2]
            if role in ('copy-authority', 'copy-path', 'merge'):
                if args[0] != dest or args[1] not in who:
                    raise ValueError('%s called with %s' % (e[1], args))
                x = who[args[1]]
                if role == 'copy-authority':
                    out['authority'] = x
                elif role == 'copy-path':
                    out['path'] = ('path', x)
                    out['guard_after_path'] = False
                    out['flagfix_after_copy'] = False
                else:
                    if out['path'] is None:
                        raise ValueError('merge before any path was copied')
                    out['path'] = ('merge', out['path'], x)
                    out['guard_after_path'] = False
            elif role == 'rds':
                if args[0] != dest or out['path'] is None:
                    raise ValueError('dot-segment removal on %s before a path was copied' % args[0])
                out['path'] = ('rds', out['path'])
                out['guard_after_path'] = False
            elif role == 'guard':
                if args[0] == dest:
                    out['guard_after_path'] = True
            elif role == 'flag-reconcile':
                if args[0] == dest:
                    out['flagfix_after_copy'] = True
            elif role == 'lone-empty':
                if args[0] == dest:
                    out['lone_empty'] = True
            elif role in ('reset', 'host-test', 'compare-range'):
                pass
            elif role is None:
                raise ValueError('call of %s, which has no role in the resolution table' % e[1])
    return out


def run(ctx, chk):
    prog = ctx.prog
    compat = prog.enums.get('URI_RESOLVE_IDENTICAL_SCHEME_COMPAT')
    relbase = prog.macros.get('URI_ERROR_ADDBASE_REL_BASE')
    if compat is None or relbase is None:
        raise AnalysisBroken('resolution option / error constants not found')
    chk.explanation = ('Partial. Decided by path enumeration (every path through the resolution engine, conditions as opaque atoms, '
                       'flag locals constant-propagated): for every success path the provenance of the target components equals the '
                       'RFC 3986 5.2.2 table under the atoms defined(R.scheme) after the compatibility rule, defined(R.authority), '
                       'R.path empty, R.path absolute, defined(R.query); a base without scheme returns the relative-base code before '
                       'anything is produced; the helpers keep their contracts (authority copy covers user info, host text, host data '
                       'by kind, port; path copy copies texts in order, flag, tail; flag reconciliation; lone empty segment); every '
                       'success path whose target may lack an authority and whose path went through dot-segment removal passes through '
                       'the ambiguity guard afterwards, and the guard prepends "." exactly for host-less paths that would begin with '
                       '"//"; in dot-segment removal no segment established to be "." / ".." survives outside relative mode, and resolution '
                       'enters it with the mode constant false. NOT decided: that merge and dot-segment removal implement 5.2.3 / 5.2.4 on '
                       'the segment list in full (which predecessor ".." takes away, functional correctness of list-rewiring loops).')
    chk.rule('resolution-table', 'every success path of the resolution engine produces scheme / authority / path / query / fragment '
             'from the sources RFC 3986 5.2.2 prescribes for the atom valuation of that path', floor=8)
    chk.rule('relative-base', 'a base without scheme returns URI_ERROR_ADDBASE_REL_BASE on a path that produces nothing', floor=2)
    chk.rule('ambiguity-guard', 'a success path whose target may be host-less and whose path is a dot-segment-removal result calls the '
             'ambiguity guard after the last path operation', floor=6)
    chk.rule('guard-condition', 'the guard prepends "." exactly when the URI has no host and its path would begin with "//"', floor=2)
    chk.rule('helper-contract', 'authority copy, path copy, flag reconciliation, host test and lone-empty-segment removal keep their '
             'contracts on every path', floor=10)
    chk.rule('flag-reconcile', 'when authority and path of the target come from different sources the absolute-path flag is '
             'reconciled with the host before dot-segment removal', floor=2)
    chk.rule('dot-removal', 'RFC 3986 5.2.4, necessary part: outside relative mode (the mode parameter tested true on the path) every '
             'segment established to be "." or ".." is freed or turned into the empty placeholder before the walk moves on; resolution '
             'enters dot removal with the mode parameter constant false', floor=4)
    from ..dotrules import rule_dot_removal
    chk.analysed['dot_removal_sites'] = rule_dot_removal(ctx, chk, {'dots-removed': 'dot-removal', 'absolute-entry': 'dot-removal'})
    from .c11 import _compare_range
    chk.rule('compare-range', 'uriCompareRange (which decides "identical scheme" for the compatibility option): NULL equals only NULL, '
             'lengths compared, texts compared over the full length in characters', floor=8)
    for suf in ('A', 'W'):
        _compare_range(ctx, chk, ctx.prog, ctx.irp, suf)
        f, pub = find_impl(ctx, suf)
        if len(f.params) != 5:
            raise AnalysisBroken('unexpected signature of %s' % f.name)
        dest, R, B, opt = f.params[0], f.params[1], f.params[2], f.params[3]
        paths = enumerate_paths(prog, f)
        chk.analysed.setdefault('paths', {})[f.name] = len(paths)
        nsucc = 0
        for p in paths:
            c = p.conds()
            key_b = '%s->scheme.first' % B
            if c.get(key_b) is False:
                produced = [e for e in p.events if e[0] == 'call' and ROLE.get(base_name(e[1])) not in ('reset', None)
                            or e[0] == 'assign' and e[1].startswith(dest + '->')]
                okr = p.ret == str(relbase) and not produced
                chk.add('relative-base', 'relbase:%s' % suf, okr, p.retloc,
                        'returns %s%s' % (p.ret, ' after producing output' if produced else ''), func=f.name)
                continue
            if p.ret != '0':
                continue
            nsucc += 1
            # atoms
            Rs = c.get('%s->scheme.first' % R)
            cmpk = [k for k in c if k.startswith('uriCompareRange') and ('%s->scheme' % B) in k and ('%s->scheme' % R) in k]
            optk = c.get('(%s & %d)' % (opt, compat))
            if Rs is None:
                chk.bad('resolution-table', 'table:no-scheme-test', p.retloc, 'success path that never tests whether the reference '
                        'has a scheme', func=f.name)
                continue
            if not Rs:
                S = False
            elif optk is None:
                chk.bad('resolution-table', 'table:no-compat-test', p.retloc, 'success path with a reference scheme that never '
                        'tests the identical-scheme compatibility option', func=f.name)
                continue
            elif not optk:
                S = True
            elif not cmpk:
                chk.bad('resolution-table', 'table:no-scheme-compare', p.retloc, 'compatibility option set but the two schemes are '
                        'not compared', func=f.name)
                continue
            else:
                S = bool(c[cmpk[0]])         # non-zero = different
            hostk = [k for k in c if k.startswith('uriIsHostSet') and k.endswith('(%s)' % R)]
            A = c[hostk[0]] if hostk else None
            ph, ab = c.get('%s->pathHead' % R), c.get('%s->absolutePath' % R)
            E = None
            if ph is True or ab is True:
                E = False
            elif ph is False and ab is False:
                E = True
            L = ab
            Q = c.get('%s->query.first' % R)
            try:
                pv = provenance(p, dest, R, B, suf)
            except ValueError as ex:
                chk.bad('resolution-table', 'table:%s' % ex, p.retloc, str(ex), func=f.name)
                continue
            got = (pv['scheme'], pv['authority'], pv['path'], pv['query'], pv['fragment'])
            # all completions of the atoms this path did not evaluate
            vals = []
            for a_, e_, l_, q_ in itertools.product(*[[x] if x is not None else [False, True] for x in (A, E, L, Q)]):
                if e_ and l_:
                    continue
                vals.append((a_, e_, l_, q_))
            wants = set(expected(S, *v) for v in vals)
            rowkey = 'S=%d,A=%s,E=%s,L=%s,Q=%s' % (S, *['*' if x is None else int(x) for x in (A, E, L, Q)])
            if wants == {got}:
                chk.ok('resolution-table', 'row:%s:%s' % (suf, rowkey), p.retloc, 'target = %r' % (got,), func=f.name)
            else:
                chk.bad('resolution-table', 'row:%s' % rowkey, p.retloc, 'for %s the engine produces (scheme, authority, path, query, '
                        'fragment) = %r, RFC 3986 5.2.2 gives %r' % (rowkey, got, sorted(wants, key=repr)), func=f.name)
            # guard: target may be host-less unless its authority is R's and R has one
            hostless_possible = not (pv['authority'] == 'R' and A is True)
            if pv['path'] is not None and pv['path'][0] == 'rds':
                if hostless_possible:
                    chk.add('ambiguity-guard', 'guard:%s' % rowkey, pv['guard_after_path'], p.retloc,
                            'dot-segment removal result of a possibly host-less target %s the ambiguity guard (path %r)'
                            % ('passes through' if pv['guard_after_path'] else 'is returned WITHOUT', pv['path']), func=f.name)
                if pv['authority'] == 'B' and pv['path'] == ('rds', ('path', 'R')):
                    # authority from the base, path from the reference
                    okf = pv['flagfix_after_copy']
                    chk.add('flag-reconcile', 'flag:%s' % rowkey, okf, p.retloc, 'absolute-path flag %s reconciled with the base '
                            'authority' % ('is' if okf else 'is NOT'), func=f.name)
        if nsucc < 8:
            raise AnalysisBroken('only %d success paths in %s' % (nsucc, f.name))
        # helper contracts
        for name in ('contract_is_host_set', 'contract_copy_authority', 'contract_copy_path', 'contract_flag_reconcile',
                     'contract_lone_empty'):
            hf, probs = getattr(RR, name)(ctx, suf)
            if probs:
                for text, loc in probs[:5]:
                    chk.bad('helper-contract', '%s:%s' % (base_name(hf.name), text), loc, '%s: %s' % (hf.name, text), func=hf.name)
            else:
                chk.ok('helper-contract', '%s:%s' % (name, suf), hf.loc, '%s keeps its contract on every path' % hf.name, func=hf.name)
        gf, probs = RR.contract_guard(ctx, suf)
        seenk = set()
        for kind, text, loc in probs:
            k = 'guard-condition:%s' % kind
            if k in seenk:
                continue
            seenk.add(k)
            chk.bad('guard-condition', k, loc, '%s: %s' % (gf.name, text), func=gf.name)
        if not probs:
            chk.ok('guard-condition', 'guard-condition:%s' % suf, gf.loc, 'prepends "." iff host-less and the path would begin with "//"',
                   func=gf.name)
            chk.ok('guard-condition', 'guard-shape:%s' % suf, gf.loc, 'inserted node is "." linked in front of the old head', func=gf.name)
    chk.assumptions += ['uriMergePath and uriRemoveDotSegmentsEx are taken as merge / remove_dot_segments (not decided here)']
