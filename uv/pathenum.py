"""E8: path enumeration of a function with opaque atoms.

Every path (loops entered at most `unroll` times) from the entry to a return is produced as a list of
events over canonical expression keys (casts stripped, temporaries substituted by what they hold):
  ('cond', key, truth, loc)           a branch decided by expression `key`
  ('switch', key, values|'default', loc)
  ('assign', dstkey, srckey, loc)     store into non-local memory, or into a tracked local
  ('call', name, [argkeys], callkey, loc)
  ('ret', key or None, loc)
Locals that hold constants are propagated (so flag variables such as `relSourceHasScheme` resolve), a
path that needs the same atom with both truth values is dropped as infeasible.  No solver is involved;
atoms are compared as canonical strings, so `a != NULL`, `!(a == NULL)` and `NULL != a` coincide.
"""
from .frontend import AnalysisBroken, fmt_loc
from .ir import strip_casts, call_target, manager_call, const_value, is_tmp
from . import pp


class Path(object):
    __slots__ = ('events', 'ret', 'retloc')

    def __init__(self, events, ret, retloc):
        self.events = events
        self.ret = ret
        self.retloc = retloc

    def conds(self):
        return dict((e[1], e[2]) for e in self.events if e[0] == 'cond')

    def calls(self):
        return [e for e in self.events if e[0] == 'call']

    def assigns(self):
        return [e for e in self.events if e[0] == 'assign']


class Enumerator(object):
    def __init__(self, prog, f, unroll=1, max_paths=200000, call_consts=None):
        self.prog = prog
        self.f = f
        self.unroll = unroll
        self.max_paths = max_paths
        self.paths = []
        self.call_consts = call_consts or {}

    # canonical key of an expression under the local environment
    def key(self, e, env):
        e = strip_casts(e)
        if e is None:
            return None
        k = e.k
        if k == 'int':
            return str(e.v)
        cv = const_value(e, self.prog)
        if cv is not None and k != 'ref':
            return str(cv)
        if k == 'ref':
            if e.x and e.x.get('dk') == 'EnumConstantDecl':
                return str(self.prog.enums.get(e.v))
            if e.v in env:
                return env[e.v]
            return e.v
        if k == 'cast':
            return self.key(e.c[0], env)
        if k == 'member':
            base = self.key(e.c[0], env)
            return '%s%s%s' % (base, '->' if (e.x and e.x.get('arrow')) else '.', e.v)
        if k == 'index':
            return '%s[%s]' % (self.key(e.c[0], env), self.key(e.c[1], env))
        if k == 'un':
            a = self.key(e.c[0], env)
            if e.v == '!':
                if a in ('0', '1'):
                    return '1' if a == '0' else '0'
                return '!(%s)' % a
            if e.v == '&' and a.startswith('*(') and a.endswith(')'):
                return a[2:-1]
            if e.v == '*':
                return '*(%s)' % a
            return '%s(%s)' % (e.v, a)
        if k == 'bin':
            a, b = self.key(e.c[0], env), self.key(e.c[1], env)
            op = e.v
            if op in ('==', '!=') and a is not None and b is not None:
                if a == '0' and b != '0':
                    a, b = b, a
                if a.lstrip('-').isdigit() and b.lstrip('-').isdigit():
                    return '1' if ((int(a) == int(b)) == (op == '==')) else '0'
            if op in ('&', '|', '+', '-', '*') and a.lstrip('-').isdigit() and b.lstrip('-').isdigit():
                x, y = int(a), int(b)
                return str({'&': x & y, '|': x | y, '+': x + y, '-': x - y, '*': x * y}[op])
            return '(%s %s %s)' % (a, op, b)
        if k == 'sizeof':
            t = (e.x.get('argType') if e.x else None) or (e.c[0].ty if e.c else None) or '?'
            return 'sizeof(%s)' % t.replace('const ', '').strip()
        if k == 'str':
            return '"%s"' % e.v
        return pp.expr(e)

    def atom(self, key):
        """normalise a condition key to (atom, polarity): strips negation and == 0 / != 0"""
        pol = True
        while True:
            if key.startswith('!(') and key.endswith(')'):
                key = key[2:-1]
                pol = not pol
                continue
            if key.startswith('(') and key.endswith(' == 0)'):
                key = key[1:-6]
                pol = not pol
                continue
            if key.startswith('(') and key.endswith(' != 0)'):
                key = key[1:-6]
                continue
            break
        return key, pol

    def run(self):
        f = self.f
        env0 = {}
        self._walk(f.entry, 0, env0, [], {}, {})
        return self.paths

    def _walk(self, b, idx, env, events, known, visits):
        # iterative deepening over blocks via recursion (functions are small)
        while True:
            if idx == 0:
                n = visits.get(b.id, 0)
                if n > self.unroll:
                    return
                visits = dict(visits)
                visits[b.id] = n + 1
            ins_list = b.ins
            for j in range(idx, len(ins_list)):
                i = ins_list[j]
                if i.op == 'assign':
                    src = self.key(i.src, env)
                    d = strip_casts(i.dst)
                    if d.k == 'ref' and (is_tmp(d) or d.v in self.f.locals or d.v in self.f.param_types) \
                            and d.v not in getattr(self, 'addr_taken', ()):
                        env = dict(env)
                        env[d.v] = src
                        if not is_tmp(d):
                            events = events + [('assign', d.v, src, i.loc)]
                    else:
                        events = events + [('assign', self.key(i.dst, env), src, i.loc)]
                elif i.op == 'call':
                    mc = manager_call(i)
                    name = ('memory->' + mc[0]) if mc else (call_target(i) or 'indirect')
                    args = [self.key(a, env) for a in i.args]
                    n = sum(1 for e in events if e[0] == 'call' and e[1] == name)
                    ck = '%s#%d(%s)' % (name, n, ', '.join(a or '?' for a in args))
                    events = events + [('call', name, args, ck, i.loc)]
                    if i.dst is not None:
                        env = dict(env)
                        env[i.dst.v] = ck
                elif i.op == 'decl':
                    pass
            t = b.term
            if t[0] == 'jmp':
                b, idx = t[1], 0
                continue
            if t[0] == 'ret':
                rk = self.key(t[1], env) if t[1] is not None else None
                self.paths.append(Path(events, rk, t[2]))
                if len(self.paths) > self.max_paths:
                    raise AnalysisBroken('path explosion in %s' % self.f.name)
                return
            if t[0] == 'br':
                ck = self.key(t[1], env)
                a, pol = self.atom(ck)
                if a.lstrip('-').isdigit():
                    tv = (int(a) != 0) == pol
                    b, idx = (t[2] if tv else t[3]), 0
                    continue
                if a in known:
                    tv = known[a] == pol
                    b, idx = (t[2] if tv else t[3]), 0
                    continue
                for tv, succ in ((True, t[2]), (False, t[3])):
                    k2 = dict(known)
                    k2[a] = (tv == pol)
                    self._walk(succ, 0, env, events + [('cond', a, tv == pol, t[4])], k2, visits)
                return
            if t[0] == 'switch':
                sk = self.key(t[1], env)
                if sk.lstrip('-').isdigit():
                    v = int(sk)
                    tgt = t[3]
                    for cv, cb in t[2]:
                        if cv == v:
                            tgt = cb
                    b, idx = tgt, 0
                    continue
                groups = {}
                for cv, cb in t[2]:
                    groups.setdefault(cb.id, (cb, []))[1].append(cv)
                for cb, vals in groups.values():
                    self._walk(cb, 0, env, events + [('switch', sk, tuple(vals), t[4])], known, visits)
                self._walk(t[3], 0, env, events + [('switch', sk, 'default', t[4])], known, visits)
                return
            raise AnalysisBroken('terminator %r in %s' % (t[0], self.f.name))


def enumerate_paths(prog, f, unroll=1, max_paths=200000):
    import sys
    sys.setrecursionlimit(max(sys.getrecursionlimit(), 20000))
    en = Enumerator(prog, f, unroll=unroll, max_paths=max_paths)
    # locals whose address is taken cannot be tracked as values
    at = set()
    for b in f.blocks:
        for i in b.ins:
            for e in ([i.src] if i.src is not None else []) + (i.args or []):
                for n in e.walk():
                    if n.k == 'un' and n.v == '&':
                        s = strip_casts(n.c[0])
                        if s.k == 'ref':
                            at.add(s.v)
    en.addr_taken = at
    return en.run()
