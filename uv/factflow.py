"""Generic path-sensitive forward exploration over a function CFG with finite fact sets.

client hooks:
  instr(b, idx, i, facts) -> facts            (may record observations)
  edge(b, cond, truth, facts) -> facts or None (None = edge infeasible)
  ret(b, term, facts)                          (observe returns)
  case(b, expr, value|None, facts) -> facts or None   (optional: switch edges; None value = default)
States are frozensets of hashable facts; all states reaching a point are kept (no join),
so disjunctive invariants such as "owner OR fresh copy" are represented exactly.
"""
from .frontend import AnalysisBroken


def explore(f, hooks, start=frozenset(), limit=6000, reach=None):
    instates = {f.entry.id: {start}}
    pending = {f.entry.id: [start]}
    byid = {b.id: b for b in f.blocks}
    work = [f.entry.id]
    while work:
        bid = work.pop()
        b = byid[bid]
        if reach is not None and bid not in reach:
            pending[bid] = []
            continue
        todo = pending.get(bid, [])
        pending[bid] = []
        outs = set()
        for facts in todo:
            cur = facts
            for idx, i in enumerate(b.ins):
                cur = hooks.instr(b, idx, i, cur)
            outs.add(cur)
        t = b.term
        nxt = []
        if t[0] == 'br':
            for facts in outs:
                for succ, truth in ((t[2], True), (t[3], False)):
                    f2 = hooks.edge(b, t[1], truth, facts)
                    if f2 is not None:
                        nxt.append((succ, f2))
        elif t[0] == 'ret':
            for facts in outs:
                hooks.ret(b, t, facts)
        elif t[0] == 'switch' and hasattr(hooks, 'case'):
            for facts in outs:
                for v, bb in t[2]:
                    f2 = hooks.case(b, t[1], v, facts)
                    if f2 is not None:
                        nxt.append((bb, f2))
                f2 = hooks.case(b, t[1], None, facts)
                if f2 is not None:
                    nxt.append((t[3], f2))
        else:
            for facts in outs:
                for s in b.succs():
                    nxt.append((s, facts))
        for succ, facts in nxt:
            cur = instates.setdefault(succ.id, set())
            if facts not in cur:
                if len(cur) > limit:
                    raise AnalysisBroken('fact-flow state explosion in %s' % f.name)
                cur.add(facts)
                pending.setdefault(succ.id, []).append(facts)
                if succ.id not in work:
                    work.append(succ.id)
    return instates


class Hooks(object):
    def instr(self, b, idx, i, facts):
        return facts

    def edge(self, b, cond, truth, facts):
        return facts

    def ret(self, b, term, facts):
        pass
