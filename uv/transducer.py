"""Finite-table extraction from source: pure integer functions are evaluated by the symbolic
executor on constants (no forks), one loop iteration of a character loop is explored for a
concrete input window.  Used for E9 tables and for the escape / unescape transducers."""
from .frontend import AnalysisBroken, fmt_loc
from .ir import call_target
from .symexec import SymExec, PState, Lin, Ptr, wrap_int

_pure_cache = {}


def eval_pure(prog, irp, fname, args):
    """value returned by irp.funcs[fname] for integer constants args; None if not decided"""
    key = (fname, tuple(args))
    if key in _pure_cache:
        return _pure_cache[key]
    f = irp.funcs.get(fname)
    if f is None:
        return None
    se = SymExec(prog, f)
    se.on_call = make_pure_call_hook(prog, irp)
    st = PState()
    for p, a in zip(f.params, args):
        st.env[p] = Lin.const(wrap_int(a, f.param_types[p]))
    paths = se.run(st)
    res = None
    if len(paths) == 1 and isinstance(paths[0][1], Lin) and paths[0][1].is_const() and not paths[0][0].atoms:
        res = wrap_int(paths[0][1].c, f.ret_type)
    _pure_cache[key] = res
    return res


def make_pure_call_hook(prog, irp):
    def hook(se, i, st, args):
        t = call_target(i)
        if t in irp.funcs and all(isinstance(a, Lin) and a.is_const() for a in args):
            r = eval_pure(prog, irp, t, [a.c for a in args])
            if r is not None:
                return Lin.const(r)
        return None
    return hook


class IterResult(object):
    def __init__(self):
        self.kind = None        # 'next' (back at loop head) | 'ret'
        self.env = None
        self.stores = []        # (base, offset int, value int or repr, loc)
        self.loads = []         # (base, offset int)
        self.ret = None
        self.atoms = None
        self.loc = None


def run_iteration(prog, irp, f, header, env, window, load_base):
    """explore from loop header `header` with concrete env until the header is reached again or the
    function returns.  window: dict offset -> int value of the input relative to load_base offset 0."""
    se = SymExec(prog, f)
    se.on_call = make_pure_call_hook(prog, irp)
    loads = []

    def on_load(se_, st, base, off, e):
        if base == load_base and off.is_const():
            loads.append((base, off.c))
            if off.c in window:
                return Lin.const(window[off.c])
            st.events.append(('load-outside-window', base, off.c, e.loc))
            return Lin.const(0)
        return None
    se.on_load = on_load
    se.stop_blocks = {header.id}
    se.no_summarise = True
    st = PState()
    st.env = dict(env)
    se.run(st, start=header)
    outs = []
    for (bid, s2) in se.stops:
        r = IterResult()
        r.kind, r.env, r.atoms = 'next', s2.env, s2.atoms
        r.stores = [(e[1], e[2], e[5], e[4]) for e in s2.events if e[0] == 'store']
        r.events = s2.events
        outs.append(r)
    for (s2, v, loc) in se.paths:
        r = IterResult()
        r.kind, r.env, r.atoms, r.ret, r.loc = 'ret', s2.env, s2.atoms, v, loc
        r.stores = [(e[1], e[2], e[5], e[4]) for e in s2.events if e[0] == 'store']
        r.events = s2.events
        outs.append(r)
    return outs, loads
