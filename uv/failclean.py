"""Cleanup-on-failure (must-pass-through) analysis for functions that produce a fresh URI.

FailsClean(f): on every path to a return whose value may denote failure, nothing allocated
for the output URI is still outstanding: the path is 'clean' (no allocating call since the
last release), or the failure value comes from a callee that is itself FailsClean.
Computed as a greatest fixpoint over the call graph.
"""
from .frontend import fmt_loc, AnalysisBroken
from .ir import call_target, manager_call, strip_casts, const_value, is_tmp
from .cfgutil import null_test, expr_key
from .typestate import alloc_functions, value_key

RELEASE_URI = ('uriFreeUriMembersMmA', 'uriFreeUriMembersMmW', 'uriFreeUriMembersA', 'uriFreeUriMembersW')


def failure_is_zero(f):
    rt = (f.ret_type or '').strip()
    if '*' in rt or rt == 'UriBool':
        return True
    if rt == 'int':
        return False
    return None


def zero_test(cond, prog):
    """(variable name, zero_when_true) for conditions testing a variable against zero/NULL"""
    c = cond
    while c.k == 'cast':
        c = c.c[0]
    if c.k in ('ref', 'member', 'index') or (c.k == 'un' and c.v == '*'):
        return expr_key(c), False
    if c.k == 'bin' and c.v in ('==', '!='):
        a, b = c.c
        va, vb = const_value(a, prog), const_value(b, prog)
        if vb == 0 and va is None:
            return expr_key(a), c.v == '=='
        if va == 0 and vb is None:
            return expr_key(b), c.v == '=='
        if vb == 1 and va is None and c.v == '==':
            return expr_key(a), False
    return None


class FailClean(object):
    def __init__(self, irp):
        self.irp = irp
        self.prog = irp.prog
        self.allocf, self.direct = alloc_functions(irp)
        self.always_rel = {}
        self.fails_clean = {}
        self.violations = {}     # fname -> list of (loc, detail)

    # -- per function dataflow; state = (dirty, pending) pending: frozenset of (var, callee)
    def analyse(self, f, entry_dirty, fc):
        """returns list of (ret_loc, dirty, may_fail, detail) for every return"""
        prog = self.prog
        start = (entry_dirty, frozenset())
        instates = {f.entry.id: {start}}
        work = [f.entry]
        rets = []
        uparams = [p for p in f.params if any(x in (f.param_types.get(p) or '') for x in ('UriUri', 'UriParserState'))
                   and 'const' not in (f.param_types.get(p) or '')]
        while work:
            b = work.pop()
            outs = set()
            for (dirty, pend) in instates.get(b.id, ()):
                for i in b.ins:
                    if i.op == 'assign':
                        dk = expr_key(i.dst)
                        sk = expr_key(i.src)
                        moved = None
                        for (v, g) in pend:
                            if v == sk:
                                moved = g
                        pend = frozenset((v, g) for (v, g) in pend if v != dk)
                        if moved is not None:
                            pend = pend | {(dk, moved)}
                        continue
                    if i.op != 'call':
                        continue
                    mc = manager_call(i)
                    if mc is not None:
                        if mc[0] in ('malloc', 'calloc', 'realloc', 'reallocarray'):
                            if i.dst is not None:
                                pend = frozenset((v, g) for (v, g) in pend if v != i.dst.v) | \
                                    {(i.dst.v, '@alloc:%d' % (1 if dirty else 0))}
                            dirty = True
                        continue
                    t = call_target(i)
                    if t is None:
                        continue
                    if t in RELEASE_URI or self.always_rel.get(t):
                        dirty = False
                        pend = frozenset()
                        continue
                    callee = self.irp.funcs.get(t)
                    if callee is not None:
                        if i.dst is not None and failure_is_zero(callee) is not None:
                            pend = frozenset((v, g) for (v, g) in pend if v != i.dst.v) | \
                                {(i.dst.v, '%s|%d' % (t, 1 if dirty else 0))}
                        elif i.dst is not None:
                            pend = frozenset((v, g) for (v, g) in pend if v != i.dst.v)
                        if t in self.allocf:
                            dirty = True
                outs.add((dirty, pend))
            t = b.term
            nxt = []
            if t[0] == 'br':
                zt = zero_test(t[1], prog)
                for (dirty, pend) in outs:
                    handled = False
                    if zt is not None:
                        var, zero_when_true = zt
                        g = None
                        for (v, gg) in pend:
                            if v == var:
                                g = gg
                        if g is not None and g.startswith('@alloc:'):
                            before = g.endswith('1')
                            for succ, truth in ((t[2], True), (t[3], False)):
                                is_zero = (zero_when_true == truth)
                                p2 = frozenset((v, gg) for (v, gg) in pend if gg != g)
                                nxt.append((succ, (before if is_zero else dirty, p2)))
                            handled = True
                        elif g is not None and g[0] not in '!+':
                            gname, before = g.split('|')
                            callee = self.irp.funcs[gname]
                            fz = failure_is_zero(callee)
                            cleans = fc.get(gname, (False, False))[int(before)]
                            for succ, truth in ((t[2], True), (t[3], False)):
                                is_zero = (zero_when_true == truth)
                                is_fail = (is_zero == fz)
                                p2 = frozenset((v, gg) for (v, gg) in pend if v != var)
                                keep = not var.startswith('%t')
                                if is_fail:
                                    nxt.append((succ, (False if cleans else dirty, (p2 | {(var, '!' + gname)}) if keep else p2)))
                                else:
                                    nxt.append((succ, (dirty, (p2 | {(var, '+' + gname)}) if keep else p2)))
                            handled = True
                        elif var in uparams:
                            for succ, truth in ((t[2], True), (t[3], False)):
                                is_zero = (zero_when_true == truth)
                                nxt.append((succ, (False if is_zero else dirty, pend)))
                            handled = True
                    if not handled:
                        nxt.append((t[2], (dirty, pend)))
                        nxt.append((t[3], (dirty, pend)))
            elif t[0] == 'ret':
                for (dirty, pend) in outs:
                    e = t[1]
                    may_fail = True
                    detail = ''
                    if e is None:
                        may_fail = False
                    else:
                        cv = const_value(e, prog)
                        fz = failure_is_zero(f)
                        if cv is not None and fz is not None:
                            may_fail = ((cv == 0) == fz)
                        else:
                            sk = expr_key(e)
                            if '*' in (f.ret_type or '') and cv is None and not any(v == sk for (v, g) in pend):
                                # pointer-returning function: failure is signalled by the NULL constant or by a
                                # callee's failing result; a returned input position is a success value
                                may_fail = False
                            if True:
                                for (v, g) in pend:
                                    if v == sk:
                                        if g.startswith('!'):
                                            detail = 'failure value of %s' % g[1:]
                                        elif g.startswith('+'):
                                            may_fail = False
                                        elif g.startswith('@'):
                                            pass
                                        else:
                                            # returning a callee's result unchanged: failure case clean iff the callee
                                            # cleans on failure from the state it was called in
                                            gname, before = g.split('|')
                                            if fc.get(gname, (False, False))[int(before)]:
                                                may_fail = False
                                            detail = 'result of %s returned unchanged' % gname
                    rets.append((t[2], dirty, may_fail, detail))
            else:
                for st in outs:
                    for s in b.succs():
                        nxt.append((s, st))
            for succ, st in nxt:
                cur = instates.setdefault(succ.id, set())
                if st not in cur:
                    if len(cur) > 300:
                        raise AnalysisBroken('failclean state explosion in %s' % f.name)
                    cur.add(st)
                    if succ not in work:
                        work.append(succ)
        return rets

    def solve(self, roots=None):
        irp = self.irp
        scope = None
        if roots is not None:
            scope = set()
            st = list(roots)
            while st:
                n = st.pop()
                if n in scope or n not in irp.funcs:
                    continue
                scope.add(n)
                for b in irp.funcs[n].blocks:
                    for i in b.ins:
                        if i.op == 'call':
                            t = call_target(i)
                            if t:
                                st.append(t)
        self.scope = scope
        # AlwaysReleases: from a dirty entry every return is clean (least fixpoint, start from none)
        changed = True
        while changed:
            changed = False
            for name, f in irp.funcs.items():
                if scope is not None and name not in scope:
                    continue
                if self.always_rel.get(name):
                    continue
                if name in RELEASE_URI:
                    continue
                calls_release = any(call_target(i) in RELEASE_URI or self.always_rel.get(call_target(i))
                                    for b in f.blocks for i in b.ins if i.op == 'call')
                if not calls_release:
                    continue
                rets = self.analyse(f, True, {})
                if rets and all(not d for (_l, d, _m, _x) in rets):
                    self.always_rel[name] = True
                    changed = True
        # FailsClean: greatest fixpoint over (clean entry, dirty entry)
        fc = {name: (True, True) for name in irp.funcs}
        changed = True
        while changed:
            changed = False
            for name, f in irp.funcs.items():
                if scope is not None and name not in scope:
                    continue
                cur = list(fc[name])
                for e in (0, 1):
                    if not cur[e]:
                        continue
                    rets = self.analyse(f, bool(e), fc)
                    bad = [(l, x) for (l, d, m, x) in rets if d and m]
                    if bad:
                        cur[e] = False
                        if e == 0:
                            self.violations[name] = bad
                        changed = True
                fc[name] = tuple(cur)
        self.fails_clean = fc
        return fc
