"""E1 exploration: breadth-first product of the implementation machine (e1.Runner) with a monitor
(the RFC DFA for C01; pebble monitors for C02), alphabet refinement, witnesses."""
import time
from collections import deque

from .frontend import AnalysisBroken, fmt_loc
from .ir import strip_casts, call_target
from .e1static import is_charptr_type
from .abnf import symbol_partition, NSYM
from .e1 import (WIDE_REPS, Runner, St, Alphabet, Imprecise, NeedSplit, Finding, TOP, NULL, END, SAFE, MEM, D)

URI = ('G', 'URI')
STATE = ('G', 'STATE')
ERRPOS = ('G', 'ERRPOS')


# ------------------------------------------------------------------ summaries

def sum_free_members(m, st, ins, args):
    u = args[0]
    if u != ('a', URI, ()):
        raise Imprecise('uriFreeUriMembersMm on %r at %s' % (u, fmt_loc(ins.loc)))
    own = st.env.get((URI, ('owner',)))
    if own != ('i', 0):
        raise Imprecise('uriFreeUriMembersMm with owner flag %r at %s' % (own, fmt_loc(ins.loc)))
    for fld in (('hostData', 'ip4'), ('hostData', 'ip6')):
        v = st.env.get((URI, fld), TOP)
        if v[0] == 'a' and v[1][0] == 'H':
            m.do_free(st, v, ins.loc)
        elif v != NULL:
            raise Imprecise('uriFreeUriMembersMm: field %s holds %r at %s' % ('.'.join(fld), v, fmt_loc(ins.loc)))
        st.env[(URI, fld)] = NULL
    v = st.env.get((URI, ('pathHead',)), TOP)
    if v[0] == 'a' and v[1][0] == 'H':
        st.heap.pop(v[1][1], None)       # the list walk releases every linked node (push-shape rule)
    elif v != NULL:
        raise Imprecise('uriFreeUriMembersMm: pathHead holds %r at %s' % (v, fmt_loc(ins.loc)))
    st.env[(URI, ('pathHead',))] = NULL
    st.env[(URI, ('pathTail',))] = NULL
    m.obs.append(('free-members', ins.loc))
    return ('i', 0)


def sum_ip4(m, st, ins, args):
    m.obs.append(('ip4-call', tuple(args), ins.loc, st.frames[-1][0]))
    for a in args[1:]:
        if a[0] not in ('p', 'pp', 'e', 'pin') and a != SAFE:
            raise Imprecise('uriParseIpFourAddress on %r at %s' % (a, fmt_loc(ins.loc)))
    return ('choice', [('i', 0), ('i', m.prog.macros.get('URI_ERROR_SYNTAX', 1))])


def sum_complete(m, st, ins, args):
    return ('i', 1)


def _pointee_type(e):
    c = e
    while c is not None and c.k == 'cast':
        c = c.c[0]
    t = (c.ty or '') if c is not None else ''
    return t.replace('const ', '').replace('*', '').strip()


def sum_memset(m, st, ins, args):
    p, val = args[0], args[1]
    if p[0] != 'a':
        raise Imprecise('memset on %r at %s' % (p, fmt_loc(ins.loc)))
    if p[1][0] == 'H':
        return p
    obj, path = p[1], p[2]
    if path and isinstance(path[-1], int):
        path = path[:-1]
        for k in [k for k in st.env if k[0] == obj and k[1][:len(path)] == path]:
            del st.env[k]
        st.env[(obj, path)] = TOP
        return p
    ty = _pointee_type(ins.args[0])
    leaves = []
    m.leaf_places(ty, path, leaves)
    sz = strip_casts(ins.args[2])
    whole = sz is not None and sz.k == 'sizeof' and (sz.x.get('argType') or '').replace('const ', '').strip() == ty
    for k in [k for k in st.env if k[0] == obj and k[1][:len(path)] == path]:
        del st.env[k]
    for lf in leaves:
        st.env[(obj, lf)] = ('i', 0) if (whole and val == ('i', 0)) else TOP
    return p


def sum_memcpy(m, st, ins, args):
    p = args[0]
    if p[0] in ('p', 'pp', 'e'):
        raise Finding('no-input-write', 'input-write', ins.loc, 'memcpy into the input text')
    if p[0] != 'a':
        raise Imprecise('memcpy into %r at %s' % (p, fmt_loc(ins.loc)))
    if p[1][0] == 'H':
        return p
    path = p[2]
    if path and isinstance(path[-1], int):
        path = path[:-1]
    for k in [k for k in st.env if k[0] == p[1] and k[1][:len(path)] == path]:
        del st.env[k]
    st.env[(p[1], path)] = TOP
    return p


def sum_strlen(m, st, ins, args):
    p = args[0]
    if m.nul and p[0] == 'p':
        return ('len', p[1])
    raise Imprecise('strlen of %r at %s' % (p, fmt_loc(ins.loc)))


def make_summaries(suf):
    return {'uriFreeUriMembersMm' + suf: sum_free_members, 'uriParseIpFourAddress' + suf: sum_ip4,
            'uriMemoryManagerIsComplete': sum_complete, 'memset': sum_memset, 'memcpy': sum_memcpy,
            'strlen': sum_strlen, 'wcslen': sum_strlen}


# ------------------------------------------------------------------ which functions are interpreted

def reachable_interpreted(irp, entry, summaries):
    """functions reachable from entry through direct calls whose signature mentions the input text, the parser state
    or the URI; other callees are opaque leaf helpers"""
    out = []
    seen = set()
    st = [entry]
    while st:
        n = st.pop()
        if n in seen or n in summaries:
            continue
        seen.add(n)
        f = irp.funcs.get(n)
        if f is None:
            continue
        tys = [f.param_types.get(p, '') for p in f.params]
        if n != entry and not any(is_charptr_type(t) or 'ParserState' in t or 'UriUri' in t for t in tys):
            # helpers over scalars / byte buffers / the IPv4 digit stack are opaque leaves
            continue
        out.append(n)
        for b in f.blocks:
            for i in b.ins:
                if i.op == 'call':
                    t = call_target(i)
                    if t is not None:
                        st.append(t)
    return out


def seed_sets(irp, funcs):
    sets = []
    for n in funcs:
        f = irp.funcs[n]
        for b in f.blocks:
            t = b.term
            if t and t[0] == 'switch':
                groups = {}
                for v, blk in t[2]:
                    groups.setdefault(blk.id, set()).add(v)
                for g in groups.values():
                    sets.append(g)
            exprs = []
            for i in b.ins:
                exprs += [x for x in ([i.src] + (i.args or [])) if x is not None]
            if t and t[0] in ('br', 'switch'):
                exprs.append(t[1])
            for e in exprs:
                for nd in e.walk():
                    if nd.k == 'int' and nd.x and nd.x.get('char'):
                        sets.append({nd.v})
    return sets


def initial_alphabet(suf, base_class_of, value_sets):
    allsyms = Alphabet.all_symbols(suf)
    tmp = Alphabet([set(allsyms)], suf)
    symsets = []
    for g in value_sets:
        s = set()
        for v in g:
            sym = tmp.sym_of_value(v)
            if sym is not None:
                s.add(sym)
        if s:
            symsets.append(frozenset(s))
    byc = {}
    for sym in allsyms:
        byc.setdefault(base_class_of[min(sym, 256)], set()).add(sym)
    sets = list(map(frozenset, byc.values())) + symsets
    sig = {}
    for sym in allsyms:
        sig.setdefault(tuple(sym in x for x in sets), set()).add(sym)
    return Alphabet(list(sig.values()), suf)


# ------------------------------------------------------------------ exploration

class Result(object):
    def __init__(self):
        self.states = 0
        self.transitions = 0
        self.finals = []       # (monitor state, St, value, node id)
        self.findings = []     # (Finding, node id)
        self.restarts = 0
        self.parent = {}
        self.alphabet = None
        self.obs_regstores = {}
        self.obs_heapstores = {}
        self.obs_ip4 = {}
        self.obs_opaque = set()
        self.obs_free_members = set()
        self.wall = 0.0
        self.max_depth = 0
        self.functions = []


def explore(ctx, suf, entry, setup, monitor, base_class_of, nul=False, max_states=3000000, extra_sets=(), log=None):
    """monitor: object with init(), on_symbol(m, cls, alphabet), on_eof(m), final(m, st, value, machine, result, node)"""
    irp = ctx.irp
    summaries = make_summaries(suf)
    summaries.pop(entry, None)
    funcs = reachable_interpreted(irp, entry, summaries)
    al = initial_alphabet(suf, base_class_of, seed_sets(irp, funcs) + list(extra_sets))
    t0 = time.time()
    restarts = 0
    while True:
        mach = Runner(ctx, suf, al, funcs, summaries, nul_terminated=nul)
        try:
            pre = None
            if mach.cellwatch:
                mach.optimistic = True
                pre = _explore_once(mach, entry, setup, NullMonitor(), max_states)
                mach.optimistic = False
                mach.cellneeds = cell_needs(pre)
                if log:
                    log('pre-analysis: %d states, %d edges, %d states need cells' % (
                        pre.states, len(pre.edges), sum(1 for v in mach.cellneeds.values() if v)))
            res = _explore_once(mach, entry, setup, monitor, max_states)
            res.pre_states = pre.states if pre else 0
            res.restarts = restarts
            res.alphabet = al
            res.wall = time.time() - t0
            res.functions = funcs
            res.machine = mach
            res.sampled = mach.sampled
            return res
        except NeedSplit as ns:
            restarts += 1
            if restarts > 300:
                raise AnalysisBroken('E1: alphabet refinement does not terminate')
            if log:
                log('refine: split class %s by %s' % (al.describe(ns.cls), sorted(ns.syms)[:5]))
            al = al.split(ns.cls, ns.syms)


class NullMonitor(object):
    def init(self, al):
        return ()

    def on_symbol(self, m, c, al):
        return ()

    def on_eof(self, m):
        return ()

    def observe(self, m, st, obs, res, nid):
        pass


def cell_needs(pre):
    """backward fixpoint over the pre-analysis graph: which fill-array cells may be read (by interpreted code)
    before being overwritten, per abstract state"""
    n = pre.states
    needs = [frozenset()] * n
    preds = {}
    for (p, c, gen, kill) in pre.edges:
        if p is None:
            continue
        preds.setdefault(c, []).append((p, gen, kill))
    work = list(range(n))
    inwork = set(work)
    while work:
        c = work.pop()
        inwork.discard(c)
        nc = needs[c]
        for (p, gen, kill) in preds.get(c, ()):
            add = gen | (nc - kill)
            if not add <= needs[p]:
                needs[p] = needs[p] | add
                if p not in inwork:
                    inwork.add(p)
                    work.append(p)
    out = {}
    for (key, m), nid in pre.seen.items():
        out[key[:-1]] = needs[nid]
    return out


def witness(res, node, al):
    labels = []
    while node is not None:
        p = res.parent.get(node)
        if p is None:
            break
        node, lab = p
        labels.append(lab)
    labels.reverse()
    syms = []
    notes = []
    for lab in labels:
        if lab[0] == 'sym':
            syms.append(al.sample(lab[1]))
        elif lab[0] == 'eof':
            notes.append('end of input')
        elif lab[0] == 'alloc':
            notes.append('allocation %s %s' % (lab[1], 'succeeds' if lab[2] else 'FAILS'))
        elif lab[0] == 'choice':
            notes.append('call returns %r' % (lab[1],))
    text = ''.join(chr(s) if 32 <= s < 127 else ('\\x%02x' % s if s < 256 else '\\u{%x}' % (WIDE_REPS[s - 256] & 0xffffffff)) for s in syms)
    return text, [n for n in notes if 'FAILS' in n or 'returns' in n]


def _explore_once(mach, entry, setup, monitor, max_states):
    """states are stored at event points (just before a symbol read / allocation / choice / final return);
    at a symbol fork one run per distinct decision trace on the new symbol is executed, the other classes
    reuse its result"""
    res = Result()
    seen = {}
    queue = deque()
    res.runs = 0
    res.shared = 0
    res.edges = [] if mach.optimistic else None

    def record_obs(obs, m, st, nid):
        for o in obs:
            if o[0] == 'reg-store':
                res.obs_regstores.setdefault((o[1], o[3]), set()).add((o[2], o[4]))
            elif o[0] == 'heap-store':
                if o[2] and o[2][-1] in ('first', 'afterLast'):
                    res.obs_heapstores.setdefault((o[2], o[4]), set()).add((o[3], st.eof))
            elif o[0] == 'ip4-call':
                res.obs_ip4.setdefault((o[3], o[2]), set()).add(o[1])
            elif o[0] == 'opaque-call':
                res.obs_opaque.add(o[1])
            elif o[0] == 'free-members':
                res.obs_free_members.add(o[1])
        monitor.observe(m, st, obs, res, nid)

    def advance(st):
        """run st to its next event; returns (event or Finding, observations)"""
        mach.obs = []
        res.runs += 1
        try:
            ev = mach.run(st)
        except Finding as f:
            ev = f
        return ev, mach.obs

    def add(st, m, ev, obs, parent, label, ckey=None):
        res.transitions += 1
        if res.edges is not None and not isinstance(ev, Finding):
            gen, kill = set(), set()
            for o in obs:
                if o[0] == 'cell-read' and o[1:] not in kill:
                    gen.add(o[1:])
                elif o[0] == 'cell-write':
                    kill.add(o[1:])
        if isinstance(ev, Finding):
            nid = -len(res.findings) - 1
            res.parent[nid] = (parent, label)
            res.findings.append((ev, nid, m))
            return
        key = (ckey if ckey is not None else mach.canon(st), m)
        nid = seen.get(key)
        if res.edges is not None:
            res.edges.append((parent, nid if nid is not None else len(seen), frozenset(gen), frozenset(kill)))
        if nid is None:
            nid = len(seen)
            seen[key] = nid
            if callable(st):
                st = st()
            res.parent[nid] = (parent, label) if parent is not None else None
            if len(seen) > max_states:
                raise AnalysisBroken('E1: more than %d abstract states' % max_states)
            record_obs(obs, m, st, nid)
            if ev[0] == 'final':
                res.finals.append((m, st, ev[1], nid))
            else:
                queue.append((st, m, nid, ev))
            res.max_depth = max(res.max_depth, len(st.frames))

    st0 = St()
    setup(mach, st0)
    m0 = monitor.init(mach.al)
    mach.fresh, mach.trace = False, None
    ev0, obs0 = advance(st0)
    add(st0, m0, ev0, obs0, None, None)
    ncls = len(mach.al.sets)
    global DEBUG_SEEN
    DEBUG_SEEN = seen
    while queue:
        st, m, nid, ev = queue.popleft()
        if ev[0] == 'sym':
            reps = []     # (trace, state after run, event, obs, depends on class in window)
            for c in range(ncls):
                m2 = monitor.on_symbol(m, c, mach.al)
                hit = None
                for rep in reps:
                    tr = rep[0]
                    if tr is None:
                        continue
                    try:
                        if all(mach.qeval(c, q) == o for q, o in tr):
                            hit = rep
                            break
                    except (NeedSplit, Imprecise):
                        continue
                if hit is not None:
                    res.shared += 1
                    hst, hkey = hit[1], hit[5]
                    if hkey is None:
                        add(None, m2, hit[2], hit[3], nid, ('sym', c))
                        continue
                    if hst.win:
                        nw = (c,) + hst.win[1:]
                        hkey = hkey[:2] + (nw,) + hkey[3:]

                        def mk(hst=hst, nw=nw):
                            x = hst.copy()
                            x.win = nw
                            return x
                    else:
                        def mk(hst=hst):
                            return hst.copy()
                    add(mk, m2, hit[2], hit[3], nid, ('sym', c), ckey=hkey)
                    continue
                s2 = st.copy()
                mach.apply_symbol(s2, c)
                mach.fresh, mach.trace = True, []
                ev2, obs2 = advance(s2)
                tr = mach.trace
                mach.fresh, mach.trace = False, None
                if any(x is None for x in tr):
                    tr = None
                ck = None
                if not isinstance(ev2, Finding):
                    ck = mach.canon(s2)
                # the new symbol is still in the window iff the window is non-empty (no further symbol was read)
                reps.append((tr, s2.copy() if ck is not None else None, ev2, obs2, True, ck))
                add(s2, m2, ev2, obs2, nid, ('sym', c), ckey=ck)
            s2 = st.copy()
            mach.apply_eof(s2)
            ev2, obs2 = advance(s2)
            add(s2, monitor.on_eof(m), ev2, obs2, nid, ('eof',))
        elif ev[0] == 'alloc':
            for ok in (True, False):
                s2 = st.copy()
                mach.apply_alloc(s2, ev[1], ok)
                ev2, obs2 = advance(s2)
                add(s2, m, ev2, obs2, nid, ('alloc', ev[1], ok))
        elif ev[0] == 'choice':
            for v in ev[1]:
                s2 = st.copy()
                mach.apply_choice(s2, v)
                ev2, obs2 = advance(s2)
                add(s2, m, ev2, obs2, nid, ('choice', v))
        elif ev[0] == 'choice-br':
            for v in ev[1]:
                s2 = st.copy()
                mach.apply_branch(s2, v)
                ev2, obs2 = advance(s2)
                add(s2, m, ev2, obs2, nid, ('branch', v))
        else:
            raise AnalysisBroken('E1: unknown event %r' % (ev,))
    res.states = len(seen)
    res.seen = seen if mach.optimistic else None
    return res
