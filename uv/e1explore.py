"""E1 exploration: breadth-first product of the implementation machine (e1.Runner) with a monitor
(the RFC DFA for C01; pebble monitors for C02), alphabet refinement, witnesses."""
import time
from collections import deque

from .frontend import AnalysisBroken, fmt_loc
from .ir import strip_casts, call_target
from .e1static import is_charptr_type
from .abnf import symbol_partition, NSYM
from .e1 import (WIDE_REPS, Runner, St, Alphabet, Imprecise, NeedSplit, Finding, TOP, NULL, END, SAFE, MEM, D)

URI = ('G', 'URI')
STATE = ('G', 'STATE')
ERRPOS = ('G', 'ERRPOS')


# ------------------------------------------------------------------ summaries

def sum_free_members(m, st, ins, args):
    u = args[0]
    if u != ('a', URI, ()):
        raise Imprecise('uriFreeUriMembersMm on %r at %s' % (u, fmt_loc(ins.loc)))
    own = st.env.get((URI, ('owner',)))
    if own != ('i', 0):
        raise Imprecise('uriFreeUriMembersMm with owner flag %r at %s' % (own, fmt_loc(ins.loc)))
    for fld in (('hostData', 'ip4'), ('hostData', 'ip6')):
        v = st.env.get((URI, fld), TOP)
        if v[0] == 'a' and v[1][0] == 'H':
            m.do_free(st, v, ins.loc)
        elif v != NULL:
            raise Imprecise('uriFreeUriMembersMm: field %s holds %r at %s' % ('.'.join(fld), v, fmt_loc(ins.loc)))
        st.env[(URI, fld)] = NULL
    v = st.env.get((URI, ('pathHead',)), TOP)
    if v[0] == 'a' and v[1][0] == 'H':
        st.heap.pop(v[1][1], None)       # the list walk releases every linked node (push-shape rule)
    elif v != NULL:
        raise Imprecise('uriFreeUriMembersMm: pathHead holds %r at %s' % (v, fmt_loc(ins.loc)))
    st.env[(URI, ('pathHead',))] = NULL
    st.env[(URI, ('pathTail',))] = NULL
    m.obs.append(('free-members', ins.loc))
    return ('i', 0)


def sum_ip4(m, st, ins, args):
    m.obs.append(('ip4-call', tuple(args), ins.loc, st.frames[-1][0]))
    err = ('i', m.prog.macros.get('URI_ERROR_SYNTAX', 1))
    if args[1] == ('i', 0) or args[2] == ('i', 0):
        # essential checks of the recogniser: first == NULL, or afterLast <= first with a null end (flat address model:
        # the null pointer compares below every position) - rejected before anything is read or written
        return err
    for a in args[1:]:
        if a[0] not in ('p', 'pp', 'e', 'pin') and a != SAFE:
            raise Imprecise('uriParseIpFourAddress on %r at %s' % (a, fmt_loc(ins.loc)))
    return ('choice', [('i', 0), ('i', m.prog.macros.get('URI_ERROR_SYNTAX', 1))])


def sum_complete(m, st, ins, args):
    return ('i', 1)


def _pointee_type(e):
    c = e
    while c is not None and c.k == 'cast':
        c = c.c[0]
    t = (c.ty or '') if c is not None else ''
    return t.replace('const ', '').replace('*', '').strip()


def sum_memset(m, st, ins, args):
    p, val = args[0], args[1]
    if p[0] != 'a':
        raise Imprecise('memset on %r at %s' % (p, fmt_loc(ins.loc)))
    if p[1][0] == 'H':
        return p
    obj, path = p[1], p[2]
    if path and isinstance(path[-1], int):
        path = path[:-1]
        for k in [k for k in st.env if k[0] == obj and k[1][:len(path)] == path]:
            del st.env[k]
        st.env[(obj, path)] = TOP
        return p
    ty = _pointee_type(ins.args[0])
    leaves = []
    m.leaf_places(ty, path, leaves)
    sz = strip_casts(ins.args[2])
    whole = sz is not None and sz.k == 'sizeof' and (sz.x.get('argType') or '').replace('const ', '').strip() == ty
    for k in [k for k in st.env if k[0] == obj and k[1][:len(path)] == path]:
        del st.env[k]
    for lf in leaves:
        st.env[(obj, lf)] = ('i', 0) if (whole and val == ('i', 0)) else TOP
    return p


def sum_memcpy(m, st, ins, args):
    p = args[0]
    if p[0] in ('p', 'pp', 'e'):
        raise Finding('no-input-write', 'input-write', ins.loc, 'memcpy into the input text')
    if p[0] != 'a':
        raise Imprecise('memcpy into %r at %s' % (p, fmt_loc(ins.loc)))
    if p[1][0] == 'H':
        return p
    path = p[2]
    if path and isinstance(path[-1], int):
        path = path[:-1]
    for k in [k for k in st.env if k[0] == p[1] and k[1][:len(path)] == path]:
        del st.env[k]
    st.env[(p[1], path)] = TOP
    return p


def sum_strlen(m, st, ins, args):
    p = args[0]
    if m.nul and p[0] == 'p':
        return ('len', p[1])
    raise Imprecise('strlen of %r at %s' % (p, fmt_loc(ins.loc)))


def make_summaries(suf):
    return {'uriFreeUriMembersMm' + suf: sum_free_members, 'uriParseIpFourAddress' + suf: sum_ip4,
            'uriMemoryManagerIsComplete': sum_complete, 'memset': sum_memset, 'memcpy': sum_memcpy,
            'strlen': sum_strlen, 'wcslen': sum_strlen}


# ------------------------------------------------------------------ which functions are interpreted

def reachable_interpreted(irp, entry, summaries):
    """functions reachable from entry through direct calls whose signature mentions the input text, the parser state
    or the URI; other callees are opaque leaf helpers"""
    out = []
    seen = set()
    st = [entry]
    while st:
        n = st.pop()
        if n in seen or n in summaries:
            continue
        seen.add(n)
        f = irp.funcs.get(n)
        if f is None:
            continue
        tys = [f.param_types.get(p, '') for p in f.params]
        if n != entry and not any(is_charptr_type(t) or 'ParserState' in t or 'UriUri' in t for t in tys):
            # helpers over scalars / byte buffers / the IPv4 digit stack are opaque leaves
            continue
        out.append(n)
        for b in f.blocks:
            for i in b.ins:
                if i.op == 'call':
                    t = call_target(i)
                    if t is not None:
                        st.append(t)
    return out


def order_relevant_registers(irp, funcs, summaries):
    """text-range fields of the URI whose loaded value may reach a comparison, arithmetic or a dereference:
    every load that is not the right-hand side of a plain copy into another range field and not an argument of a
    summarised callee"""
    out = set()

    def reg_of(e):
        n = strip_casts(e)
        if n is not None and n.k == 'member' and n.v in ('first', 'afterLast'):
            path = [n.v]
            b = strip_casts(n.c[0])
            while b is not None and b.k == 'member' and not (b.x and b.x.get('arrow')):
                path.append(b.v)
                b = strip_casts(b.c[0])
            if b is not None and b.k == 'member' and b.x and b.x.get('arrow'):
                path.append(b.v)
                b2 = strip_casts(b.c[0])
                if b2 is not None and b2.k == 'member' and b2.v == 'uri':
                    return tuple(reversed(path))
                if 'UriUri' in ((b.c[0].ty or '')):
                    return tuple(reversed(path))
        return None

    def loads(e, acc):
        if e is None:
            return
        for n in e.walk():
            if n.k == 'cast' and n.v == 'LValueToRValue':
                r = reg_of(n.c[0])
                if r:
                    acc.append(r)
    for name in funcs:
        f = irp.funcs[name]
        for b in f.blocks:
            for i in b.ins:
                if i.op == 'assign':
                    src = strip_casts(i.src)
                    if reg_of(i.dst) and src is not None and reg_of(src):
                        continue            # plain copy between range fields
                    acc = []
                    loads(i.src, acc)
                    loads(i.dst, acc)
                    out.update(acc)
                elif i.op == 'call':
                    t = call_target(i)
                    if t in summaries:
                        continue
                    acc = []
                    for a in i.args:
                        loads(a, acc)
                    out.update(acc)
            if b.term and b.term[0] in ('br', 'switch', 'ret') and b.term[1] is not None:
                acc = []
                loads(b.term[1], acc)
                # NULL tests do not need the position
                out.update(r for r in acc if False)
    return out


def seed_sets(irp, funcs):
    sets = []
    for n in funcs:
        f = irp.funcs[n]
        for b in f.blocks:
            t = b.term
            if t and t[0] == 'switch':
                groups = {}
                for v, blk in t[2]:
                    groups.setdefault(blk.id, set()).add(v)
                for g in groups.values():
                    sets.append(g)
            exprs = []
            for i in b.ins:
                exprs += [x for x in ([i.src] + (i.args or [])) if x is not None]
            if t and t[0] in ('br', 'switch'):
                exprs.append(t[1])
            for e in exprs:
                for nd in e.walk():
                    if nd.k == 'int' and nd.x and nd.x.get('char'):
                        sets.append({nd.v})
    return sets


def initial_alphabet(suf, base_class_of, value_sets):
    allsyms = Alphabet.all_symbols(suf)
    tmp = Alphabet([set(allsyms)], suf)
    symsets = []
    for g in value_sets:
        s = set()
        for v in g:
            sym = tmp.sym_of_value(v)
            if sym is not None:
                s.add(sym)
        if s:
            symsets.append(frozenset(s))
    byc = {}
    for sym in allsyms:
        byc.setdefault(base_class_of[min(sym, 256)], set()).add(sym)
    sets = list(map(frozenset, byc.values())) + symsets
    sig = {}
    for sym in allsyms:
        sig.setdefault(tuple(sym in x for x in sets), set()).add(sym)
    return Alphabet(list(sig.values()), suf)


# ------------------------------------------------------------------ exploration

class Result(object):
    def __init__(self):
        self.states = 0
        self.transitions = 0
        self.finals = []       # (monitor state, St, value, node id)
        self.findings = []     # (Finding, node id)
        self.restarts = 0
        self.parent = {}
        self.alphabet = None
        self.obs_regstores = {}
        self.obs_heapstores = {}
        self.obs_ip4 = {}
        self.obs_opaque = set()
        self.obs_free_members = set()
        self.wall = 0.0
        self.max_depth = 0
        self.functions = []


class _PreStub(object):
    def __init__(self, needs):
        self.states = getattr(needs, 'pre_states', 0)
        self.edges = []


def al_key(al):
    return tuple(sorted(tuple(sorted(s)) for s in al.sets))


def explore(ctx, suf, entry, setup, monitor, base_class_of, nul=False, max_states=3000000, extra_sets=(), log=None, workers=1,
            needs_cache=None, exact_regs=False):
    """monitor: object with init(), on_symbol(m, cls, alphabet), on_eof(m), final(m, st, value, machine, result, node)"""
    irp = ctx.irp
    summaries = make_summaries(suf)
    summaries.pop(entry, None)
    funcs = reachable_interpreted(irp, entry, summaries)
    al = initial_alphabet(suf, base_class_of, seed_sets(irp, funcs) + list(extra_sets))
    t0 = time.time()
    restarts = 0
    while True:
        mach = Runner(ctx, suf, al, funcs, summaries, nul_terminated=nul)
        mach.exact_regs = order_relevant_registers(irp, funcs, summaries) if exact_regs else set()
        try:
            pre = None
            if mach.cellwatch:
                cached = needs_cache.get(al_key(al)) if needs_cache is not None else None
                if cached is not None:
                    mach.cellneeds = cached
                    pre = _PreStub(cached)
                else:
                    mach.optimistic = True
                    pre = (_explore_sharded(mach, entry, setup, NullMonitor(), max_states, workers) if workers > 1
                           else _explore_once(mach, entry, setup, NullMonitor(), max_states))
                    mach.optimistic = False
                    mach.cellneeds = cell_needs(pre)
                    if needs_cache is not None:
                        needs_cache.put(al_key(al), mach.cellneeds, pre.states)
                if log and pre.edges:
                    log('pre-analysis: %d states, %d edges, %d states need cells (%.0fs)' % (
                        pre.states, len(pre.edges), sum(1 for v in mach.cellneeds.values() if v), time.time() - t0))
            res = (_explore_sharded(mach, entry, setup, monitor, max_states, workers) if workers > 1
                   else _explore_once(mach, entry, setup, monitor, max_states))
            res.pre_states = pre.states if pre else 0
            res.restarts = restarts
            res.alphabet = al
            res.wall = time.time() - t0
            res.functions = funcs
            res.machine = mach
            res.sampled = mach.sampled
            return res
        except NeedSplit as ns:
            restarts += 1
            if restarts > 300:
                raise AnalysisBroken('E1: alphabet refinement does not terminate')
            if log:
                log('refine: split class %s by %s' % (al.describe(ns.cls), sorted(ns.syms)[:5]))
            al = al.split(ns.cls, ns.syms)


class NullMonitor(object):
    def init(self, al):
        return ()

    def on_symbol(self, m, c, al):
        return ()

    def on_eof(self, m):
        return ()

    def observe(self, m, st, obs, res, nid):
        pass


def cell_needs(pre):
    """backward fixpoint over the pre-analysis graph: which fill-array cells may be read (by interpreted code)
    before being overwritten, per abstract state"""
    needs = {}
    preds = {}
    nodes = set()
    for (p, c, gen, kill) in pre.edges:
        nodes.add(c)
        if p is None:
            continue
        nodes.add(p)
        preds.setdefault(c, []).append((p, gen, kill))
    work = list(nodes)
    inwork = set(work)
    empty = frozenset()
    while work:
        c = work.pop()
        inwork.discard(c)
        nc = needs.get(c, empty)
        for (p, gen, kill) in preds.get(c, ()):
            add = gen | (nc - kill)
            cur = needs.get(p, empty)
            if not add <= cur:
                needs[p] = cur | add
                if p not in inwork:
                    inwork.add(p)
                    work.append(p)
    out = {}
    for key, nid in pre.seen.items():
        if isinstance(key, tuple) and len(key) == 2 and isinstance(key[0], tuple) and len(key[0]) == 7:
            key = key[0][:-1]       # ((canon key incl. kept cells), monitor) -> projected key
        out[key] = needs.get(nid, empty)
    return out


def witness(res, node, al):
    labels = []
    while node is not None:
        p = res.parent.get(node)
        if p is None:
            break
        node, lab = p
        labels.append(lab)
    labels.reverse()
    syms = []
    notes = []
    for lab in labels:
        if lab[0] == 'sym':
            syms.append(al.sample(lab[1]))
            if len(lab) > 2 and lab[2]:
                notes.append('pebble on character %d' % (len(syms) - 1))
        elif lab[0] == 'eof':
            notes.append('pebble at end of input' if (len(lab) > 1 and lab[1]) else 'end of input')
        elif lab[0] == 'alloc':
            notes.append('allocation %s %s' % (lab[1], 'succeeds' if lab[2] else 'FAILS'))
        elif lab[0] == 'choice':
            notes.append('call returns %r' % (lab[1],))
    text = ''.join(chr(s) if 32 <= s < 127 else ('\\x%02x' % s if s < 256 else '\\u{%x}' % (WIDE_REPS[s - 256] & 0xffffffff)) for s in syms)
    return text, [n for n in notes if 'FAILS' in n or 'returns' in n or 'pebble' in n]


def _explore_once(mach, entry, setup, monitor, max_states):
    """states are stored at event points (just before a symbol read / allocation / choice / final return);
    at a symbol fork one run per distinct decision trace on the new symbol is executed, the other classes
    reuse its result"""
    res = Result()
    seen = {}
    queue = deque()
    res.runs = 0
    res.shared = 0
    res.edges = [] if mach.optimistic else None

    def record_obs(obs, m, st, nid):
        for o in obs:
            if o[0] == 'reg-store':
                res.obs_regstores.setdefault((o[1], o[3]), set()).add((o[2], o[4]))
            elif o[0] == 'heap-store':
                if o[2] and o[2][-1] in ('first', 'afterLast'):
                    res.obs_heapstores.setdefault((o[2], o[4]), set()).add((o[3], st.eof))
            elif o[0] == 'ip4-call':
                res.obs_ip4.setdefault((o[3], o[2]), set()).add(o[1])
            elif o[0] == 'opaque-call':
                res.obs_opaque.add(o[1])
            elif o[0] == 'free-members':
                res.obs_free_members.add(o[1])
        monitor.observe(m, st, obs, res, nid)

    def advance(st):
        """run st to its next event; returns (event or Finding, observations)"""
        mach.obs = []
        res.runs += 1
        try:
            ev = mach.run(st)
        except Finding as f:
            ev = f
        return ev, mach.obs

    def add(st, m, ev, obs, parent, label, ckey=None):
        res.transitions += 1
        if res.edges is not None and not isinstance(ev, Finding):
            gen, kill = set(), set()
            for o in obs:
                if o[0] == 'cell-read' and o[1:] not in kill:
                    gen.add(o[1:])
                elif o[0] == 'cell-write':
                    kill.add(o[1:])
        if isinstance(ev, Finding):
            nid = -len(res.findings) - 1
            res.parent[nid] = (parent, label)
            res.findings.append((ev, nid, m))
            return
        key = (ckey if ckey is not None else mach.canon(st), m)
        nid = seen.get(key)
        if res.edges is not None:
            res.edges.append((parent, nid if nid is not None else len(seen), frozenset(gen), frozenset(kill)))
        if nid is None:
            nid = len(seen)
            seen[key] = nid
            if callable(st):
                st = st()
            res.parent[nid] = (parent, label) if parent is not None else None
            if len(seen) > max_states:
                raise AnalysisBroken('E1: more than %d abstract states' % max_states)
            record_obs(obs, m, st, nid)
            if ev[0] == 'final':
                res.finals.append((m, st, ev[1], nid))
            else:
                queue.append((st, m, nid, ev))
            res.max_depth = max(res.max_depth, len(st.frames))

    st0 = St()
    setup(mach, st0)
    m0 = monitor.init(mach.al)
    mach.fresh, mach.trace = False, None
    mach.pa = None
    ev0, obs0 = advance(st0)
    add(st0, m0, ev0, obs0, None, None)
    global DEBUG_SEEN
    DEBUG_SEEN = seen
    stats = {'runs': 0, 'shared': 0}
    while queue:
        st, m, nid, ev = queue.popleft()
        for (s2, m2, ev2, obs2, label, ck) in _successors(mach, monitor, st, m, ev, stats):
            add(s2, m2, ev2, obs2, nid, label, ckey=ck)
    res.runs += stats['runs']
    res.shared += stats['shared']
    res.states = len(seen)
    res.seen = seen if mach.optimistic else None
    return res


# ------------------------------------------------------------------ sharded exploration

def _successors(mach, monitor, st, m, ev, stats):
    """all successors of a stored state: yields (state or maker, m2, ev2, obs2, label, ckey)"""
    def advance(s2):
        mach.obs = []
        stats['runs'] += 1
        try:
            e2 = mach.run(s2)
        except Finding as f:
            e2 = f
        return e2, mach.obs
    ncls = len(mach.al.sets)
    peb = getattr(monitor, 'pebbles', False)
    if ev[0] == 'sym':
        bits = (0, 1) if (peb and monitor.pebble_free(m)) else (0,)
        for bit in bits:
            reps = []
            for c in range(ncls):
                m2 = monitor.on_symbol(m, c, mach.al, bit) if peb else monitor.on_symbol(m, c, mach.al)
                if m2 is None:
                    continue        # pruned by the monitor
                pa2 = monitor.pa_of(m2) if peb else None
                hit = None
                for rep in reps:
                    tr = rep[0]
                    if tr is None or rep[6] != pa2:
                        continue
                    try:
                        if all(mach.qeval(c, q) == o for q, o in tr):
                            hit = rep
                            break
                    except (NeedSplit, Imprecise):
                        continue
                if hit is not None:
                    stats['shared'] += 1
                    hst, hkey = hit[1], hit[5]
                    m3 = monitor.after_step(m2, hit[3]) if peb else m2
                    if hkey is None:
                        yield (None, m3, hit[2], hit[3], ('sym', c, bit), None)
                        continue
                    if hst.win:
                        nw = (c,) + hst.win[1:]
                        hkey = hkey[:2] + (nw,) + hkey[3:]

                        def mk(hst=hst, nw=nw):
                            x = hst.copy()
                            x.win = nw
                            return x
                    else:
                        def mk(hst=hst):
                            return hst.copy()
                    yield (mk, m3, hit[2], hit[3], ('sym', c, bit), hkey)
                    continue
                s2 = st.copy()
                mach.pa = pa2
                mach.apply_symbol(s2, c, bit)
                mach.fresh, mach.trace = True, []
                ev2, obs2 = advance(s2)
                tr = mach.trace
                mach.fresh, mach.trace = False, None
                if any(x is None for x in tr):
                    tr = None
                ck = None
                if not isinstance(ev2, Finding):
                    ck = mach.canon(s2)
                reps.append((tr, s2.copy() if ck is not None else None, ev2, obs2, True, ck, pa2))
                m3 = monitor.after_step(m2, obs2) if peb else m2
                yield (s2, m3, ev2, obs2, ('sym', c, bit), ck)
        opts = monitor.eof_options(m) if peb else [(monitor.on_eof(m), False)]
        for m2, at_end in opts:
            s2 = st.copy()
            mach.pa = monitor.pa_of(m2) if peb else None
            mach.apply_eof(s2, at_end)
            ev2, obs2 = advance(s2)
            m3 = monitor.after_step(m2, obs2) if peb else m2
            yield (s2, m3, ev2, obs2, ('eof', at_end), None)
        return
    mach.pa = monitor.pa_of(m) if peb else None
    if ev[0] == 'alloc':
        for ok in ((True,) if getattr(monitor, 'success_only', False) else (True, False)):
            s2 = st.copy()
            mach.apply_alloc(s2, ev[1], ok)
            ev2, obs2 = advance(s2)
            yield (s2, monitor.after_step(m, obs2) if peb else m, ev2, obs2, ('alloc', ev[1], ok), None)
    elif ev[0] == 'choice':
        for v in ev[1]:
            s2 = st.copy()
            mach.apply_choice(s2, v)
            ev2, obs2 = advance(s2)
            yield (s2, monitor.after_step(m, obs2) if peb else m, ev2, obs2, ('choice', v), None)
    elif ev[0] == 'choice-br':
        for v in ev[1]:
            s2 = st.copy()
            mach.apply_branch(s2, v)
            ev2, obs2 = advance(s2)
            yield (s2, monitor.after_step(m, obs2) if peb else m, ev2, obs2, ('branch', v), None)
    else:
        raise AnalysisBroken('E1: unknown event %r' % (ev,))


def _genkill(obs):
    gen, kill = set(), set()
    for o in obs:
        if o[0] == 'cell-read' and o[1:] not in kill:
            gen.add(o[1:])
        elif o[0] == 'cell-write':
            kill.add(o[1:])
    return frozenset(gen), frozenset(kill)


def _shard_worker(wid, n, mach, monitor, inboxes, resultq, sent, recv, idle, stop, max_states, abort):
    import queue as _q
    import traceback
    import os as _os
    for _qq in inboxes:
        _qq.cancel_join_thread()
    try:
        seen = {}
        parent = {}
        work = deque()
        finals, findings, edges = [], [], []
        obsd = {'reg': {}, 'heap': {}, 'ip4': {}, 'opaque': set(), 'free': set()}
        stats = {'runs': 0, 'shared': 0, 'transitions': 0, 'max_depth': 0}
        sent_keys = set()
        outbox = [[] for _ in range(n)]
        opt = mach.optimistic

        def record_obs(obs, st):
            for o in obs:
                if o[0] == 'reg-store':
                    obsd['reg'].setdefault((o[1], o[3]), set()).add((o[2], o[4]))
                elif o[0] == 'heap-store':
                    if o[2] and o[2][-1] in ('first', 'afterLast'):
                        obsd['heap'].setdefault((o[2], o[4]), set()).add((o[3], st.eof))
                elif o[0] == 'ip4-call':
                    obsd['ip4'].setdefault((o[3], o[2]), set()).add(o[1])
                elif o[0] == 'opaque-call':
                    obsd['opaque'].add(o[1])
                elif o[0] == 'free-members':
                    obsd['free'].add(o[1])

        def local_add(key, st, m, ev, obs, par, label, gk):
            k = (key, m)
            nid = seen.get(k)
            if nid is None:
                nid = len(seen) * n + wid
                seen[k] = nid
                if callable(st):
                    st = st()
                parent[nid] = (par, label) if par is not None else None
                if len(seen) * n > max_states * 2:
                    raise AnalysisBroken('E1: more than %d abstract states' % max_states)
                record_obs(obs, st)
                if ev[0] == 'final':
                    finals.append((m, st, ev[1], nid))
                else:
                    work.append((st, m, nid, ev))
                if len(st.frames) > stats['max_depth']:
                    stats['max_depth'] = len(st.frames)
            if opt and par is not None:
                edges.append((par, nid, gk[0], gk[1]))

        def flush(force=False):
            for j in range(n):
                if outbox[j] and (force or len(outbox[j]) >= 64):
                    inboxes[j].put(outbox[j])
                    with sent.get_lock():
                        sent[wid] += len(outbox[j])
                    outbox[j] = []

        def drain(block):
            got = False
            while True:
                try:
                    batch = inboxes[wid].get(timeout=0.05) if (block and not got) else inboxes[wid].get_nowait()
                except _q.Empty:
                    return got
                got = True
                for (key, st, m, ev, obs, par, label, gk) in batch:
                    if st is None:
                        # edge-only message (state was sent before)
                        nid = seen.get((key, m))
                        if nid is not None and opt:
                            edges.append((par, nid, gk[0], gk[1]))
                    else:
                        local_add(key, st, m, ev, obs, par, label, gk)
                with recv.get_lock():
                    recv[wid] += len(batch)

        while not stop.is_set():
            drain(False)
            if not work:
                flush(True)
                idle[wid] = 1
                if not drain(True):
                    continue
                idle[wid] = 0
                continue
            idle[wid] = 0
            st, m, nid, ev = work.popleft()
            for (s2, m2, ev2, obs2, label, ck) in _successors(mach, monitor, st, m, ev, stats):
                stats['transitions'] += 1
                if isinstance(ev2, Finding):
                    fid = -(len(findings) * n + wid) - 1
                    parent[fid] = (nid, label)
                    findings.append((ev2, fid, m2))
                    continue
                if ck is None:
                    ck = mach.canon(s2)
                gk = _genkill(obs2) if opt else None
                owner = hash((ck, m2)) % n
                if owner == wid:
                    local_add(ck, s2, m2, ev2, obs2, nid, label, gk)
                else:
                    dk = (ck, m2)
                    if dk in sent_keys:
                        if opt:
                            outbox[owner].append((ck, None, m2, None, None, nid, label, gk))
                    else:
                        sent_keys.add(dk)
                        if callable(s2):
                            s2 = s2()
                        outbox[owner].append((ck, s2, m2, ev2, obs2, nid, label, gk))
            flush(False)
        if abort.value:
            _os._exit(0)
        resultq.put(('ok', wid, {'nstates': len(seen), 'parent': parent, 'finals': finals, 'findings': findings, 'edges': edges,
                                  'obs': obsd, 'stats': stats, 'seen': dict((k[0][:-1], v) for k, v in seen.items()) if opt else None}))
    except NeedSplit as ns:
        resultq.put(('needsplit', wid, (ns.cls, list(ns.syms))))
    except (Imprecise, AnalysisBroken) as e:
        resultq.put(('error', wid, (type(e).__name__, str(e))))
    except Exception:
        resultq.put(('error', wid, ('internal', traceback.format_exc()[-1500:])))


def _explore_sharded(mach, entry, setup, monitor, max_states, nworkers):
    import multiprocessing as mp
    import queue as _q
    ctxmp = mp.get_context('fork')
    n = nworkers
    st0 = St()
    setup(mach, st0)
    m0 = monitor.init(mach.al)
    mach.fresh, mach.trace = False, None
    mach.pa = None
    mach.obs = []
    ev0 = mach.run(st0)
    obs0 = mach.obs
    k0 = mach.canon(st0)
    inboxes = [ctxmp.Queue() for _ in range(n)]
    resultq = ctxmp.Queue()
    sent = ctxmp.Array('l', n)
    recv = ctxmp.Array('l', n)
    idle = ctxmp.Array('b', n, lock=False)
    stop = ctxmp.Event()
    abort = ctxmp.Value('b', 0)
    owner = hash((k0, m0)) % n
    inboxes[owner].put([(k0, st0, m0, ev0, obs0, None, None, (frozenset(), frozenset()))])
    sent[owner] += 1
    procs = [ctxmp.Process(target=_shard_worker, args=(i, n, mach, monitor, inboxes, resultq, sent, recv, idle, stop, max_states, abort))
             for i in range(n)]
    for p in procs:
        p.start()
    try:
        return _shard_collect(mach, n, procs, inboxes, resultq, sent, recv, idle, stop, abort)
    finally:
        abort.value = 1
        stop.set()
        for p in procs:
            if p.is_alive():
                p.kill()
        for p in procs:
            p.join(timeout=10)


def _shard_collect(mach, n, procs, inboxes, resultq, sent, recv, idle, stop, abort):
    import queue as _q
    pieces = {}
    err = None
    quiet = 0
    last_counts, last_change = None, time.time()
    while len(pieces) < n and err is None:
        try:
            kind, wid, payload = resultq.get(timeout=0.05)
            if kind == 'ok':
                pieces[wid] = payload
            else:
                err = (kind, payload)
                abort.value = 1
                stop.set()
            continue
        except _q.Empty:
            pass
        counts = (sum(sent[:]), sum(recv[:]), len(pieces))
        if counts != last_counts:
            last_counts, last_change = counts, time.time()
        elif time.time() - last_change > 600 and err is None:
            err = ('error', ('internal', 'no progress for 600 s (sent %d, received %d, idle %s, results %d/%d)'
                             % (counts[0], counts[1], [int(idle[i]) for i in range(n)], len(pieces), n)))
            abort.value = 1
            stop.set()
        if not stop.is_set():
            if all(idle[i] for i in range(n)) and sum(sent[:]) == sum(recv[:]):
                quiet += 1
                if quiet >= 3:
                    stop.set()
            else:
                quiet = 0
        if any(not p.is_alive() for p in procs) and not stop.is_set() and resultq.empty():
            dead = [i for i, p in enumerate(procs) if not p.is_alive() and i not in pieces]
            if dead:
                err = ('error', ('internal', 'worker %s died, exit codes %s' % (dead, [procs[i].exitcode for i in dead])))
                abort.value = 1
                stop.set()
    if err is not None:
        for p in procs:
            if p.is_alive():
                p.kill()
    for p in procs:
        p.join(timeout=10)
        if p.is_alive():
            p.kill()
            p.join(timeout=5)
    if err is not None:
        kind, payload = err
        if kind == 'needsplit':
            raise NeedSplit(payload[0], payload[1])
        if payload[0] == 'Imprecise':
            raise Imprecise(payload[1])
        raise AnalysisBroken('E1 (sharded): %s: %s' % payload)
    res = Result()
    res.runs = res.shared = 0
    res.edges = [] if mach.optimistic else None
    res.seen = {} if mach.optimistic else None
    for wid, pc in pieces.items():
        res.states += pc['nstates']
        res.parent.update(pc['parent'])
        res.finals += pc['finals']
        res.findings += pc['findings']
        res.runs += pc['stats']['runs']
        res.shared += pc['stats']['shared']
        res.transitions += pc['stats']['transitions']
        res.max_depth = max(res.max_depth, pc['stats']['max_depth'])
        for k, v in pc['obs']['reg'].items():
            res.obs_regstores.setdefault(k, set()).update(v)
        for k, v in pc['obs']['heap'].items():
            res.obs_heapstores.setdefault(k, set()).update(v)
        for k, v in pc['obs']['ip4'].items():
            res.obs_ip4.setdefault(k, set()).update(v)
        res.obs_opaque |= pc['obs']['opaque']
        res.obs_free_members |= pc['obs']['free']
        if mach.optimistic:
            res.edges += pc['edges']
            res.seen.update(pc['seen'])
    return res


# ------------------------------------------------------------------ concrete evaluation from source (E9 tables)

def all_reachable(irp, entry):
    out, st, seen = [], [entry], set()
    while st:
        n = st.pop()
        if n in seen or n not in irp.funcs:
            continue
        seen.add(n)
        out.append(n)
        for b in irp.funcs[n].blocks:
            for i in b.ins:
                if i.op == 'call':
                    t = call_target(i)
                    if t:
                        st.append(t)
    return out


class Concrete(object):
    """deterministic evaluation of a library function from its source on a fully known input: the E1 machine
    with one symbol class per character value, every reachable callee interpreted.  No compiled code runs."""

    def __init__(self, ctx, suf, entry):
        self.ctx, self.suf, self.entry = ctx, suf, entry
        syms = Alphabet.all_symbols(suf)
        self.al = Alphabet([[x] for x in syms], suf)
        summ = {'memset': sum_memset, 'memcpy': sum_memcpy, 'uriMemoryManagerIsComplete': sum_complete}
        funcs = [f for f in all_reachable(ctx.irp, entry) if f not in summ]
        self.mach = Runner(ctx, suf, self.al, funcs, summ, nul_terminated=False)
        self.mach.coarse_regs = False
        self.mach.dmax = 4096
        self.mach.input_writable = True
        self.mach.harness |= {'OUT', 'OUTEND', 'FIRSTP', 'LASTP', 'CW', 'CR', 'IP4', 'IP6', 'SEG0', 'SEG1', 'SEG2'}
        self.mach.literals = True
        self.mach.concrete_heap = True
        self.mach.summaries['memset'] = self.memset
        self.mach.summaries['memcpy'] = self.memcpy
        self.csize = 1 if suf == 'A' else 4
        self.text_reads = 0

    def memset(self, m, st, ins, args):
        p, val, n = args
        if p[0] == 'a' and p[2] and isinstance(p[2][-1], int) and n[0] == 'i' and val[0] == 'i':
            for j in range(n[1]):
                st.env[(p[1], p[2][:-1] + (p[2][-1] + j,))] = ('i', val[1])
            return p
        return sum_memset(m, st, ins, args)

    def memcpy(self, m, st, ins, args):
        """element-wise copy of characters into a harness buffer"""
        dst, src, n = args
        if dst[0] != 'a' or n[0] != 'i' or not dst[2] or not isinstance(dst[2][-1], int):
            return sum_memcpy(m, st, ins, args)
        if src[0] in ('p', 'lit'):
            cnt = n[1] // self.csize
            if n[1] % self.csize:
                raise Imprecise('memcpy of %d bytes is not a whole number of characters at %s' % (n[1], fmt_loc(ins.loc)))
        else:
            cnt = n[1]          # byte buffers
        base = dst[2][:-1]
        k0 = dst[2][-1]
        for j in range(cnt):
            if src[0] == 'p':
                v = ('c', m.sym_at(st, src[1] + j, ins.loc))
            elif src[0] == 'lit':
                if j >= len(src[1]):
                    raise Finding('no-over-read', 'literal-overread', ins.loc, 'memcpy reads past the end of a string literal')
                v = ('i', ord(src[1][j]))
            elif src[0] == 'a' and src[2] and isinstance(src[2][-1], int):
                v = st.env.get((src[1], src[2][:-1] + (src[2][-1] + j,)), TOP)
            elif src == SAFE and cnt == 0:
                break
            else:
                raise Imprecise('memcpy from %r at %s' % (src, fmt_loc(ins.loc)))
            st.env[(dst[1], base + (k0 + j,))] = v
        return dst

    def int_of(self, v):
        """integer value of a machine value holding a character or an integer"""
        if v is None:
            return None
        if v[0] == 'i':
            return v[1]
        if v[0] == 'c':
            return self.al.value_of(sorted(self.al.sets[v[1]])[0])
        return None

    def call(self, args, text=(), env=None):
        """text: character values known to lie before the end; pointers ('p', -len(text)+k) address them"""
        st = St()
        st.eof = True
        st.win = tuple(self.al.of[self.al.sym_of_value(v)] for v in reversed(list(text)))
        if env:
            st.env.update(env)
        self.mach.obs = []
        self.mach.push_frame(st, self.entry, list(args), None, False, None)
        obs = []
        while True:
            ev = self.mach.run(st)
            obs += self.mach.obs
            self.mach.obs = []
            if ev[0] == 'alloc':
                self.mach.apply_alloc(st, ev[1], True)
                st.steps = 0
                continue
            break
        if ev[0] != 'final':
            raise Imprecise('concrete evaluation of %s stopped at %r' % (self.entry, ev))
        self.obs = obs
        return ev[1], st.env
