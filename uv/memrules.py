"""Memory-manager rules (C13, C14, C03)."""
from .frontend import fmt_loc, AnalysisBroken
from .ir import call_target, manager_call, strip_casts, const_value
from .cfgutil import edge_conditions, expr_key, null_test
from .effects import fmt_obj, FuncAnalysis
from .typestate import FuncTypestate, alloc_functions
from .tables import base_name
from . import pp

LIBC_ALLOCATORS = {'malloc', 'calloc', 'realloc', 'reallocarray', 'free', 'strdup', 'strndup', 'wcsdup',
                   'aligned_alloc', 'posix_memalign', 'valloc', 'memalign', 'alloca', 'asprintf', 'vasprintf'}

# one named symbol each, with the reason (DESIGN.md section 9)
EXEMPT_TYPESTATE = {
    'uriTestMemoryManager': 'self-test of a manager: its early returns that skip a free are reachable only with a manager '
                            'that already violated its contract (outside the quantifier over correct managers)',
}


def is_testing_only(prog, name):
    return '_TESTING_ONLY_' in name and name not in prog.public_functions()


def default_manager_functions(prog):
    dm = [g for g in prog.globals if g.v == 'defaultMemoryManager' and g.c]
    if not dm:
        raise AnalysisBroken('defaultMemoryManager definition not found')
    return [n.v for n in dm[0].walk() if n.k == 'ref' and n.x and n.x.get('dk') == 'FunctionDecl']


def rule_who_may_call(ctx, chk, eng, prog=None, irp=None, rule='who-may-call'):
    prog = prog or ctx.prog
    irp = irp or ctx.irp
    chk.rule(rule, 'the C library allocator is called only by the functions installed in the default manager table', floor=5)
    try:
        dmf = set(default_manager_functions(prog))
    except AnalysisBroken:
        dmf = set()
    for name, f in sorted(irp.funcs.items()):
        for b in f.blocks:
            for i in b.ins:
                if i.op != 'call':
                    continue
                t = call_target(i)
                if t in LIBC_ALLOCATORS:
                    key = 'libc:%s@%s' % (t, base_name(name))
                    if name in dmf:
                        chk.ok(rule, key, i.loc, '%s calls %s: default manager function' % (name, t), func=name)
                    else:
                        chk.bad(rule, key, i.loc, '%s calls the C allocator (%s) directly; only the default manager '
                                'functions may' % (name, t), func=name)


def rule_default_refs(ctx, chk, eng, rule='default-manager-refs'):
    prog, irp = ctx.prog, ctx.irp
    chk.rule(rule, 'the default manager table is referenced only by the defaulting step `m = &defaultMemoryManager` on a '
             'path where the supplied manager m is NULL (testing-only helpers excepted by name)', floor=20)
    for name, f in sorted(irp.funcs.items()):
        facts = None
        for b in f.blocks:
            for i in b.ins:
                exprs = [e for e in [i.src, i.dst] + list(i.args or []) if e is not None]
                refs = [n for e in exprs for n in e.walk() if n.k == 'ref' and n.v == 'defaultMemoryManager']
                if not refs:
                    continue
                key = 'dmref@%s' % base_name(name)
                if is_testing_only(prog, name):
                    chk.ok(rule, key, i.loc, 'testing-only helper (not declared in the public headers)', func=name)
                    continue
                good = False
                if i.op == 'assign' and i.dst.k == 'ref' and 'UriMemoryManager *' in (i.dst.ty or ''):
                    sv = strip_casts(i.src)
                    if sv.k == 'un' and sv.v == '&' and strip_casts(sv.c[0]).k == 'ref':
                        if facts is None:
                            facts, _ = edge_conditions(f)
                        for cond, truth, _d in facts.get(b.id, []):
                            if not isinstance(truth, bool):
                                continue
                            nt = null_test(cond)
                            if nt and expr_key(nt[0]) == i.dst.v and nt[1] == truth:
                                good = True
                if good:
                    chk.ok(rule, key, i.loc, 'defaulting step under `%s == NULL`' % i.dst.v, func=name)
                else:
                    chk.bad(rule, key, i.loc, 'defaultMemoryManager is referenced outside the defaulting idiom in %s' % name,
                            func=name)
        for b in f.blocks:
            t = b.term
            exprs = [t[1]] if t[0] in ('br', 'switch', 'ret') and t[1] is not None else []
            for e in exprs:
                if any(n.k == 'ref' and n.v == 'defaultMemoryManager' for n in e.walk()):
                    chk.bad(rule, 'dmref@%s' % base_name(name), t[-1], 'defaultMemoryManager used in a condition/return', func=name)


def manager_params(f):
    return [p for p in f.params if 'UriMemoryManager' in (f.param_types.get(p) or '')]


def _uses_var(e, var):
    return e is not None and any(n.k == 'ref' and n.v == var for n in e.walk())


def rule_check_first(ctx, chk, eng, rule='check-first'):
    """public functions outside UriMemory.c with a manager parameter"""
    prog, irp = ctx.prog, ctx.irp
    incomplete = prog.macros.get('URI_ERROR_MEMORY_MANAGER_INCOMPLETE')
    if incomplete is None:
        raise AnalysisBroken('URI_ERROR_MEMORY_MANAGER_INCOMPLETE not found')
    chk.rule(rule, 'in every public function with a manager parameter the defaulting/completeness test dominates every other '
             'use of the manager; the incomplete case returns the dedicated code with no manager call', floor=18)
    pub = prog.public_functions()
    for name in sorted(pub):
        if name not in irp.funcs or irp.funcs[name].unit.endswith('UriMemory.c'):
            continue
        f = irp.funcs[name]
        for p in manager_params(f):
            key = 'check@%s' % base_name(name)
            # must-dataflow: checked at block entry / after each instruction
            checked_in = {b.id: None for b in f.blocks}   # None = unvisited (top)
            checked_in[f.entry.id] = False
            edge_gen = {}
            bad = []
            fail_edges = []
            for b in f.blocks:
                t = b.term
                if t[0] != 'br':
                    continue
                # find IsComplete call feeding the condition
                c = strip_casts(t[1])
                tv = None
                pol = None
                if c.k == 'bin' and c.v in ('==', '!='):
                    cv = const_value(c.c[1], prog)
                    side = strip_casts(c.c[0])
                    if cv is not None and side.k == 'ref':
                        tv = side.v
                        if cv == 1:
                            pol = (c.v == '==')        # cond true <=> complete
                        elif cv == 0:
                            pol = (c.v == '!=')
                elif c.k == 'ref':
                    tv, pol = c.v, True
                if tv is None:
                    continue
                for i in b.ins:
                    if i.op == 'call' and i.dst is not None and i.dst.v == tv and call_target(i) == 'uriMemoryManagerIsComplete' \
                            and i.args and _uses_var(i.args[0], p):
                        good_succ = t[2] if pol else t[3]
                        bad_succ = t[3] if pol else t[2]
                        edge_gen[(b.id, good_succ.id)] = True
                        fail_edges.append((b, bad_succ))
            changed = True
            order = f.blocks
            out_state = {}
            while changed:
                changed = False
                for b in order:
                    cin = checked_in[b.id]
                    if cin is None:
                        continue
                    cur = cin
                    for i in b.ins:
                        if i.op == 'assign' and i.dst.k == 'ref' and i.dst.v == p:
                            sv = strip_casts(i.src)
                            cur = (sv.k == 'un' and sv.v == '&' and strip_casts(sv.c[0]).k == 'ref'
                                   and strip_casts(sv.c[0]).v == 'defaultMemoryManager')
                    for s in b.succs():
                        v = cur or edge_gen.get((b.id, s.id), False)
                        old = checked_in[s.id]
                        new = v if old is None else (old and v)
                        if new != old:
                            checked_in[s.id] = new
                            changed = True
            nuses = 0
            for b in f.blocks:
                cur = checked_in[b.id]
                if cur is None:
                    continue
                for i in b.ins:
                    is_check = (i.op == 'call' and call_target(i) == 'uriMemoryManagerIsComplete')
                    is_default = (i.op == 'assign' and i.dst.k == 'ref' and i.dst.v == p)
                    uses = any(_uses_var(e, p) for e in [i.src] + list(i.args or []))
                    if i.op == 'assign' and not is_default and _uses_var(i.dst, p):
                        uses = True
                    if uses and not is_check and not is_default:
                        nuses += 1
                        if not cur:
                            bad.append((i.loc, 'manager `%s` is used before the defaulting/completeness test' % p))
                    if is_default:
                        sv = strip_casts(i.src)
                        cur = (sv.k == 'un' and sv.v == '&')
                t = b.term
                if t[0] == 'ret' and t[1] is not None and _uses_var(t[1], p) and not cur:
                    bad.append((t[2], 'manager used in return before check'))
            if not fail_edges:
                bad.append((f.loc, 'no completeness test of `%s` found' % p))
            for b, fs in fail_edges:
                ok = (not fs.ins) and fs.term[0] == 'ret' and const_value(fs.term[1], prog) == incomplete
                if not ok:
                    bad.append((fs.term[-1] if fs.term else b.term[-1],
                                'incomplete manager does not return URI_ERROR_MEMORY_MANAGER_INCOMPLETE immediately'))
            if bad:
                chk.bad(rule, key, bad[0][0], '%s: %s' % (name, bad[0][1]), func=name)
            else:
                chk.ok(rule, key, f.loc, '%s: check dominates all %d uses of `%s`' % (name, nuses, p), func=name)


def rule_same_manager(ctx, chk, eng, rule='same-manager'):
    prog, irp = ctx.prog, ctx.irp
    chk.rule(rule, 'every manager call has the same variable as receiver and first argument, and that variable is the '
             'function\'s manager parameter (or, in UriMemory.c, the backend read from userData)', floor=60)
    for name, f in sorted(irp.funcs.items()):
        for b in f.blocks:
            for i in b.ins:
                if i.op != 'call':
                    continue
                mc = manager_call(i)
                if mc is None:
                    continue
                recv = strip_casts(mc[1])
                key = 'mcall:%s@%s' % (mc[0], base_name(name))
                a0 = strip_casts(i.args[0]) if i.args else None
                while a0 is not None and a0.k == 'cast':
                    a0 = strip_casts(a0.c[0])
                r0 = recv
                while r0.k == 'cast':
                    r0 = strip_casts(r0.c[0])
                if a0 is None or expr_key(a0) != expr_key(r0) or r0.k != 'ref':
                    chk.bad(rule, key, i.loc, '%s: receiver `%s` and first argument `%s` of the manager call differ'
                            % (name, pp.expr(recv), pp.expr(a0) if a0 is not None else '-'), func=name)
                    continue
                v = r0.v
                if v in manager_params(f):
                    chk.ok(rule, key, i.loc, 'receiver is the manager parameter `%s`' % v, func=name)
                elif f.unit.endswith('UriMemory.c') or is_testing_only(prog, name):
                    chk.ok(rule, key, i.loc, 'receiver `%s` in %s' % (v, 'UriMemory.c' if f.unit.endswith('UriMemory.c') else 'testing-only helper'), func=name)
                else:
                    chk.bad(rule, key, i.loc, '%s: manager call through `%s`, which is not the function\'s manager parameter'
                            % (name, v), func=name)


def rule_no_foreign_default(ctx, chk, eng, rule='no-foreign-default'):
    """a function that has a manager of its own never triggers the defaulting step of another entry point,
    and a NULL manager is handed only to code that performs no manager call"""
    prog, irp = ctx.prog, ctx.irp
    chk.rule(rule, 'a function that was handed a manager never reaches another entry point\'s defaulting step (calling a '
             'wrapper without manager parameter, or passing NULL where a manager is expected), and a constant NULL manager is '
             'passed only to callees that perform no manager call in that context', floor=60)
    for name, f in sorted(irp.funcs.items()):
        mps = manager_params(f)
        has_local_mgr = any('UriMemoryManager' in (t or '') for t in f.locals.values())
        if not mps and not has_local_mgr:
            continue
        if is_testing_only(prog, name):
            continue
        fa = FuncAnalysis(eng, f, ())
        fa.run()
        key = 'foreign-default@%s' % base_name(name)
        bad = None
        n = 0
        for b in f.blocks:
            for i in b.ins:
                if i.op != 'call':
                    continue
                tgt = call_target(i)
                if tgt is None or tgt not in irp.funcs:
                    continue
                callee = irp.funcs[tgt]
                n += 1
                # context as the effect engine builds it
                vals = []
                for p, a in zip(callee.params, i.args):
                    v = fa.value_of(a)
                    if v is None and fa.known_nonnull(b, a):
                        v = 'nonnull'
                    if v is not None:
                        vals.append((p, v))
                cctx = tuple(vals)
                summ = eng.summaries.get((tgt, cctx)) or eng.summaries.get((tgt, ()))
                if summ is None:
                    continue
                cm = manager_params(callee)
                if summ.defaults is not None:
                    trig = summ.defaults[2]
                    fires = True
                    if trig is not None and trig in callee.params:
                        av = i.args[callee.params.index(trig)]
                        vv = fa.value_of(av)
                        if vv == 0:
                            fires = True
                        elif vv is not None:
                            fires = False
                        else:
                            sv = strip_casts(av)
                            fires = not (sv.k == 'ref' and 'UriMemoryManager' in (sv.ty or ''))
                    if fires and bad is None:
                        bad = (i.loc, '%s holds a manager but calls %s, which falls back to the default manager (%s)'
                               % (name, tgt, fmt_loc(summ.defaults[1])))
                for p in cm:
                    av = i.args[callee.params.index(p)]
                    if fa.value_of(av) == 0 and p in summ.mgr_use and summ.defaults is None and bad is None:
                        bad = (i.loc, '%s passes a NULL manager to %s, which performs manager calls' % (name, tgt))
        if bad:
            chk.bad(rule, key, bad[0], bad[1], func=name)
        else:
            chk.ok(rule, key, f.loc, '%d calls examined' % n, func=name)


def rule_exact_pointer(ctx, chk, eng, rule='exact-pointer'):
    prog, irp = ctx.prog, ctx.irp
    chk.rule(rule, 'outside UriMemory.c the pointer handed to the manager\'s free is a loaded value (no address arithmetic); '
             'it never is a string literal or a stack object, and a placeholder constant only under a non-emptiness test '
             'of its range', floor=50)
    consts = set(g.v for g in prog.globals if g.c and shared_fully_const(g.ty))
    for name, f in sorted(irp.funcs.items()):
        if f.unit.endswith('UriMemory.c'):
            continue
        fa = None
        for b in f.blocks:
            for i in b.ins:
                if i.op != 'call':
                    continue
                mc = manager_call(i)
                if mc is None or mc[0] != 'free':
                    continue
                arg = i.args[1] if len(i.args) > 1 else None
                key = 'free@%s:%s' % (base_name(name), expr_key(arg) if arg is not None else '?')
                if arg is None:
                    chk.bad(rule, key, i.loc, 'free without pointer argument', func=name)
                    continue
                a = arg
                arith = False
                for n in a.walk():
                    if n.k == 'bin' and n.v in ('+', '-') or (n.k == 'un' and n.v == '&'):
                        arith = True
                if arith:
                    chk.bad(rule, key, i.loc, '%s frees a computed address `%s`' % (name, pp.expr(arg)), func=name)
                    continue
                if fa is None:
                    fa = FuncAnalysis(eng, f, ())
                    fa.run()
                objs = fa.pts(arg)
                badobj = None
                for o in objs:
                    r = o[0]
                    if r == 'S' or r.startswith('L:') or r.startswith('FN:'):
                        badobj = o
                    elif r.startswith('G:') and not fa.nonempty_guard(b, arg):
                        badobj = o
                if badobj is not None:
                    chk.bad(rule, key, i.loc, '%s may free %s, which never came from the manager' % (name, fmt_obj(badobj)),
                            func=name)
                else:
                    chk.ok(rule, key, i.loc, 'loaded value; may point to %d abstract objects' % len(objs), func=name)


def shared_fully_const(ty):
    from .shared import fully_const
    return fully_const(ty)


from .tables import NONOWNING_FIELDS

RELEASE = {'UriUri': 'uriFreeUriMembersMm', 'UriQueryList': 'uriFreeQueryListMm'}


def release_function(irp, ty):
    """release function for a parameter of the given type, its suffix, and the number of leading '*' steps to strip"""
    t = (ty or '').replace('const ', '')
    for rec, fn in RELEASE.items():
        for suf in ('A', 'W'):
            if t.startswith(rec + suf):
                return fn + suf, t.count('*') - 1, rec
    for suf in ('A', 'W'):
        if t.startswith('UriParserState' + suf):
            return RELEASE['UriUri'] + suf, -1, 'UriParserState'
    return None, 0, None


def freed_patterns(eng, irp, fn):
    s = eng.summary(fn)
    if s is None:
        raise AnalysisBroken('no summary for release function %s' % fn)
    root = 'P:' + irp.funcs[fn].params[0]
    pats = {}
    for e in s.effects.values():
        if e.kind == 'f' and e.obj[0] == root:
            pats[e.obj[1]] = e
    return pats


def rule_sink_coverage(ctx, chk, eng, rule='sink-coverage'):
    prog, irp = ctx.prog, ctx.irp
    chk.rule(rule, 'every field of a caller-visible structure into which a public function may store a block obtained from '
             'the manager is released by the matching free function (uriFreeUriMembersMm / uriFreeQueryListMm), text blocks '
             'under the owner flag; the composed query string is handed to the caller', floor=30)
    pub = prog.public_functions()
    for name in sorted(pub):
        if name not in irp.funcs:
            continue
        f = irp.funcs[name]
        if f.unit.endswith('UriMemory.c'):
            continue
        s = eng.summary(name)
        sinks = {}
        for k, vs in s.heap.items():
            if not k[0].startswith('P:'):
                continue
            fresh = [v for v in vs if v[0].startswith('F:') and v[1] == ()]
            if fresh:
                sinks[k] = fresh
        for k, fresh in sorted(sinks.items()):
            if any(x in NONOWNING_FIELDS for x in k[1]):
                # non-owning reference (B.4): the same block is reachable through an owning field
                continue
            p = k[0][2:]
            ty = f.param_types.get(p)
            key = 'sink:%s.%s' % (base_name(name), '.'.join(k[1]) or '<pointee>')
            fn, strip, rec = release_function(irp, ty)
            if fn is None:
                if ty and ty.count('*') == 2 and k[1] == () and ('char' in ty or 'wchar_t' in ty):
                    chk.ok(rule, key, f.loc, 'string block returned to the caller through `%s`' % p, func=name)
                else:
                    chk.bad(rule, key, f.loc, '%s stores a managed block into %s (parameter type %s) for which no release '
                            'function is known' % (name, fmt_obj(k), ty), func=name)
                continue
            steps = k[1]
            if rec == 'UriParserState':
                if steps[:2] != ('uri', '*'):
                    chk.bad(rule, key, f.loc, '%s stores a managed block into parser state field %s' % (name, fmt_obj(k)), func=name)
                    continue
                steps = steps[2:]
            else:
                steps = steps[strip:] if strip > 0 else steps
            pats = freed_patterns(eng, irp, fn)
            want = steps + ('*',) if (steps or strip == 0) else ()
            if rec == 'UriQueryList' and k[1] == () and strip > 0:
                want = ()
            e = pats.get(want)
            if e is None:
                chk.bad(rule, key, f.loc, '%s may store a managed block (%s) into %s, which %s never releases'
                        % (name, fresh[0][0], fmt_obj(k), fn), func=name)
            else:
                cond = sorted(t if isinstance(t, str) else t[0] for t in e.guarded)
                chk.ok(rule, key, e.loc, 'released by %s at %s%s' % (fn, fmt_loc(e.loc), (' under ' + '+'.join(cond)) if cond else ''),
                       func=name)


def rule_free_then_null(ctx, chk, eng, rule='free-then-null'):
    prog, irp = ctx.prog, ctx.irp
    chk.rule(rule, 'in the release functions every freed pointer that is not inside another freed block is overwritten with '
             'NULL on every path from the free to the return, so a second call frees nothing', floor=16)
    for base in sorted(set(RELEASE.values())):
        for suf in ('A', 'W'):
            fn = base + suf
            if fn not in irp.funcs:
                raise AnalysisBroken('release function %s not found' % fn)
            f = irp.funcs[fn]
            fa = FuncAnalysis(eng, f, ())
            fa.run()
            root = 'P:' + f.params[0]
            freed = set()
            sites = []
            for b in f.blocks:
                if b.id not in fa.reach:
                    continue
                for idx, i in enumerate(b.ins):
                    if i.op == 'call':
                        mc = manager_call(i)
                        if mc and mc[0] == 'free' and len(i.args) > 1:
                            objs = fa.pts(i.args[1])
                            for o in objs:
                                if o[0] == root:
                                    freed.add(o[1])
                            sites.append((b, idx, i, objs))
            for b, idx, i, objs in sites:
                handles = set()
                for o in objs:
                    if o[0] != root or not o[1] or o[1][-1] != '*':
                        continue
                    h = o[1][:-1]
                    inside = any(len(fr) < len(h) and h[:len(fr)] == fr for fr in freed)
                    if not inside:
                        handles.add(h)
                for h in sorted(handles):
                    key = 'null-after-free:%s.%s' % (base, '.'.join(h))
                    hobj = (root, h)
                    ok, where = _nulled_on_all_paths(fa, f, b, idx, hobj)
                    if ok:
                        chk.ok(rule, key, i.loc, '%s: %s is set to NULL on every path after the free' % (fn, fmt_obj(hobj)), func=fn)
                    else:
                        chk.bad(rule, key, i.loc, '%s: after freeing %s a path reaches the return at %s without resetting '
                                'it to NULL (a second call would free it again)' % (fn, fmt_obj(hobj), fmt_loc(where)), func=fn)


def _nulled_on_all_paths(fa, f, b0, idx0, hobj):
    prog = fa.eng.prog
    seen = set()
    stack = [(b0, idx0 + 1)]
    while stack:
        b, start = stack.pop()
        if (b.id, start) in seen:
            continue
        seen.add((b.id, start))
        done = False
        for i in b.ins[start:]:
            if i.op == 'assign' and const_value(i.src, prog) == 0:
                if hobj in fa.lv(i.dst):
                    done = True
                    break
        if done:
            continue
        t = b.term
        if t[0] == 'ret':
            return False, t[2]
        for s in b.succs():
            if s.id in fa.reach:
                stack.append((s, 0))
    return True, None


def rule_typestate(ctx, chk, eng, kinds, rule, floor=20):
    prog, irp = ctx.prog, ctx.irp
    texts = {
        'no-double-free': 'no pointer is passed to the manager\'s free twice, or used after it was freed, on any path of any '
                          'function (per-function typestate over all paths)',
        'alloc-discipline': 'per-function typestate of every block obtained from the manager: NULL-tested before it is '
                            'dereferenced; on every path to every return it is freed, stored into caller-visible memory or '
                            'returned; never freed twice or used after free',
    }
    chk.rule(rule, texts.get(rule, rule), floor=floor)
    nf = 0
    for name, f in sorted(irp.funcs.items()):
        has = False
        for b in f.blocks:
            for i in b.ins:
                if i.op == 'call' and manager_call(i) is not None:
                    has = True
        if not has:
            continue
        key0 = '%s' % base_name(name)
        if name in EXEMPT_TYPESTATE or is_testing_only(prog, name):
            chk.ok(rule, 'typestate:' + key0, f.loc, 'exempt: ' + EXEMPT_TYPESTATE.get(name, 'testing-only helper, not in the '
                                                                                      'public headers'), func=name)
            continue
        ts = FuncTypestate(irp, f, eng)
        fs = [x for x in ts.run() if x.kind in kinds]
        nf += 1
        if not fs:
            chk.ok(rule, 'typestate:' + key0, f.loc, 'all paths explored, no %s' % '/'.join(kinds), func=name)
        seen = set()
        for x in fs:
            k = 'typestate:%s/%s/%s' % (key0, x.kind, _site_role(f, x))
            if k in seen:
                continue
            seen.add(k)
            chk.bad(rule, k, x.loc, '%s: %s' % (name, x.detail), func=name)
    return nf


def _site_role(f, x):
    # position-free site identification: allocation member + ordinal among the allocation sites of the function
    site = x.site
    if ':' in site:
        member, line = site.split(':', 1)
        lines = []
        for b in f.blocks:
            for i in b.ins:
                if i.op == 'call':
                    mc = manager_call(i)
                    if mc and mc[0] in ('malloc', 'calloc') and i.loc:
                        lines.append(i.loc[1])
        lines = sorted(set(lines))
        try:
            return '%s#%d' % (member, lines.index(int(line)) + 1)
        except ValueError:
            return member
    return site


def rule_alloc_failure_propagated(ctx, chk, eng, rule='alloc-failure-propagated'):
    """every call of an internal function that can fail for lack of memory is checked, and the failure edge
    returns the out-of-memory indication of the enclosing function"""
    from .failclean import failure_is_zero, zero_test
    from .cfgutil import dominators
    prog, irp = ctx.prog, ctx.irp
    allocf, direct = alloc_functions(irp)
    emalloc = prog.macros.get('URI_ERROR_MALLOC')
    if emalloc is None:
        raise AnalysisBroken('URI_ERROR_MALLOC not found')
    chk.rule(rule, 'the result of every internal call that can report an allocation failure is tested, and every return in '
             'the region dominated by its failure edge yields the enclosing function\'s out-of-memory value '
             '(URI_ERROR_MALLOC for codes, FALSE/NULL otherwise, or the callee\'s code unchanged)', floor=80)
    pub = prog.public_functions()
    for name, f in sorted(irp.funcs.items()):
        if name in EXEMPT_TYPESTATE or is_testing_only(prog, name) or f.unit.endswith('UriMemory.c'):
            continue
        dom = None
        fa = None
        for b in f.blocks:
            for i in b.ins:
                if i.op != 'call':
                    continue
                t = call_target(i)
                if t is None or t not in allocf or t not in irp.funcs:
                    continue
                callee = irp.funcs[t]
                if fa is None:
                    fa = FuncAnalysis(eng, f, ())
                summ = eng.summaries.get((t, fa.callee_ctx(b, callee, i.args)))
                if summ is not None and not summ.allocs:
                    continue       # no allocation is reachable in the context of this call
                fz = failure_is_zero(callee)
                if fz is None:
                    continue       # void callee: cannot report
                key = 'callsite:%s->%s' % (base_name(name), base_name(t))
                if i.dst is None:
                    chk.bad(rule, key, i.loc, '%s ignores the result of %s, which can fail for lack of memory' % (name, t), func=name)
                    continue
                var = i.dst.v
                # the result must reach a branch in this block or be returned / stored in a variable that is
                term = b.term
                if term[0] == 'ret' and term[1] is not None and expr_key(term[1]) == var:
                    chk.ok(rule, key, i.loc, 'result returned unchanged', func=name)
                    continue
                # find the branch testing var (possibly after a copy to a local)
                names = {var}
                for j in b.ins[b.ins.index(i) + 1:]:
                    if j.op == 'assign' and expr_key(j.src) in names:
                        names.add(expr_key(j.dst))
                tested = None
                if term[0] == 'br':
                    zt = zero_test(term[1], prog)
                    if zt and zt[0] in names:
                        tested = (b, zt)
                if tested is None:
                    # look for a later branch on a named copy anywhere in the function
                    for b2 in f.blocks:
                        if b2.term[0] == 'br':
                            zt = zero_test(b2.term[1], prog)
                            if zt and zt[0] in names and not zt[0].startswith('%t'):
                                tested = (b2, zt)
                                break
                if tested is None:
                    used = False
                    for b2 in f.blocks:
                        if b2.term[0] == 'ret' and b2.term[1] is not None and expr_key(b2.term[1]) in names:
                            used = True
                    if used:
                        chk.ok(rule, key, i.loc, 'result returned through a local', func=name)
                    else:
                        chk.bad(rule, key, i.loc, '%s never tests the result of %s' % (name, t), func=name)
                    continue
                tb, (zv, zero_when_true) = tested
                fail_succ = tb.term[2] if (zero_when_true == fz) else tb.term[3]
                if dom is None:
                    dom = dominators(f)
                if len(fail_succ.preds) != 1:
                    # failure edge joins other paths directly: accept if the block returns a named copy of the code
                    region = [fail_succ]
                else:
                    region = [x for x in f.blocks if fail_succ.id in dom[x.id]]
                rets = [x for x in region if x.term[0] == 'ret']
                ffz = failure_is_zero(f)
                bad = None
                for x in rets:
                    e = x.term[1]
                    cv = const_value(e, prog) if e is not None else None
                    if e is None:
                        continue
                    if expr_key(e) in names:
                        continue
                    if cv is None:
                        continue      # a code carried by a variable / the parser state: not a constant we can judge
                    if ffz is False:
                        if cv != emalloc:
                            bad = (x.term[2], 'returns %s instead of URI_ERROR_MALLOC' % (pp.expr(e)))
                    elif ffz is True:
                        if cv != 0:
                            bad = (x.term[2], 'returns %s instead of the failure value' % (pp.expr(e)))
                if bad:
                    chk.bad(rule, key, bad[0], '%s: after %s failed, %s' % (name, t, bad[1]), func=name)
                else:
                    chk.ok(rule, key, i.loc, 'tested; %d returns in the failure region conform' % len(rets), func=name)


def copy_helpers(eng, irp):
    """internal functions that may replace the text range they are handed by a block they allocate themselves"""
    out = {}
    pub = irp.prog.public_functions()
    for name, f in irp.funcs.items():
        s = eng.summary(name)
        if s is None or name in pub:
            continue
        for k, vs in s.heap.items():
            if not k[0].startswith('P:'):
                continue
            if k[1] not in ((), ('first',)):
                continue
            if any(v[0].startswith('F:%s:' % name) and v[1] == () for v in vs):
                p = k[0][2:]
                ty = f.param_types.get(p) or ''
                if 'TextRange' in ty or (ty.count('*') == 2 and ('char' in ty or 'wchar_t' in ty)):
                    out.setdefault(name, set()).add(f.params.index(p))
    return out


def range_class(arg):
    """component class of a range argument such as &(uri->scheme.first), &(walker->text)"""
    a = strip_casts(arg)
    while a.k == 'cast':
        a = strip_casts(a.c[0])
    if a.k == 'un' and a.v == '&':
        a = strip_casts(a.c[0])
    names = []
    n = a
    while n.k in ('member', 'cast'):
        if n.k == 'member':
            names.append(n.v)
        n = n.c[0]
    names.reverse()
    if names and names[-1] in ('first', 'afterLast'):
        names = names[:-1]
    return '.'.join(names) if names else None


def rule_revert_protocol(ctx, chk, eng, rule='revert-protocol'):
    from .failclean import failure_is_zero, zero_test
    from .tables import MASK_BIT_OF_CLASS
    prog, irp = ctx.prog, ctx.irp
    emalloc = prog.macros.get('URI_ERROR_MALLOC')
    helpers = copy_helpers(eng, irp)
    if len(helpers) < 6:
        raise AnalysisBroken('copy helpers not recognised (%s)' % sorted(helpers))
    chk.rule(rule, 'in-place operations: once a copying helper has replaced a text range of the URI by a fresh block, every '
             'failure return is reached only after the component\'s bit was added to the done-mask handed to the revert '
             'routine, or after the block was freed locally; (the revert routine releases exactly the components whose bit '
             'is set)', floor=20)
    for name, f in sorted(irp.funcs.items()):
        sites = []
        for b in f.blocks:
            for i in b.ins:
                if i.op == 'call' and call_target(i) in helpers and name not in helpers:
                    sites.append((b, i))
        if not sites:
            continue
        ffz = failure_is_zero(f)
        # forward dataflow: state = frozenset of uncovered classes; pending (var -> class) for untested helper results
        start = (frozenset(), frozenset())
        instates = {f.entry.id: {start}}
        work = [f.entry]
        viol = {}
        classes_seen = set()
        domi = None
        while work:
            b = work.pop()
            outs = set()
            for (unc, pend) in instates.get(b.id, ()):
                for i in b.ins:
                    if i.op == 'call':
                        t = call_target(i)
                        mc = manager_call(i)
                        if t in helpers and name not in helpers:
                            callee = irp.funcs[t]
                            cls = None
                            for pi in helpers[t]:
                                if pi < len(i.args):
                                    cls = range_class(i.args[pi])
                            if cls is None:
                                raise AnalysisBroken('cannot classify the range handed to %s at %s' % (t, fmt_loc(i.loc)))
                            if cls not in MASK_BIT_OF_CLASS:
                                raise AnalysisBroken('component class %s (at %s) is not in the B.5 table' % (cls, fmt_loc(i.loc)))
                            classes_seen.add(cls)
                            # helper that records the bit itself: a constant non-zero mask argument
                            selfcov = False
                            for p, a in zip(callee.params, i.args):
                                if 'mask' in p.lower() and 'unsigned int' == (callee.param_types.get(p) or ''):
                                    cv = const_value(a, prog)
                                    bit = MASK_BIT_OF_CLASS.get(cls)
                                    if cv is not None and bit is not None and cv == prog.enums.get(bit):
                                        selfcov = True
                            if not selfcov and i.dst is not None:
                                pend = frozenset((v, c) for (v, c) in pend if v != i.dst.v) | {(i.dst.v, cls)}
                            elif not selfcov:
                                unc = unc | {cls}
                        elif mc is not None and mc[0] == 'free' and len(i.args) > 1:
                            c = range_class(i.args[1])
                            if c in unc:
                                unc = unc - {c}
                    elif i.op == 'assign' and i.x and i.x.get('compound') == '|=':
                        # M |= const : covers the classes whose bit is in const
                        src = i.src
                        cv = const_value(src.c[1], prog) if src.k == 'bin' else None
                        if cv is not None:
                            cov = set(c for c in unc if MASK_BIT_OF_CLASS.get(c) and (prog.enums.get(MASK_BIT_OF_CLASS[c], 0) & cv))
                            unc = unc - cov
                outs.add((unc, pend))
            t = b.term
            nxt = []
            if t[0] == 'br':
                zt = zero_test(t[1], prog)
                for (unc, pend) in outs:
                    done = False
                    if zt is not None:
                        for (v, c) in pend:
                            if v == zt[0]:
                                p2 = frozenset(x for x in pend if x[0] != v)
                                for succ, truth in ((t[2], True), (t[3], False)):
                                    is_zero = (zt[1] == truth)
                                    u2 = unc if is_zero else unc | {c}
                                    if is_zero and len(succ.preds) == 1:
                                        # failure edge: classes freed locally inside the failure region
                                        if domi is None:
                                            from .cfgutil import dominators
                                            domi = dominators(f)
                                        for x in f.blocks:
                                            if succ.id in domi[x.id]:
                                                for j in x.ins:
                                                    if j.op == 'call':
                                                        mcj = manager_call(j)
                                                        if mcj and mcj[0] == 'free' and len(j.args) > 1:
                                                            u2 = u2 - {range_class(j.args[1])}
                                    nxt.append((succ, (u2, p2)))
                                done = True
                                break
                    if not done:
                        nxt.append((t[2], (unc, pend)))
                        nxt.append((t[3], (unc, pend)))
            elif t[0] == 'ret':
                for (unc, pend) in outs:
                    e = t[1]
                    cv = const_value(e, prog) if e is not None else None
                    is_fail = False
                    if ffz is False and cv is not None and cv != 0:
                        is_fail = True
                    if ffz is True and cv == 0:
                        is_fail = True
                    if is_fail:
                        for c in unc:
                            viol.setdefault(c, t[2])
            else:
                for st in outs:
                    for s in b.succs():
                        nxt.append((s, st))
            for succ, st in nxt:
                cur = instates.setdefault(succ.id, set())
                if st not in cur:
                    if len(cur) > 500:
                        raise AnalysisBroken('revert-protocol state explosion in %s' % name)
                    cur.add(st)
                    if succ not in work:
                        work.append(succ)
        for c in sorted(classes_seen):
            key = 'revert:%s/%s' % (base_name(name), c)
            if c in viol:
                chk.bad(rule, key, viol[c], '%s: a failure return is reachable while a fresh copy of component `%s` stored in '
                        'the URI is neither covered by the done-mask (bit %s) nor freed locally: it leaks after the caller\'s '
                        'cleanup' % (name, c, MASK_BIT_OF_CLASS.get(c)), func=name)
            else:
                chk.ok(rule, key, f.loc, '%s: component `%s` is covered at every failure return' % (name, c), func=name)


def rule_mask_bit_after_copy(ctx, chk, eng, rule='mask-bit-after-copy'):
    """a done-mask bit may only be set once the component really holds a fresh block"""
    from .cfgutil import dominators
    from .failclean import zero_test
    from .tables import MASK_BIT_OF_CLASS
    prog, irp = ctx.prog, ctx.irp
    helpers = copy_helpers(eng, irp)
    chk.rule(rule, 'a done-mask bit is set only on paths on which the component was replaced by a fresh block: in a copying '
             'helper the `|=` is dominated by the store of the (NULL-tested) new block into the range; in its callers it is '
             'dominated by (or follows the loop of) a successful helper call for a component of that bit', floor=14)
    for name, f in sorted(irp.funcs.items()):
        ors = []
        for b in f.blocks:
            for idx, i in enumerate(b.ins):
                if i.op == 'assign' and i.x and i.x.get('compound') == '|=' and 'mask' in expr_key(i.dst).lower() \
                        and 'done' in expr_key(i.dst).lower():
                    ors.append((b, idx, i))
        if not ors:
            continue
        dom = dominators(f)
        for b, idx, i in ors:
            bitv = const_value(i.src.c[1], prog) if i.src.k == 'bin' else None
            key = 'maskbit:%s/%s' % (base_name(name), bitv if bitv is not None else pp.expr(i.src.c[1]))
            ok = False
            why = ''
            if name in helpers:
                # store of a fresh block into X->first dominating the |=
                for b2 in f.blocks:
                    for j2, j in enumerate(b2.ins):
                        if j.op == 'assign' and j.dst.k == 'member' and j.dst.v == 'first':
                            if (b2.id in dom[b.id] and b2 is not b) or (b2 is b and j2 < idx):
                                # the stored value must be a NULL-tested allocation: b2 dominated by a non-null edge
                                ok = True
                                why = 'after the store of the new block at %s' % fmt_loc(j.loc)
                if ok:
                    # and the allocation must dominate too
                    ok = any(jj.op == 'call' and manager_call(jj) and manager_call(jj)[0] in ('malloc', 'calloc') and
                             ((bb.id in dom[b.id] and bb is not b) or (bb is b and bb.ins.index(jj) < idx))
                             for bb in f.blocks for jj in bb.ins)
            else:
                for b2 in f.blocks:
                    for j in b2.ins:
                        if j.op != 'call' or call_target(j) not in helpers:
                            continue
                        cls = None
                        for pi in helpers[call_target(j)]:
                            if pi < len(j.args):
                                cls = range_class(j.args[pi])
                        bit = MASK_BIT_OF_CLASS.get(cls)
                        if bit is None or bitv is None or prog.enums.get(bit) != bitv:
                            continue
                        if b2.term[0] != 'br':
                            continue
                        zt = zero_test(b2.term[1], prog)
                        if not zt or j.dst is None or zt[0] != j.dst.v:
                            continue
                        succ_ok = b2.term[3] if zt[1] else b2.term[2]
                        if succ_ok.id in dom[b.id]:
                            ok = True
                            why = 'dominated by the success edge of %s at %s' % (call_target(j), fmt_loc(j.loc))
                        else:
                            # helper call inside a loop whose header dominates the |=, failure edge leaves the function
                            fail = b2.term[2] if zt[1] else b2.term[3]
                            hdrs = [h for h in f.blocks if h.id in dom[b2.id] and h.id in dom[b.id] and
                                    any(p.id != h.id and h.id in dom[p.id] for p in h.preds)]
                            reach = _reach_without(f, fail, b2)
                            if hdrs and b.id not in reach:
                                ok = True
                                why = 'follows the loop of %s calls at %s' % (call_target(j), fmt_loc(j.loc))
            if ok:
                chk.ok(rule, key, i.loc, '%s: %s' % (name, why), func=name)
            else:
                chk.bad(rule, key, i.loc, '%s sets done-mask bit %s at a point not dominated by a successful copy of the '
                        'component: the revert routine would free text that was never duplicated' % (name, bitv if bitv is not None else pp.expr(i.src.c[1])),
                        func=name)


def _reach_without(f, start, avoid):
    seen = set()
    st = [start]
    while st:
        x = st.pop()
        if x.id in seen or x is avoid:
            continue
        seen.add(x.id)
        st.extend(x.succs())
    return seen
