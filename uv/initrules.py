"""Release-read fields of malloc'ed list nodes are written before anybody can read them.

The release functions (uriFreeUriMembersMm, uriFreeQueryListMm) read `next`, the text range ends, `key`, `value`
of every node they reach.  A node obtained from malloc has indeterminate fields, so on every path

  * to a return at which the node is reachable from caller-visible memory (stored through a parameter, linked behind
    another node), and
  * to a call that hands the node to a function of the library that reads such a field,

each of those fields has been stored (through the variable, through the lvalue the node was stored into, or as part of
a whole-struct assignment of the embedding member).  calloc'ed nodes are zero-filled and carry no obligation.  The
field lists are read off the release functions of the current source, not frozen here."""
import re

from .ir import strip_casts, const_value, manager_call, call_target
from .cfgutil import expr_key, null_test
from .factflow import explore, Hooks
from .tables import base_name
from .frontend import fmt_loc

TYPES = ('PathSegment', 'QueryList')
RELEASERS = ('uriFreeUriMembersMm', 'uriFreeQueryListMm')


def _tname(ty):
    for t in TYPES:
        if t in (ty or ''):
            return t
    return None


def member_chain(e):
    """(base pointer/struct expression, 'a.b.c') for a member access chain, else None"""
    e = strip_casts(e)
    path = []
    while e is not None and e.k == 'member':
        path.append(e.v)
        arrow = bool(e.x and e.x.get('arrow'))
        base = e.c[0]
        if arrow:
            return strip_casts(base), '.'.join(reversed(path))
        e = strip_casts(base)
    if e is not None and path and e.k == 'un' and e.v == '*':
        return strip_casts(e.c[0]), '.'.join(reversed(path))
    return None


def read_fields(f):
    """{type name: set of leaf paths} loaded (or stored) through pointers to the node types in f"""
    out = {}
    def visit(e, parent_is_member):
        if e is None:
            return
        if e.k == 'member' and not parent_is_member:
            mc = member_chain(e)
            if mc is not None:
                base, path = mc
                t = _tname(base.ty)
                if t is not None and '*' in (base.ty or ''):
                    out.setdefault(t, set()).add(path)
        for c in (e.c or []):
            visit(c, e.k == 'member')
    for b in f.blocks:
        for i in b.ins:
            for e in [i.src] + list(i.args or []):
                visit(e, False)
        t = b.term
        if t[0] in ('br', 'switch'):
            visit(t[1], False)
        elif t[0] == 'ret' and t[1] is not None:
            visit(t[1], False)
    return out


def release_reads(irp):
    need = {}
    seen = []
    for name, f in irp.funcs.items():
        if base_name(name) in RELEASERS:
            seen.append(name)
            for t, ps in read_fields(f).items():
                need.setdefault(t, set()).update(ps)
    return need, seen


class InitHooks(Hooks):
    def __init__(self, f, prog, irp, need, reads_of):
        self.f = f
        self.prog = prog
        self.irp = irp
        self.need = need
        self.reads_of = reads_of
        self.bad = []
        self.objects = set()

    def _is_local(self, key):
        return key in self.f.locals and key not in self.f.param_types

    def _resolve(self, facts, key):
        if any(x[0] == 'obj' and x[1] == key for x in facts):
            return key
        for x in facts:
            if x[0] == 'alias' and x[1] == key:
                return x[2]
        return None

    def _drop_obj(self, facts, K):
        return frozenset(x for x in facts if not ((x[0] in ('obj', 'need', 'esc') and x[1] == K) or (x[0] == 'alias' and x[2] == K)))

    def _kill_var(self, facts, v):
        pat = re.compile(r'(?<![A-Za-z0-9_.>#])%s(?![A-Za-z0-9_#])' % re.escape(v))
        objs = [x[1] for x in facts if x[0] == 'obj' and pat.search(x[1])]
        for K in objs:
            # the name goes away: carry the object under another lvalue that holds it, if there is one
            al = sorted(x[1] for x in facts if x[0] == 'alias' and x[2] == K and not pat.search(x[1]))
            if al:
                A = al[0]
                new = set()
                for x in facts:
                    if x[0] in ('obj', 'need', 'esc') and x[1] == K:
                        new.add((x[0], A) + tuple(x[2:]))
                    elif x[0] == 'alias' and x[2] == K:
                        if x[1] != A:
                            new.add(('alias', x[1], A))
                    else:
                        new.add(x)
                facts = frozenset(new)
            else:
                facts = self._drop_obj(facts, K)
        return frozenset(x for x in facts if not ((x[0] == 'alias' and pat.search(x[1])) or (x[0] == 'alloc' and x[1] == v)
                                                  or (x[0] in ('null', 'cv') and x[1] == v)))

    def instr(self, b, idx, i, facts):
        if i.op == 'call':
            mc = manager_call(i)
            if mc and mc[0] == 'free' and len(i.args) > 1:
                K = self._resolve(facts, expr_key(i.args[1]))
                if K is not None:
                    facts = self._drop_obj(facts, K)
                return facts
            if mc and mc[0] in ('malloc', 'calloc') and i.dst is not None and i.dst.k == 'ref':
                facts = self._kill_var(facts, i.dst.v)
                return facts | {('alloc', i.dst.v, mc[0])}
            t = call_target(i)
            if t is not None and t in self.irp.funcs:
                reads = self.reads_of(t)
                for a in i.args or []:
                    K = self._resolve(facts, expr_key(a))
                    if K is None:
                        continue
                    ty = [x[2] for x in facts if x[0] == 'obj' and x[1] == K][0]
                    missing = sorted(x[2] for x in facts if x[0] == 'need' and x[1] == K and x[2] in reads.get(ty, ()))
                    if missing:
                        self.bad.append((i.loc, 'read-before-init', K, 'the malloc\'ed %s `%s` is handed to %s, which reads `%s`, before that field was '
                                         'written' % (ty, K, t, '`, `'.join(missing))))
            if i.dst is not None and i.dst.k == 'ref':
                return self._kill_var(facts, i.dst.v)
            return facts
        if i.op != 'assign':
            return facts
        d = strip_casts(i.dst)
        s = strip_casts(i.src)
        if d is None:
            return facts
        dk = expr_key(d)
        # a field of a tracked node is written
        mc = member_chain(d)
        if mc is not None:
            base, path = mc
            K = self._resolve(facts, expr_key(base))
            if K is not None:
                facts = frozenset(x for x in facts if not (x[0] == 'need' and x[1] == K and (x[2] == path or x[2].startswith(path + '.'))))
        src_obj = self._resolve(facts, expr_key(s)) if s is not None else None
        alloc = [x for x in facts if s is not None and s.k == 'ref' and x[0] == 'alloc' and x[1] == s.v]
        if d.k == 'ref':
            facts = self._kill_var(facts, d.v)
            cv = const_value(i.src, self.prog)
            if cv is not None:
                return facts | ({('null', d.v, None)} if (cv == 0 and '*' in (d.ty or '')) else {('cv', d.v, cv)})
        else:
            # the lvalue is overwritten: an object or alias known under it is no longer named by it
            if any(x[0] == 'obj' and x[1] == dk for x in facts):
                facts = self._kill_named(facts, dk)
            facts = frozenset(x for x in facts if not (x[0] == 'alias' and x[1] == dk))
        if alloc:
            t = _tname(d.ty)
            if t is not None and alloc[0][2] == 'malloc' and self.need.get(t):
                self.objects.add(str(i.loc))
                facts = facts | {('obj', dk, t)} | set(('need', dk, p) for p in self.need[t])
                if not (d.k == 'ref' and self._is_local(d.v)):
                    facts = facts | {('esc', dk)}
            return facts
        if src_obj is not None and dk != src_obj:
            facts = facts | {('alias', dk, src_obj)}
            if not (d.k == 'ref' and self._is_local(d.v)):
                facts = facts | {('esc', src_obj)}
        return facts

    def _kill_named(self, facts, K):
        al = sorted(x[1] for x in facts if x[0] == 'alias' and x[2] == K)
        if not al:
            return self._drop_obj(facts, K)
        A = al[0]
        new = set()
        for x in facts:
            if x[0] in ('obj', 'need', 'esc') and x[1] == K:
                new.add((x[0], A) + tuple(x[2:]))
            elif x[0] == 'alias' and x[2] == K:
                if x[1] != A:
                    new.add(('alias', x[1], A))
            else:
                new.add(x)
        return frozenset(new)

    def edge(self, b, cond, truth, facts):
        from .failclean import zero_test
        zt = zero_test(cond, self.prog)
        if zt is not None:
            var, zero_when_true = zt
            for x in facts:
                if x[0] == 'cv' and x[1] == var:
                    if ((x[2] == 0) == zero_when_true) != truth:
                        return None
        nt = null_test(cond)
        if nt is not None:
            e, null_when_true = nt
            k = expr_key(e)
            if null_when_true == truth:
                K = self._resolve(facts, k)
                if K is not None:
                    facts = self._drop_obj(facts, K)
        return facts

    def ret(self, b, term, facts):
        for x in facts:
            if x[0] == 'need' and ('esc', x[1]) in facts:
                self.bad.append((term[2], 'escapes-uninitialised', x[1], 'the malloc\'ed node `%s` is reachable from caller-visible memory at this '
                                 'return while its `%s` was never written; the release functions read it' % (x[1], x[2])))


def rule_node_init(ctx, chk, rule='node-init'):
    """returns (#functions with malloc'ed nodes, #allocation sites, release functions read)"""
    irp = ctx.irp
    need, releasers = release_reads(irp)
    if not releasers or not all(need.get(t) for t in TYPES):
        from .frontend import AnalysisBroken
        raise AnalysisBroken('release functions / their field reads not found (%r)' % (need,))
    cache = {}

    def reads_of(name):
        if name not in cache:
            # transitive over direct callees that take a node pointer
            seen, st, acc = set(), [name], {}
            while st:
                n = st.pop()
                if n in seen or n not in irp.funcs:
                    continue
                seen.add(n)
                g = irp.funcs[n]
                for t, ps in read_fields(g).items():
                    acc.setdefault(t, set()).update(ps)
                for bb in g.blocks:
                    for ii in bb.ins:
                        if ii.op == 'call':
                            tt = call_target(ii)
                            if tt and any(_tname(a.ty) for a in (ii.args or []) if a is not None):
                                st.append(tt)
            cache[name] = acc
        return cache[name]
    nf = nsites = 0
    for name in sorted(irp.funcs):
        f = irp.funcs[name]
        h = InitHooks(f, ctx.prog, irp, need, reads_of)
        has = False
        for b in f.blocks:
            for i in b.ins:
                if i.op == 'call':
                    mc = manager_call(i)
                    if mc and mc[0] == 'malloc':
                        has = True
        if not has:
            continue
        explore(f, h, limit=60000)
        if not h.objects:
            continue
        nf += 1
        nsites += len(h.objects)
        if h.bad:
            seen = set()
            for loc, kind, K, detail in h.bad:
                key = '%s:%s:%s' % (kind, base_name(name), K)
                if key in seen:
                    continue
                seen.add(key)
                chk.bad(rule, key, loc, '%s, %s: %s' % (name, fmt_loc(loc), detail), func=name)
        else:
            chk.ok(rule, 'init:%s' % name, f.loc, 'every malloc\'ed node has its release-read fields written before it escapes or is read',
                   func=name)
    return nf, nsites, dict((t, sorted(ps)) for t, ps in need.items()), releasers
