"""E4: allocation typestate per function (forward, path-insensitive over sets of abstract states).

A *group* is one heap block known to the function: (site, holders, status, escaped).
holders are lvalue keys (expr_key) that currently hold the pointer.
status: 'unchecked' fresh and maybe NULL | 'live' fresh, non-NULL | 'freed'.
"""
from .frontend import fmt_loc, AnalysisBroken
from .ir import strip_casts, call_target, manager_call, is_tmp, const_value
from .cfgutil import expr_key, null_test
from . import pp

NONOWNING_EXTERNALS = {'memcpy', 'memset', 'memcmp', 'memmove', 'strlen', 'wcslen', 'strncmp', 'wcsncmp'}


class Finding(object):
    def __init__(self, kind, func, loc, site, detail):
        self.kind = kind
        self.func = func
        self.loc = loc
        self.site = site
        self.detail = detail


def value_key(e, arith=False):
    """key of the lvalue whose value e is (e is an rvalue expression), or None"""
    s = e
    while True:
        if s.k == 'cast' and s.v not in ('LValueToRValue',):
            s = s.c[0]
        elif arith and s.k == 'bin' and s.v in ('+', '-') and '*' in (s.c[0].ty or ''):
            s = s.c[0]
        else:
            break
    if s.k == 'cast' and s.v == 'LValueToRValue':
        return expr_key(s.c[0])
    if is_tmp(s):
        return s.v
    return None


def base_ref(e):
    """innermost base variable of an lvalue expression and whether a dereference is involved"""
    deref = False
    n = e
    while True:
        if n.k == 'cast':
            n = n.c[0]
        elif n.k == 'member':
            if n.x['arrow']:
                deref = True
            n = n.c[0]
        elif n.k == 'index':
            deref = True
            n = n.c[0]
        elif n.k == 'un' and n.v == '*':
            deref = True
            n = n.c[0]
        elif n.k == 'un' and n.v == '&':
            n = n.c[0]
        elif n.k == 'bin' and n.v in ('+', '-'):
            n = n.c[0]
        else:
            break
    return (n.v if n.k == 'ref' else None), deref


def deref_bases(e, out=None):
    """keys of pointer lvalues that are dereferenced inside expression e"""
    if out is None:
        out = []
    if e is None:
        return out
    if e.k == 'member' and e.x['arrow']:
        k = value_key(e.c[0])
        if k:
            out.append(k)
    elif e.k == 'index' or (e.k == 'un' and e.v == '*'):
        k = value_key(e.c[0])
        if k:
            out.append(k)
    for c in e.c:
        deref_bases(c, out)
    return out


class State(object):
    """immutable: tuple of groups; group = (site, frozenset(holders), status, escaped)"""
    __slots__ = ('groups',)

    def __init__(self, groups=()):
        self.groups = tuple(sorted(groups, key=lambda g: (g[0], sorted(g[1]), g[2], g[3])))

    def __hash__(self):
        return hash(self.groups)

    def __eq__(self, o):
        return self.groups == o.groups

    def find(self, key):
        for g in self.groups:
            if key in g[1]:
                return g
        return None

    def replace(self, old, new):
        gs = [g for g in self.groups if g is not old]
        if new is not None:
            gs.append(new)
        return State(gs)


class FuncTypestate(object):
    def __init__(self, irp, f, eng=None):
        self.irp = irp
        self.f = f
        self.eng = eng
        self.findings = {}
        self.alloc_sites = []
        self.free_sites = []
        self.locals = set(f.locals) | set(f.params)

    def report(self, kind, loc, site, detail):
        k = (kind, site, loc[1] if loc else None)
        if k not in self.findings:
            self.findings[k] = Finding(kind, self.f.name, loc, site, detail)

    def is_local_key(self, key):
        # plain local variable or temporary (no dereference, no field of pointee)
        return key in self.locals or key.startswith('%t')

    def kill(self, st, key, loc):
        g = st.find(key)
        if g is None:
            return st
        hs = g[1] - {key}
        if not hs:
            if g[2] in ('live', 'unchecked') and not g[3] and g[0] != 'foreign':
                self.report('lost-block', loc, g[0], 'the only reference `%s` to the block allocated at %s is overwritten '
                            'while the block is neither freed, stored nor returned' % (key, g[0]))
            return st.replace(g, None)
        return st.replace(g, (g[0], frozenset(hs), g[2], g[3]))

    def check_uses(self, st, exprs, loc, what):
        for e in exprs:
            for k in deref_bases(e):
                g = st.find(k)
                if g is None:
                    continue
                if g[2] == 'freed':
                    self.report('use-after-free', loc, g[0], '`%s` is dereferenced after it was passed to the manager\'s free (%s)'
                                % (k, what))
                elif g[2] == 'unchecked':
                    self.report('unchecked-alloc', loc, g[0], 'result of the allocation at %s is dereferenced through `%s` '
                                'without a NULL test' % (g[0], k))

    def transfer(self, st, i):
        f = self.f
        if i.op == 'decl':
            return self.kill(st, i.dst.v, i.loc)
        if i.op == 'assign':
            self.check_uses(st, [i.src, i.dst], i.loc, 'assignment')
            dkey = expr_key(i.dst)
            skey = value_key(i.src)
            st = self.kill(st, dkey, i.loc)
            # a store through a holder that was freed is covered by check_uses
            if skey is not None:
                g = st.find(skey)
                if g is not None:
                    base, deref = base_ref(i.dst)
                    esc = g[3]
                    if deref or (base is not None and base not in self.locals):
                        # stored into memory: escaped unless the memory is itself a tracked fresh block
                        esc = True
                    st = st.replace(g, (g[0], g[1] | {dkey}, g[2], esc))
            # dereferencing holders inside the destination that were invalidated: none
            # any holder key that syntactically contains dkey as base is stale now
            stale = [k for g in st.groups for k in g[1] if k != dkey and _mentions(k, dkey)]
            for k in stale:
                st = self.kill(st, k, i.loc)
            return st
        if i.op == 'call':
            mc = manager_call(i)
            tgt = call_target(i)
            if mc is not None:
                member = mc[0]
                if member in ('malloc', 'calloc'):
                    site = '%s:%s' % (member, i.loc[1] if i.loc else '?')
                    if i.dst is not None:
                        st = self.kill(st, i.dst.v, i.loc)
                        st = State(st.groups + ((site, frozenset([i.dst.v]), 'unchecked', False),))
                    else:
                        self.report('lost-block', i.loc, site, 'allocation result is discarded')
                    return st
                if member == 'free':
                    arg = i.args[1] if len(i.args) > 1 else None
                    k = value_key(arg) if arg is not None else None
                    self.check_uses(st, [arg], i.loc, 'argument of free')
                    if k is not None:
                        g = st.find(k)
                        if g is None:
                            st = State(st.groups + (('foreign', frozenset([k]), 'freed', False),))
                        elif g[2] == 'freed':
                            self.report('double-free', i.loc, g[0], '`%s` is passed to the manager\'s free twice on one path' % k)
                        else:
                            st = st.replace(g, (g[0], g[1], 'freed', g[3]))
                    return st
                if member in ('realloc', 'reallocarray'):
                    if i.dst is not None:
                        st = self.kill(st, i.dst.v, i.loc)
                    return st
                return st
            # ordinary call
            self.check_uses(st, i.args, i.loc, 'call argument')
            for ai, a in enumerate(i.args):
                k = value_key(a)
                if k is None:
                    continue
                g = st.find(k)
                if g is None:
                    continue
                if g[2] == 'freed':
                    self.report('use-after-free', i.loc, g[0], '`%s` is passed to %s after it was freed' % (k, tgt or 'a call'))
                    continue
                if tgt in NONOWNING_EXTERNALS:
                    continue
                eff = self.callee_effect(tgt, ai)
                if eff == 'frees':
                    st = st.replace(g, (g[0], g[1], 'freed', g[3]))
                elif eff == 'stores' or eff is None:
                    st = st.replace(g, (g[0], g[1], g[2], True))
                g2 = st.find(k)
            # passing &x where x is a holder: callee may overwrite; treat as escaped
            for a in i.args:
                s = strip_casts(a)
                if s.k == 'un' and s.v == '&':
                    k = expr_key(s.c[0])
                    g = st.find(k)
                    if g is not None:
                        st = st.replace(g, (g[0], g[1], g[2], True))
            if i.dst is not None:
                st = self.kill(st, i.dst.v, i.loc)
            return st
        return st

    def callee_effect(self, tgt, ai):
        """'frees' | 'stores' | 'none' | None(unknown) for argument position ai of callee tgt"""
        if tgt is None or self.eng is None or tgt not in self.irp.funcs:
            return None
        s = self.eng.summary(tgt)
        if s is None:
            return None
        callee = self.irp.funcs[tgt]
        if ai >= len(callee.params):
            return None
        root = 'P:' + callee.params[ai]
        for e in s.effects.values():
            if e.kind == 'f' and e.obj == (root, ()):
                return 'frees'
        for k, vs in s.heap.items():
            if (root, ()) in vs and not k[0].startswith('L:'):
                return 'stores'
        if (root, ()) in s.ret:
            return 'stores'
        return 'none'

    def run(self):
        f = self.f
        instates = {f.entry.id: {State()}}
        work = [f.entry]
        rounds = 0
        while work:
            b = work.pop()
            rounds += 1
            if rounds > 200000:
                raise AnalysisBroken('typestate exploration did not converge in %s' % f.name)
            outs = set()
            for st in instates.get(b.id, ()):
                s2 = st
                for i in b.ins:
                    if i.op == 'call':
                        mc = manager_call(i)
                        if mc and mc[0] in ('malloc', 'calloc') and (b.id, id(i)) not in self.alloc_sites:
                            self.alloc_sites.append((b.id, id(i)))
                    s2 = self.transfer(s2, i)
                outs.add(s2)
            t = b.term
            succ_states = []
            if t[0] == 'br':
                nt = null_test(t[1])
                for st in outs:
                    self.check_uses(st, [t[1]], t[4], 'condition')
                    if nt is not None:
                        k = value_key(nt[0]) or expr_key(nt[0])
                        g = st.find(k)
                        if g is not None:
                            # true edge
                            for succ, truth in ((t[2], True), (t[3], False)):
                                is_null = (nt[1] == truth)
                                if is_null:
                                    if g[2] == 'unchecked':
                                        succ_states.append((succ, st.replace(g, None)))
                                    else:
                                        succ_states.append((succ, st))
                                else:
                                    if g[2] == 'unchecked':
                                        succ_states.append((succ, st.replace(g, (g[0], g[1], 'live', g[3]))))
                                    else:
                                        succ_states.append((succ, st))
                            continue
                    succ_states.append((t[2], st))
                    succ_states.append((t[3], st))
            elif t[0] == 'ret':
                for st in outs:
                    if t[1] is not None:
                        self.check_uses(st, [t[1]], t[2], 'return value')
                    rk = value_key(t[1], arith=True) if t[1] is not None else None
                    for g in st.groups:
                        if g[0] == 'foreign':
                            continue
                        if g[2] in ('live', 'unchecked') and not g[3] and (rk is None or rk not in g[1]):
                            self.report('leak-at-exit', t[2], g[0], 'block allocated at %s is still held only by %s at this return: '
                                        'not freed, not stored into caller-visible memory, not returned' % (g[0], sorted(g[1])))
            else:
                for st in outs:
                    if t[0] == 'switch':
                        self.check_uses(st, [t[1]], t[4], 'switch')
                    for s in b.succs():
                        succ_states.append((s, st))
            for succ, st in succ_states:
                cur = instates.setdefault(succ.id, set())
                if st not in cur:
                    if len(cur) > 400:
                        raise AnalysisBroken('typestate state explosion in %s' % f.name)
                    cur.add(st)
                    if succ not in work:
                        work.append(succ)
        return list(self.findings.values())


def _mentions(key, base):
    """does holder key `key` (a printed lvalue) dereference variable `base`?"""
    if key == base:
        return False
    import re
    return re.search(r'(?<![\w%#])' + re.escape(base) + r'(?![\w#])', key) is not None


def alloc_functions(irp):
    """functions that (transitively) perform a manager allocation"""
    direct = set()
    calls = {}
    for name, f in irp.funcs.items():
        cs = set()
        for b in f.blocks:
            for i in b.ins:
                if i.op != 'call':
                    continue
                mc = manager_call(i)
                if mc and mc[0] in ('malloc', 'calloc', 'realloc', 'reallocarray'):
                    direct.add(name)
                t = call_target(i)
                if t:
                    cs.add(t)
        calls[name] = cs
    res = set(direct)
    changed = True
    while changed:
        changed = False
        for name, cs in calls.items():
            if name not in res and cs & res:
                res.add(name)
                changed = True
    return res, direct
