"""Outcome plumbing: obligations, violations, known findings, evidence, exit codes."""
import json
import os
import sys
import time

from .frontend import VERIF, REPO, fmt_loc, AnalysisBroken

KNOWN_FILE = os.path.join(VERIF, 'known_findings.json')
EVIDENCE_DIR = os.path.join(VERIF, 'evidence')
REPLAY_DIR = os.path.join(VERIF, 'replays')


def load_known():
    try:
        with open(KNOWN_FILE) as f:
            d = json.load(f)
    except OSError:
        return {}
    out = {}
    for e in d.get('findings', []):
        out.setdefault(e['property'], {})[e['key']] = e
    return out


class Obl(object):
    __slots__ = ('rule', 'key', 'loc', 'ok', 'detail', 'func')

    def __init__(self, rule, key, loc, ok, detail='', func=None):
        self.rule = rule
        self.key = key
        self.loc = loc
        self.ok = ok
        self.detail = detail
        self.func = func

    def as_dict(self):
        return {'rule': self.rule, 'instance': self.key, 'at': fmt_loc(self.loc) if self.loc else None,
                'function': self.func, 'status': 'discharged' if self.ok else 'VIOLATED', 'detail': self.detail}


class Check(object):
    def __init__(self, pid, tier='quick', level='other', seed=0):
        self.pid = pid
        self.tier = tier
        self.level = level
        self.seed = seed
        self.t0 = time.time()
        self.obls = []
        self.analysed = {}
        self.assumptions = []
        self.trusted = ['clang 14 parser/Sema (JSON AST: resolved callees, constant values, types)',
                        '/verif/uv front end: AST reduction and mini-IR lowering',
                        'oracle tables in /verif/uv (listed per rule)']
        self.explanation = ''
        self.rules = {}        # rule -> description
        self.floors = {}       # rule -> minimum instance count
        self.notes = []
        self.extra = {}

    # -- recording
    def rule(self, name, text, floor=0):
        self.rules[name] = text
        if floor:
            self.floors[name] = floor

    def ok(self, rule, key, loc=None, detail='', func=None):
        self.obls.append(Obl(rule, key, loc, True, detail, func))

    def bad(self, rule, key, loc=None, detail='', func=None):
        self.obls.append(Obl(rule, key, loc, False, detail, func))

    def add(self, rule, key, ok, loc=None, detail='', func=None):
        self.obls.append(Obl(rule, key, loc, bool(ok), detail, func))

    def count(self, rule):
        return sum(1 for o in self.obls if o.rule == rule)

    def floor_problem(self):
        for r, fl in self.floors.items():
            n = self.count(r)
            if n < fl:
                return 'rule %s matched %d instances, below the floor %d confirmed on the baseline tree' % (r, n, fl)
        for r in self.rules:
            if self.count(r) == 0:
                return 'rule %s matched no instance (vacuous)' % r
        return None

    # -- finishing
    def finish(self):
        known = load_known().get(self.pid, {})
        # floors: a rule that lost its instances makes a PASS meaningless (analysis broken); a violation that another rule has
        # already named stands on its own and is reported
        if not any((not o.ok) and o.key not in known for o in self.obls):
            for r, fl in self.floors.items():
                n = self.count(r)
                if n < fl:
                    raise AnalysisBroken('rule %s matched %d instances, below the floor %d confirmed on the baseline tree'
                                         % (r, n, fl))
            for r in self.rules:
                if self.count(r) == 0:
                    raise AnalysisBroken('rule %s matched no instance (vacuous)' % r)
        viols, knowns = [], []
        for o in self.obls:
            if o.ok:
                continue
            if o.key in known:
                knowns.append(o)
            else:
                viols.append(o)
        # de-duplicate known lines by key
        seen = set()
        for o in knowns:
            if o.key in seen:
                continue
            seen.add(o.key)
            print('KNOWN-FINDING: property=%s %s [%s] %s' % (self.pid, known[o.key].get('what', o.detail), o.key,
                                                             fmt_loc(o.loc) if o.loc else ''))
        os.makedirs(REPLAY_DIR, exist_ok=True)
        vseen = {}
        more = 0
        for o in viols:
            if o.key in vseen:
                continue
            if len(vseen) >= 25:
                more += 1
                vseen[o.key] = None
                continue
            idx = len(vseen) + 1
            path = os.path.join(REPLAY_DIR, '%s-%d.json' % (self.pid, idx))
            vseen[o.key] = path
            with open(path, 'w') as f:
                json.dump({'property': self.pid, 'rule': o.rule, 'rule_text': self.rules.get(o.rule, ''),
                           'key': o.key, 'at': fmt_loc(o.loc) if o.loc else None, 'function': o.func,
                           'detail': o.detail, 'tier': self.tier}, f, indent=1)
            print('%s: %s: %s' % (fmt_loc(o.loc) if o.loc else '?', o.rule, o.detail))
            print('VIOLATION property=%s replay=%s' % (self.pid, path))
        if more:
            print('... and %d further violated instances (all listed in the evidence file)' % more)
        self.write_evidence(len(vseen), len(seen))
        n_ok = sum(1 for o in self.obls if o.ok)
        print('%s [%s]: %d obligations, %d discharged, %d known findings, %d violations (%.1fs)'
              % (self.pid, self.tier, len(self.obls), n_ok, len(seen), len(vseen), time.time() - self.t0))
        return 1 if vseen else 0

    def write_evidence(self, nviol, nknown):
        if os.environ.get('VERIF_NO_EVIDENCE'):
            return
        os.makedirs(EVIDENCE_DIR, exist_ok=True)
        per_rule = {}
        for o in self.obls:
            d = per_rule.setdefault(o.rule, {'instances': 0, 'discharged': 0, 'text': self.rules.get(o.rule, '')})
            d['instances'] += 1
            d['discharged'] += 1 if o.ok else 0
        # samples: a few per rule, rotated by seed, all non-discharged ones
        samples = []
        for r in per_rule:
            rs = [o for o in self.obls if o.rule == r]
            bads = [o for o in rs if not o.ok]
            start = self.seed % max(1, len(rs))
            pick = (rs[start:] + rs[:start])[:3]
            for o in bads[:10] + pick:
                dd = o.as_dict()
                if dd not in samples:
                    samples.append(dd)
        n_ok = sum(1 for o in self.obls if o.ok)
        keys = set((o.rule, o.key) for o in self.obls)
        cov = {
            'obligations': len(self.obls),
            'discharged': n_ok,
            'known_findings': nknown,
            'checker_cmd': './check %s --tier %s' % (self.pid, self.tier),
            'trusted_base': self.trusted,
            'evaluations': len(self.obls),
            'distinct_nontrivial': len(keys),
            'rule': 'one obligation per rule instance found in the current source (rule, structural instance key); '
                    'distinct = distinct (rule, key) pairs',
            'explanation': self.explanation,
            'exhaustive': True,
            'rules': per_rule,
            'analysed': self.analysed,
            'samples': samples[:60],
            'notes': self.notes,
        }
        cov.update(self.extra)
        ev = {'property_id': self.pid, 'tier': self.tier, 'seed': self.seed, 'level': self.level,
              'coverage': cov, 'assumptions': self.assumptions, 'wall_s': round(time.time() - self.t0, 3),
              'violations': nviol}
        with open(os.path.join(EVIDENCE_DIR, '%s.json' % self.pid), 'w') as f:
            json.dump(ev, f, indent=1, default=str)


def source_lines(loc, before=2, after=2):
    if not loc or not loc[0]:
        return ''
    try:
        lines = open(loc[0]).read().splitlines()
    except OSError:
        return ''
    a = max(0, loc[1] - 1 - before)
    b = min(len(lines), loc[1] + after)
    return '\n'.join('%5d%s %s' % (i + 1, '>' if i + 1 == loc[1] else ' ', lines[i]) for i in range(a, b))
