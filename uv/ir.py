"""Mini-IR: lowering of a reduced function body to a CFG of side-effect-free expression
trees with explicit assign / call / branch / switch / return instructions.

Expressions stay N trees of kinds: int, str, ref, member, index, un, bin, cast, sizeof,
initlist.  Calls, assignments, ++/--, &&, ||, ?: are hoisted.  Temporaries are
N('ref', '%tK', x={'tmp': True}).
"""
from .frontend import N, AnalysisBroken, fmt_loc


class Instr(object):
    __slots__ = ('op', 'dst', 'src', 'args', 'loc', 'x')
    # op: 'assign' (dst place-expr, src expr) | 'call' (dst tmp or None, src callee expr, args list)
    #     'decl' (dst ref, no init)

    def __init__(self, op, dst=None, src=None, args=None, loc=None, x=None):
        self.op = op
        self.dst = dst
        self.src = src
        self.args = args
        self.loc = loc
        self.x = x

    def __repr__(self):
        from . import pp
        if self.op == 'assign':
            return '%s = %s' % (pp.expr(self.dst), pp.expr(self.src))
        if self.op == 'call':
            s = '%s(%s)' % (pp.expr(self.src), ', '.join(pp.expr(a) for a in self.args))
            return ('%s = %s' % (pp.expr(self.dst), s)) if self.dst is not None else s
        return '%s %s' % (self.op, self.dst.v if self.dst is not None else '')


class Block(object):
    __slots__ = ('id', 'ins', 'term', 'preds', 'loc')
    # term: ('jmp', B) | ('br', cond, Bt, Bf, loc) | ('switch', expr, [(val, B)], Bdefault, loc)
    #       | ('ret', expr or None, loc)

    def __init__(self, id):
        self.id = id
        self.ins = []
        self.term = None
        self.preds = []
        self.loc = None

    def succs(self):
        t = self.term
        if t is None:
            return []
        if t[0] == 'jmp':
            return [t[1]]
        if t[0] == 'br':
            return [t[2], t[3]]
        if t[0] == 'switch':
            return [b for _, b in t[2]] + [t[3]]
        return []


class Func(object):
    def __init__(self, name, node):
        self.name = name
        self.node = node
        self.blocks = []
        self.params = []       # unique names
        self.param_types = {}
        self.locals = {}       # unique name -> type
        self.entry = None
        self.loc = node.loc
        self.ret_type = None
        self.unit = node.x.get('unit')
        self.static = node.x.get('storage') == 'static'

    def dump(self):
        out = ['func %s(%s)' % (self.name, ', '.join(self.params))]
        for b in self.blocks:
            out.append(' B%d:  preds=%s' % (b.id, [p.id for p in b.preds]))
            for i in b.ins:
                out.append('    %r   ; L%s' % (i, i.loc[1] if i.loc else '?'))
            t = b.term
            from . import pp
            if t is None:
                out.append('    <no term>')
            elif t[0] == 'jmp':
                out.append('    jmp B%d' % t[1].id)
            elif t[0] == 'br':
                out.append('    br %s ? B%d : B%d' % (pp.expr(t[1]), t[2].id, t[3].id))
            elif t[0] == 'switch':
                out.append('    switch %s {%s} default B%d' % (pp.expr(t[1]), ', '.join('%s:B%d' % (v, b.id) for v, b in t[2]), t[3].id))
            elif t[0] == 'ret':
                out.append('    ret %s' % (pp.expr(t[1]) if t[1] is not None else ''))
        return '\n'.join(out)


def const_value(n, prog=None):
    """Integer constant value of an expression, or None."""
    if n is None:
        return None
    if n.x and 'const' in n.x:
        try:
            return int(n.x['const'])
        except (TypeError, ValueError):
            pass
    k = n.k
    if k == 'int':
        return n.v
    if k == 'cast':
        v = const_value(n.c[0], prog)
        if v is None:
            return None
        if n.v == 'NullToPointer':
            return 0
        return v
    if k == 'ref':
        if n.x and n.x.get('dk') == 'EnumConstantDecl' and prog is not None:
            return prog.enums.get(n.v)
        return None
    if k == 'un':
        v = const_value(n.c[0], prog)
        if v is None:
            return None
        if n.v == '-':
            return -v
        if n.v == '+':
            return v
        if n.v == '!':
            return int(not v)
        if n.v == '~':
            return ~v
        return None
    if k == 'bin':
        a = const_value(n.c[0], prog)
        b = const_value(n.c[1], prog)
        if a is None or b is None:
            return None
        try:
            return {'+': a + b, '-': a - b, '*': a * b, '<<': a << b, '>>': a >> b, '|': a | b,
                    '&': a & b, '^': a ^ b}.get(n.v)
        except Exception:
            return None
    if k == 'sizeof':
        return sizeof_type(n.x.get('argDesugared') or (n.c[0].ty if n.c else None), prog)
    return None


_BASIC_SIZES = {'char': 1, 'signed char': 1, 'unsigned char': 1, 'short': 2, 'unsigned short': 2,
                'int': 4, 'unsigned int': 4, 'long': 8, 'unsigned long': 8, 'long long': 8,
                'unsigned long long': 8, 'wchar_t': 4, 'size_t': 8, 'UriBool': 4, 'ptrdiff_t': 8}


def sizeof_type(t, prog=None):
    if t is None:
        return None
    t = t.replace('const ', '').replace('volatile ', '').strip()
    if t.endswith('*') or '(*)' in t:
        return 8
    if t in _BASIC_SIZES:
        return _BASIC_SIZES[t]
    if prog is not None and t in prog.typedefs and prog.typedefs[t] != t:
        r = sizeof_type(prog.typedefs[t], prog)
        if r is not None:
            return r
    import re
    m = re.match(r'(.*)\[(\d+)\]$', t)
    if m:
        e = sizeof_type(m.group(1).strip(), prog)
        return None if e is None else e * int(m.group(2))
    return None


def is_tmp(n):
    return n is not None and n.k == 'ref' and n.x and n.x.get('tmp')


class Lowerer(object):
    def __init__(self, prog, fnode):
        self.prog = prog
        self.fnode = fnode
        self.f = Func(fnode.v, fnode)
        self.ntmp = 0
        self.names = {}       # decl id -> unique name
        self.used_names = set()
        self.cur = None
        self.break_stack = []
        self.continue_stack = []
        self.labels = {}

    # ---- helpers
    def new_block(self):
        b = Block(len(self.f.blocks))
        self.f.blocks.append(b)
        return b

    def tmp(self, ty, loc):
        self.ntmp += 1
        name = '%%t%d' % self.ntmp
        self.f.locals[name] = ty
        return N('ref', name, ty, loc, None, {'tmp': True, 'dk': 'Tmp'})

    def emit(self, ins):
        self.cur.ins.append(ins)

    def set_term(self, t):
        if self.cur.term is None:
            self.cur.term = t

    def start(self, b):
        self.cur = b

    def jump_to(self, b):
        self.set_term(('jmp', b))

    def unique(self, declid, name):
        if declid in self.names:
            return self.names[declid]
        u = name
        k = 2
        while u in self.used_names:
            u = '%s#%d' % (name, k)
            k += 1
        self.used_names.add(u)
        self.names[declid] = u
        return u

    # ---- expressions
    def rv(self, n):
        """Lower expression for its value; returns a pure expression tree."""
        k = n.k
        if k in ('int', 'str'):
            return n
        if k == 'ref':
            did = n.x.get('id') if n.x else None
            if did in self.names:
                if self.names[did] != n.v:
                    return N('ref', self.names[did], n.ty, n.loc, None, n.x)
            return n
        if k == 'member' or k == 'index' or k == 'un' and n.v in ('*', '&', '-', '!', '~', '+', '__extension__'):
            if k == 'un' and n.v == '__extension__':
                return self.rv(n.c[0])
            cs = [self.rv(c) for c in n.c]
            return N(n.k, n.v, n.ty, n.loc, cs, n.x)
        if k == 'un':  # ++ --
            op = '+' if n.v == '++' else '-'
            if n.v not in ('++', '--'):
                raise AnalysisBroken('unsupported unary operator %s at %s' % (n.v, fmt_loc(n.loc)))
            place = self.rv(n.c[0])
            one = N('int', 1, 'int', n.loc)
            if n.x.get('postfix'):
                t = self.tmp(n.ty, n.loc)
                self.emit(Instr('assign', t, N('cast', 'LValueToRValue', n.ty, n.loc, [place]), loc=n.loc))
                self.emit(Instr('assign', place, N('bin', op, n.ty, n.loc, [t, one], {'incdec': True}), loc=n.loc,
                                x={'incdec': n.v}))
                return t
            self.emit(Instr('assign', place, N('bin', op, n.ty, n.loc,
                                                [N('cast', 'LValueToRValue', n.ty, n.loc, [place]), one], {'incdec': True}),
                            loc=n.loc, x={'incdec': n.v}))
            return N('cast', 'LValueToRValue', n.ty, n.loc, [place])
        if k == 'cast':
            return N('cast', n.v, n.ty, n.loc, [self.rv(n.c[0])], n.x)
        if k == 'bin':
            if n.v in ('&&', '||'):
                t = self.tmp('int', n.loc)
                bt, bf, bj = self.new_block(), self.new_block(), self.new_block()
                self.cond(n, bt, bf)
                self.start(bt)
                self.emit(Instr('assign', t, N('int', 1, 'int', n.loc), loc=n.loc))
                self.jump_to(bj)
                self.start(bf)
                self.emit(Instr('assign', t, N('int', 0, 'int', n.loc), loc=n.loc))
                self.jump_to(bj)
                self.start(bj)
                return t
            if n.v == ',':
                self.rv(n.c[0])
                return self.rv(n.c[1])
            a = self.rv(n.c[0])
            b = self.rv(n.c[1])
            return N('bin', n.v, n.ty, n.loc, [a, b], n.x)
        if k == 'assign':
            return self.assign(n, want_value=True)
        if k == 'cond':
            t = self.tmp(n.ty, n.loc)
            bt, bf, bj = self.new_block(), self.new_block(), self.new_block()
            self.cond(n.c[0], bt, bf)
            self.start(bt)
            v = self.rv(n.c[1])
            self.emit(Instr('assign', t, v, loc=n.loc, x={'cond_arm': True}))
            self.jump_to(bj)
            self.start(bf)
            v = self.rv(n.c[2])
            self.emit(Instr('assign', t, v, loc=n.loc, x={'cond_arm': False}))
            self.jump_to(bj)
            self.start(bj)
            return t
        if k == 'call':
            return self.call(n, want_value=True)
        if k == 'sizeof':
            return n
        if k == 'initlist':
            return N('initlist', None, n.ty, n.loc, [self.rv(c) for c in n.c], n.x)
        raise AnalysisBroken('unsupported expression kind %s (%s) at %s' % (k, n.v, fmt_loc(n.loc)))

    def call(self, n, want_value):
        callee = self.rv(n.c[0])
        args = [self.rv(a) for a in n.c[1:]]
        t = None
        if want_value and n.ty != 'void':
            t = self.tmp(n.ty, n.loc)
        self.emit(Instr('call', t, callee, args, loc=n.loc))
        return t

    def assign(self, n, want_value=False):
        if n.v == '=':
            # evaluate rhs first? C leaves unsequenced; code base has no conflicting side effects
            rhs = self.rv(n.c[1])
            place = self.rv(n.c[0])
            self.emit(Instr('assign', place, rhs, loc=n.loc))
        else:
            op = n.v[:-1]
            rhs = self.rv(n.c[1])
            place = self.rv(n.c[0])
            cur = N('cast', 'LValueToRValue', n.c[0].ty, n.loc, [place])
            self.emit(Instr('assign', place, N('bin', op, n.ty, n.loc, [cur, rhs], {'compound': True}), loc=n.loc,
                            x={'compound': n.v}))
        if want_value:
            return N('cast', 'LValueToRValue', n.ty, n.loc, [place])
        return None

    def effect(self, n):
        """Lower expression statement (value unused)."""
        if n.k == 'assign':
            self.assign(n)
        elif n.k == 'call':
            self.call(n, want_value=False)
        elif n.k == 'cast' and n.v == 'ToVoid':
            self.effect(n.c[0])
        else:
            self.rv(n)

    def cond(self, n, bt, bf):
        """Lower condition with short-circuit into branches to bt / bf; leaves cur unset."""
        if n.k == 'bin' and n.v == '&&':
            mid = self.new_block()
            self.cond(n.c[0], mid, bf)
            self.start(mid)
            self.cond(n.c[1], bt, bf)
            return
        if n.k == 'bin' and n.v == '||':
            mid = self.new_block()
            self.cond(n.c[0], bt, mid)
            self.start(mid)
            self.cond(n.c[1], bt, bf)
            return
        if n.k == 'un' and n.v == '!':
            self.cond(n.c[0], bf, bt)
            return
        if n.k == 'cast' and n.v in ('IntegralCast', 'NoOp', 'IntegralToBoolean') and n.c[0].k == 'bin' and n.c[0].v in ('&&', '||'):
            self.cond(n.c[0], bt, bf)
            return
        v = self.rv(n)
        c = const_value(v, self.prog)
        if c is not None and v.k != 'ref':
            # constant condition (do { } while (0), URI_TRUE)
            self.set_term(('jmp', bt if c else bf))
            return
        self.set_term(('br', v, bt, bf, n.loc))

    # ---- statements
    def stmt(self, n):
        if n is None:
            return
        k = n.k
        if self.cur.term is not None:
            # unreachable code after return/break: still lower into a fresh block
            self.start(self.new_block())
        if k == 'block':
            for c in n.c:
                self.stmt(c)
        elif k == 'declstmt':
            for v in n.c:
                if v.k != 'var':
                    continue
                name = self.unique(v.x['id'], v.v)
                self.f.locals[name] = v.ty
                if v.x.get('storage') == 'static':
                    self.f.locals.pop(name, None)
                    continue
                ref = N('ref', name, v.ty, v.loc, None, {'id': v.x['id'], 'dk': 'VarDecl', 'local': True})
                if v.c:
                    init = self.rv(v.c[0])
                    self.emit(Instr('assign', ref, init, loc=v.loc, x={'decl': True}))
                else:
                    self.emit(Instr('decl', ref, loc=v.loc))
        elif k == 'if':
            bt = self.new_block()
            has_else = len(n.c) > 2
            bf = self.new_block() if has_else else None
            bj = self.new_block()
            self.cond(n.c[0], bt, bf if has_else else bj)
            self.start(bt)
            self.stmt(n.c[1])
            self.jump_to(bj)
            if has_else:
                self.start(bf)
                self.stmt(n.c[2])
                self.jump_to(bj)
            self.start(bj)
        elif k == 'while':
            bh, bb, bx = self.new_block(), self.new_block(), self.new_block()
            self.jump_to(bh)
            self.start(bh)
            bh.loc = n.loc
            self.cond(n.c[0], bb, bx)
            self.break_stack.append(bx)
            self.continue_stack.append(bh)
            self.start(bb)
            self.stmt(n.c[1])
            self.jump_to(bh)
            self.break_stack.pop()
            self.continue_stack.pop()
            self.start(bx)
        elif k == 'do':
            bb, bc, bx = self.new_block(), self.new_block(), self.new_block()
            self.jump_to(bb)
            self.break_stack.append(bx)
            self.continue_stack.append(bc)
            self.start(bb)
            bb.loc = n.loc
            self.stmt(n.c[0])
            self.jump_to(bc)
            self.break_stack.pop()
            self.continue_stack.pop()
            self.start(bc)
            self.cond(n.c[1], bb, bx)
            self.start(bx)
        elif k == 'for':
            init, _cv, cnd, inc, body = (n.c + [None] * 5)[:5]
            if init is not None:
                if init.k == 'declstmt':
                    self.stmt(init)
                else:
                    self.effect(init)
            bh, bb, bi, bx = self.new_block(), self.new_block(), self.new_block(), self.new_block()
            self.jump_to(bh)
            self.start(bh)
            bh.loc = n.loc
            if cnd is not None:
                self.cond(cnd, bb, bx)
            else:
                self.jump_to(bb)
            self.break_stack.append(bx)
            self.continue_stack.append(bi)
            self.start(bb)
            self.stmt(body)
            self.jump_to(bi)
            self.break_stack.pop()
            self.continue_stack.pop()
            self.start(bi)
            if inc is not None:
                self.effect(inc)
            self.jump_to(bh)
            self.start(bx)
        elif k == 'switch':
            v = self.rv(n.c[0])
            bx = self.new_block()
            cases = []
            default = [None]
            swblock = self.cur
            self.break_stack.append(bx)
            body = n.c[1]
            if body.k != 'block':
                body = N('block', None, None, body.loc, [body])
            self.start(self.new_block())   # unreachable prefix
            first_dummy = self.cur

            def case_chain(c):
                # c is case/default node: start block, register, then lower child
                nb = self.new_block()
                if self.cur.term is None:
                    self.jump_to(nb)   # fallthrough
                self.start(nb)
                nb.loc = c.loc
                if c.k == 'case':
                    val = const_value(c.c[0], self.prog)
                    if val is None:
                        raise AnalysisBroken('non-constant case label at %s' % fmt_loc(c.loc))
                    cases.append((val, nb))
                    rest = c.c[1:]
                else:
                    default[0] = nb
                    rest = c.c
                for r in rest:
                    if r.k in ('case', 'default'):
                        case_chain_same(r, nb)
                    else:
                        self.stmt(r)

            def case_chain_same(c, nb):
                # nested label sharing the block nb
                if c.k == 'case':
                    val = const_value(c.c[0], self.prog)
                    if val is None:
                        raise AnalysisBroken('non-constant case label at %s' % fmt_loc(c.loc))
                    cases.append((val, nb))
                    rest = c.c[1:]
                else:
                    default[0] = nb
                    rest = c.c
                for r in rest:
                    if r.k in ('case', 'default'):
                        case_chain_same(r, nb)
                    else:
                        self.stmt(r)

            for s in body.c:
                if s.k in ('case', 'default'):
                    case_chain(s)
                else:
                    for sub in s.walk():
                        if sub.k in ('case', 'default'):
                            # only allowed if inside a nested switch
                            pass
                    self.stmt(s)
            self.jump_to(bx)
            self.break_stack.pop()
            swblock.term = ('switch', v, cases, default[0] if default[0] is not None else bx, n.loc)
            self.start(bx)
        elif k == 'break':
            if not self.break_stack:
                raise AnalysisBroken('break outside loop/switch at %s' % fmt_loc(n.loc))
            self.jump_to(self.break_stack[-1])
        elif k == 'continue':
            if not self.continue_stack:
                raise AnalysisBroken('continue outside loop at %s' % fmt_loc(n.loc))
            self.jump_to(self.continue_stack[-1])
        elif k == 'return':
            v = self.rv(n.c[0]) if n.c else None
            self.set_term(('ret', v, n.loc))
        elif k == 'null':
            pass
        elif k == 'label':
            b = self.labels.setdefault(n.v, self.new_block())
            self.jump_to(b)
            self.start(b)
            for c in n.c:
                self.stmt(c)
        elif k == 'goto':
            b = self.labels.setdefault(n.v, self.new_block())
            self.jump_to(b)
        elif k in ('case', 'default'):
            raise AnalysisBroken('case label outside switch body top level at %s' % fmt_loc(n.loc))
        elif k == 'Attr':
            pass
        else:
            self.effect(n)

    def lower(self):
        f = self.f
        for p in self.fnode.c:
            if p.k == 'parm':
                name = self.unique(p.x['id'], p.v or ('_p%d' % len(f.params)))
                f.params.append(name)
                f.param_types[name] = p.ty
        m = self.fnode.ty
        f.ret_type = m.split('(')[0].strip() if m else None
        body = [c for c in self.fnode.c if c.k == 'block'][0]
        f.entry = self.new_block()
        self.start(f.entry)
        self.stmt(body)
        if self.cur.term is None:
            self.cur.term = ('ret', None, body.loc)
        # prune unreachable blocks, compute preds
        reach = set()
        st = [f.entry]
        while st:
            b = st.pop()
            if b.id in reach:
                continue
            reach.add(b.id)
            if b.term is None:
                b.term = ('ret', None, None)
            st.extend(b.succs())
        f.blocks = [b for b in f.blocks if b.id in reach]
        # thread empty jump-only blocks? keep simple; renumber
        for i, b in enumerate(f.blocks):
            b.id = i
            b.preds = []
        for b in f.blocks:
            for s in b.succs():
                s.preds.append(b)
        return f


def lower_function(prog, fnode):
    return Lowerer(prog, fnode).lower()


class IRProgram(object):
    def __init__(self, prog):
        self.prog = prog
        self.funcs = {}
        for name, fn in prog.funcs.items():
            self.funcs[name] = lower_function(prog, fn)

    def callees(self, f):
        """Resolved direct callees (names) and indirect call expressions of function f."""
        direct, indirect = [], []
        for b in f.blocks:
            for i in b.ins:
                if i.op == 'call':
                    t = call_target(i)
                    if t is not None:
                        direct.append((t, i))
                    else:
                        indirect.append(i)
        return direct, indirect


def strip_casts(n):
    while n is not None and n.k == 'cast':
        n = n.c[0]
    return n


def call_target(ins):
    """Name of directly called function or None for an indirect call."""
    c = strip_casts(ins.src)
    if c is not None and c.k == 'ref' and c.x and c.x.get('dk') == 'FunctionDecl':
        return c.v
    return None


def manager_call(ins):
    """If the call goes through a UriMemoryManager member, return (member, receiver expr)."""
    c = strip_casts(ins.src)
    if c is not None and c.k == 'member' and c.v in ('malloc', 'calloc', 'realloc', 'reallocarray', 'free'):
        base = strip_casts(c.c[0])
        bty = (c.c[0].ty or '')
        if 'UriMemoryManager' in bty:
            return c.v, c.c[0]
    return None
