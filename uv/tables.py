"""Oracle tables (semantic, position-free).  Every table is forced complete by a census rule
in the check that uses it: an unclassified function / field / constant is exit 2."""

# B.1 -- read-only (IN) pointer parameters of the public API by (base name, position).
# Derived from the public headers of the baseline (pointer-to-const parameters); the checks use
# the union of this table and the pointer-to-const parameters of the current headers, so that
# dropping a `const` from a declaration does not silently drop the obligation.
IN_PARAMS = {
    'uriAddBaseUri': [1, 2], 'uriAddBaseUriEx': [1, 2], 'uriAddBaseUriExMm': [1, 2],
    'uriComposeQuery': [1], 'uriComposeQueryCharsRequired': [0], 'uriComposeQueryCharsRequiredEx': [0],
    'uriComposeQueryEx': [1], 'uriComposeQueryMalloc': [1], 'uriComposeQueryMallocEx': [1],
    'uriComposeQueryMallocExMm': [1], 'uriDissectQueryMalloc': [2, 3], 'uriDissectQueryMallocEx': [2, 3],
    'uriDissectQueryMallocExMm': [2, 3], 'uriEqualsUri': [0, 1], 'uriEscape': [0], 'uriEscapeEx': [0, 1],
    'uriNormalizeSyntaxMaskRequired': [0], 'uriNormalizeSyntaxMaskRequiredEx': [0],
    'uriParseIpFourAddress': [1, 2], 'uriParseSingleUri': [1], 'uriParseSingleUriEx': [1, 2],
    'uriParseSingleUriExMm': [1, 2], 'uriParseUri': [1], 'uriParseUriEx': [1, 2],
    'uriRemoveBaseUri': [1, 2], 'uriRemoveBaseUriMm': [1, 2], 'uriToString': [1],
    'uriToStringCharsRequired': [0], 'uriUnixFilenameToUriString': [0], 'uriUriStringToUnixFilename': [0],
    'uriUriStringToWindowsFilename': [0], 'uriWindowsFilenameToUriString': [0],
}

# parameters of type `const URI_CHAR **` are outputs (errorPos): pointer to a non-const pointer.


def base_name(fname):
    """strip the A/W suffix of a two-pass function name"""
    if fname.endswith('A') or fname.endswith('W'):
        return fname[:-1]
    return fname


# External (libc) functions the library may call, with the reason each is harmless for C20.
ALLOWED_EXTERNALS = {
    'memcpy': 'stateless', 'memset': 'stateless', 'memcmp': 'stateless', 'strlen': 'stateless',
    'wcslen': 'stateless', 'strncmp': 'stateless', 'wcsncmp': 'stateless',
    'malloc': 'thread-safe allocator', 'calloc': 'thread-safe allocator', 'realloc': 'thread-safe allocator',
    'reallocarray': 'thread-safe allocator', 'free': 'thread-safe allocator',
    '__errno_location': 'errno is thread-local', '__assert_fail': 'assert (compiled out with NDEBUG)',
}

# B.4 field classification
URI_FIELDS = {
    'content': ['scheme', 'userInfo', 'hostText', 'hostData', 'portText', 'pathHead', 'query', 'fragment',
                'absolutePath'],
    'bookkeeping': ['pathTail', 'owner', 'reserved'],
}
HOSTDATA_FIELDS = ['ip4', 'ip6', 'ipFuture']
SEGMENT_FIELDS = {'content': ['text', 'next'], 'bookkeeping': ['reserved']}
QUERYLIST_FIELDS = ['key', 'value', 'next']
RANGE_FIELDS = ['first', 'afterLast']

# fields that hold non-owning references into structures owned through another field:
# pathTail (last node of the pathHead list), reserved (back link used by dot removal),
# afterLast (points into / one past the block held by `first`)
NONOWNING_FIELDS = {'pathTail', 'reserved', 'afterLast'}

# B.5 normalisation / done-mask bits by component class (field path of the text range inside the URI
# or a path segment); portText has no bit.
MASK_BIT_OF_CLASS = {
    'scheme': 'URI_NORMALIZE_SCHEME', 'userInfo': 'URI_NORMALIZE_USER_INFO', 'hostText': 'URI_NORMALIZE_HOST',
    'hostData.ipFuture': 'URI_NORMALIZE_HOST', 'text': 'URI_NORMALIZE_PATH', 'query': 'URI_NORMALIZE_QUERY',
    'fragment': 'URI_NORMALIZE_FRAGMENT', 'portText': None,
}


# static (internal linkage) functions of the baseline tree, A/W suffix stripped.  A static function that is NOT in this
# list is a helper extracted later; the per-function ownership / revert rules see it inlined into its callers.
BASELINE_STATIC = ['uriAddBaseUriImpl', 'uriAppendQueryItem', 'uriAppendSegment', 'uriComposeQueryEngine', 'uriContainsUglyPercentEncoding', 'uriContainsUppercaseLetters', 'uriDecorateFree', 'uriDecorateMalloc', 'uriDecorateRealloc', 'uriDefaultCalloc', 'uriDefaultFree', 'uriDefaultMalloc', 'uriDefaultRealloc', 'uriDefaultReallocarray', 'uriEqualsAuthority', 'uriFilenameToUriString', 'uriFixPercentEncodingEngine', 'uriFixPercentEncodingInplace', 'uriFixPercentEncodingMalloc', 'uriLowercaseInplace', 'uriLowercaseMalloc', 'uriMakeOwnerEngine', 'uriMakeRangeOwner', 'uriMergePath', 'uriNormalizeSyntaxEngine', 'uriOnExitOwnHost2', 'uriOnExitOwnHostUserInfo', 'uriOnExitOwnPortUserInfo', 'uriOnExitPartHelperTwo', 'uriOnExitSegmentNzNcOrScheme2', 'uriParseAuthority', 'uriParseAuthorityTwo', 'uriParseDecOctet', 'uriParseDecOctetFour', 'uriParseDecOctetOne', 'uriParseDecOctetThree', 'uriParseDecOctetTwo', 'uriParseHexZero', 'uriParseHierPart', 'uriParseIPv6address2', 'uriParseIpFutLoop', 'uriParseIpFutStopGo', 'uriParseIpFuture', 'uriParseIpLit2', 'uriParseMustBeSegmentNzNc', 'uriParseOwnHost', 'uriParseOwnHost2', 'uriParseOwnHostUserInfo', 'uriParseOwnHostUserInfoNz', 'uriParseOwnPortUserInfo', 'uriParseOwnUserInfo', 'uriParsePartHelperTwo', 'uriParsePathAbsEmpty', 'uriParsePathAbsNoLeadSlash', 'uriParsePathRootless', 'uriParsePchar', 'uriParsePctEncoded', 'uriParsePctSubUnres', 'uriParsePort', 'uriParseQueryFrag', 'uriParseSegment', 'uriParseSegmentNz', 'uriParseSegmentNzNcOrScheme2', 'uriParseUriExMm', 'uriParseUriReference', 'uriParseUriTail', 'uriParseUriTailTwo', 'uriParseZeroMoreSlashSegs', 'uriPreventLeakage', 'uriPushPathSegment', 'uriRemoveBaseUriImpl', 'uriResetParserStateExceptUri', 'uriResolveAbsolutePathFlag', 'uriStopMalloc', 'uriStopSyntax', 'uriToStringEngine', 'uriUriStringToFilename']
