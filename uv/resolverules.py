"""E8 rules shared by C06 / C07 / C10: structural contracts of the copy helpers and of the path guards,
derived from the helpers' own source by path enumeration (pathenum)."""
from .frontend import AnalysisBroken, fmt_loc
from .pathenum import enumerate_paths
from .tables import base_name

AUTH_RANGE_FIELDS = ['userInfo', 'hostText', 'portText']


def fn(ctx, base, suf):
    f = ctx.irp.funcs.get(base + suf)
    if f is None:
        raise AnalysisBroken('function %s%s not found (anchor vanished)' % (base, suf))
    return f


def success_paths(paths, okval='1'):
    return [p for p in paths if p.ret == okval]


def amap(p):
    """last value assigned to each destination key on the path"""
    d = {}
    for e in p.events:
        if e[0] == 'assign':
            d[e[1]] = e[2]
    return d


def host_atoms(u):
    return ['%s->hostText.first' % u, '%s->hostData.ip4' % u, '%s->hostData.ip6' % u, '%s->hostData.ipFuture.first' % u]


def contract_is_host_set(ctx, suf):
    """uriIsHostSet(u) returns true iff one of the four host fields is non-NULL"""
    f = fn(ctx, 'uriIsHostSet', suf)
    u = f.params[0]
    probs = []
    for p in enumerate_paths(ctx.prog, f):
        c = p.conds()
        if u in c and not c[u]:
            want = False
        else:
            vals = [c.get(a) for a in host_atoms(u)]
            if any(v is True for v in vals):
                want = True
            elif all(v is False for v in vals):
                want = False
            else:
                probs.append(('host test does not examine %s' % [a for a, v in zip(host_atoms(u), vals) if v is None], p.retloc))
                continue
        got = p.ret
        # the function returns a temporary holding 0/1
        if got not in ('0', '1'):
            probs.append(('returns %s' % got, p.retloc))
        elif (got == '1') != want:
            probs.append(('returns %s when host fields are %s' % (got, c), p.retloc))
    return f, probs


def _dup_ok(ctx, p, a, dkey, skey, tyname):
    """the address block behind dkey is a fresh block holding a copy of the one behind skey"""
    if not str(a.get(dkey, '')).startswith('memory->malloc'):
        return False
    if a.get('*(%s)' % dkey) == '*(%s)' % skey:
        return True
    rec = ctx.prog.record(tyname)
    size = None
    if rec is not None:
        import re
        size = 0
        for fld in rec.c:
            m = re.match(r'unsigned char\[(\d+)\]$', fld.ty or '')
            if not m:
                size = None
                break
            size += int(m.group(1))
    for e in p.events:
        if e[0] == 'call' and e[1] == 'memcpy' and len(e[2]) == 3:
            dst, src, n = e[2]
            if dst in (dkey, a.get(dkey)) and src == skey and (n == 'sizeof(%s)' % tyname or (size is not None and n == str(size))):
                return True
    return False


def contract_copy_authority(ctx, suf):
    f = fn(ctx, 'uriCopyAuthority', suf)
    d, s = f.params[0], f.params[1]
    probs = []
    paths = enumerate_paths(ctx.prog, f)
    ok = success_paths(paths)
    if not ok:
        probs.append(('no success path', f.loc))
    for p in ok:
        a = amap(p)
        c = p.conds()
        for fld in AUTH_RANGE_FIELDS:
            if a.get('%s->%s' % (d, fld)) != '%s->%s' % (s, fld):
                probs.append(('%s is not copied from the source on a success path' % fld, p.retloc))
        ip4, ip6 = c.get('%s->hostData.ip4' % s), c.get('%s->hostData.ip6' % s)
        k4, k6, kf = '%s->hostData.ip4' % d, '%s->hostData.ip6' % d, '%s->hostData.ipFuture' % d
        if ip4:
            if not _dup_ok(ctx, p, a, k4, '%s->hostData.ip4' % s, 'UriIp4'):
                probs.append(('IPv4 bytes are not duplicated into a fresh block (all sizeof(UriIp4) bytes)', p.retloc))
            if a.get(k6) != '0' or a.get(kf + '.first') != '0' or a.get(kf + '.afterLast') != '0':
                probs.append(('other host kinds are not cleared when IPv4 is copied', p.retloc))
        elif ip4 is False and ip6:
            if not _dup_ok(ctx, p, a, k6, '%s->hostData.ip6' % s, 'UriIp6'):
                probs.append(('IPv6 bytes are not duplicated into a fresh block (all sizeof(UriIp6) bytes)', p.retloc))
            if a.get(k4) != '0' or a.get(kf + '.first') != '0' or a.get(kf + '.afterLast') != '0':
                probs.append(('other host kinds are not cleared when IPv6 is copied', p.retloc))
        elif ip4 is False and ip6 is False:
            if a.get(k4) != '0' or a.get(k6) != '0' or a.get(kf) != '%s->hostData.ipFuture' % s:
                probs.append(('IPvFuture range is not copied / address blocks not cleared', p.retloc))
        else:
            probs.append(('host kind is not distinguished by the ip4 / ip6 fields', p.retloc))
    return f, probs


def contract_copy_path(ctx, suf):
    f = fn(ctx, 'uriCopyPath', suf)
    d, s = f.params[0], f.params[1]
    probs = []
    paths = enumerate_paths(ctx.prog, f, unroll=1)
    ok = success_paths(paths)
    if not ok:
        probs.append(('no success path', f.loc))
    for p in ok:
        a = amap(p)
        c = p.conds()
        if a.get('%s->absolutePath' % d) != '%s->absolutePath' % s:
            probs.append(('the absolute-path flag is not copied from the source', p.retloc))
        if c.get('%s->pathHead' % s) is False:
            if a.get('%s->pathHead' % d) != '0' or a.get('%s->pathTail' % d) != '0':
                probs.append(('empty source path does not give an empty destination path', p.retloc))
            continue
        # non-empty: node k gets the text of the k-th source node
        texts = [(k, v) for k, v in a.items() if k.endswith('->text') and k.startswith('memory->malloc')]
        want_src = '%s->pathHead' % s
        n = 0
        for k, v in sorted(texts):
            if v != want_src + '->text':
                probs.append(('node %d receives %s instead of %s->text' % (n, v, want_src), p.retloc))
            want_src += '->next'
            n += 1
        if n == 0:
            probs.append(('no segment text is copied on a non-empty path', p.retloc))
        head = a.get('%s->pathHead' % d, '')
        if not head.startswith('memory->malloc#0'):
            probs.append(('pathHead is not the first new node', p.retloc))
        tail = a.get('%s->pathTail' % d, '')
        if not tail.startswith('memory->malloc#%d' % (n - 1)):
            probs.append(('pathTail is not the last new node', p.retloc))
        if a.get('%s->next' % tail) != '0' and a.get('%s->pathTail->next' % d) != '0':
            probs.append(('the last node is not terminated', p.retloc))
    return f, probs


def contract_flag_reconcile(ctx, suf):
    """uriResolveAbsolutePathFlag: host set and flag set => flag cleared (empty segment added when the path is empty)"""
    f = fn(ctx, 'uriResolveAbsolutePathFlag', suf)
    u = f.params[0]
    probs = []
    for p in enumerate_paths(ctx.prog, f):
        c = p.conds()
        a = amap(p)
        if c.get(u) is False:
            continue
        host = [v for k, v in c.items() if k.startswith('uriIsHostSet')]
        flag = c.get('%s->absolutePath' % u)
        if p.ret != '0':
            continue      # allocation failure
        if host and host[0] and flag:
            if a.get('%s->absolutePath' % u) != '0':
                probs.append(('flag stays set although a host is present', p.retloc))
            if c.get('%s->pathHead' % u) is False:
                hd = a.get('%s->pathHead' % u, '')
                if not hd.startswith('memory->malloc') or a.get(hd + '->text.first') is None:
                    probs.append(('no empty segment is added for "/" with a host', p.retloc))
        else:
            if '%s->absolutePath' % u in a or '%s->pathHead' % u in a:
                probs.append(('path or flag changed without host and flag both set', p.retloc))
    return f, probs


def guard_paths(ctx, suf):
    """paths of uriFixAmbiguity classified into (inserts '.', condition valuation)"""
    f = fn(ctx, 'uriFixAmbiguity', suf)
    u = f.params[0]
    out = []
    for p in enumerate_paths(ctx.prog, f):
        a = amap(p)
        inserted = str(a.get('%s->pathHead' % u, '')).startswith('memory->malloc')
        if inserted:
            node = a['%s->pathHead' % u]
            pwd = 'uriConstPwd' + suf
            if a.get(node + '->text.first') != pwd or a.get(node + '->text.afterLast') != '(%s + 1)' % pwd \
                    or a.get(node + '->next') != '%s->pathHead' % u:
                inserted = 'malformed'
        out.append((p, inserted))
    return f, u, out


def contract_guard(ctx, suf):
    """the guard prepends '.' exactly when the URI has no host and its path text would begin with '//':
    absolute path whose first segment is empty, or relative path whose first two segments are empty"""
    f, u, gp = guard_paths(ctx, suf)
    probs = []
    H = '%s->pathHead' % u
    e1 = '(%s->text.afterLast == %s->text.first)' % (H, H)
    e1b = '(%s->text.first == %s->text.afterLast)' % (H, H)
    e2 = '(%s->next->text.afterLast == %s->next->text.first)' % (H, H)
    e2b = '(%s->next->text.first == %s->next->text.afterLast)' % (H, H)
    for p, ins in gp:
        c = p.conds()
        if ins == 'malformed':
            probs.append(('guard', 'the inserted segment is not "." linked in front of the old head', p.retloc))
            continue
        host = [v for k, v in c.items() if k.startswith('uriIsHostSet')]
        hostset = host[0] if host else None
        absf = c.get('%s->absolutePath' % u)
        head = c.get(H)
        nxt = c.get(H + '->next')
        def emptiness(eqa, eqb):
            v = c.get(eqa, c.get(eqb))
            if v is None:
                # the same test written with != (truth inverted)
                w = c.get(eqa.replace(' == ', ' != '), c.get(eqb.replace(' == ', ' != ')))
                v = None if w is None else (not w)
            return v
        emp1 = emptiness(e1, e1b)
        emp2 = emptiness(e2, e2b)
        slashes = None
        if head is False or emp1 is False or nxt is False:
            # no first segment, a non-empty one, or no second segment: the text cannot begin with "//" whatever the flag says
            slashes = False
        elif absf is True:
            # "/" + "" + "/" + ...: the text begins with "//" only if a second segment follows the empty first one; a lone empty
            # segment is just "/"
            if nxt is False:
                slashes = False
            elif emp1 and nxt:
                slashes = True
        elif absf is False:
            if nxt is False or emp1 is False or emp2 is False:
                slashes = False
            elif nxt and emp1 and emp2:
                slashes = True
        if p.ret == '0':
            continue
        if ins:
            if slashes is not True:
                probs.append(('guard', 'prepends "." on a path that is not known to begin with "//"', p.retloc))
            if hostset is not False:
                probs.append(('guard-host', 'prepends "." without having established that the URI has no host '
                              '(RFC 3986 5.2 gives e.g. s://h///x, not s://h/.///x)', p.retloc))
        else:
            if slashes is True and hostset is False:
                probs.append(('guard', 'leaves a host-less path beginning with "//" unguarded', p.retloc))
            if slashes is None and hostset is not True:
                probs.append(('guard', 'returns without deciding whether the path begins with "//"', p.retloc))
    return f, probs


def contract_lone_empty(ctx, suf):
    """uriFixEmptyTrailSegment drops the single empty segment only for host-less relative paths"""
    f = fn(ctx, 'uriFixEmptyTrailSegment', suf)
    u = f.params[0]
    probs = []
    for p in enumerate_paths(ctx.prog, f):
        c = p.conds()
        a = amap(p)
        changed = '%s->pathHead' % u in a
        host = [v for k, v in c.items() if k.startswith('uriIsHostSet')]
        need = (c.get('%s->absolutePath' % u) is False and host and host[0] is False and c.get('%s->pathHead' % u) is True
                and c.get('%s->pathHead->next' % u) is False)
        if changed and not need:
            probs.append(('drops the segment without all of: relative, host-less, exactly one segment', p.retloc))
        if changed and a.get('%s->pathHead' % u) != '0':
            probs.append(('does not leave an empty path', p.retloc))
    return f, probs
