"""Ownership typing rules (C12): copy coverage, mask bits, owner flag, in-place writes."""
from .frontend import fmt_loc, AnalysisBroken
from .ir import call_target, manager_call, strip_casts, const_value
from .cfgutil import expr_key, null_test
from .factflow import explore, Hooks
from .failclean import failure_is_zero, zero_test
from .memrules import copy_helpers, range_class, is_testing_only
from .tables import MASK_BIT_OF_CLASS, base_name
from .effects import FuncAnalysis
from . import pp


def text_classes(prog, suffix='A'):
    """component classes derived from the struct definitions: every UriTextRange reachable from UriUri"""
    uri = prog.record('UriUri' + suffix)
    if uri is None:
        raise AnalysisBroken('struct UriUri%s not found' % suffix)
    out = []
    for fld in uri.c:
        if fld.k != 'field':
            continue
        t = (fld.ty or '')
        if t.startswith('UriTextRange'):
            out.append(fld.v)
        elif t.startswith('UriHostData'):
            hd = prog.record(t)
            for g in hd.c:
                if g.k == 'field' and (g.ty or '').startswith('UriTextRange'):
                    out.append(fld.v + '.' + g.v)
        elif t.startswith('UriPathSegment') and '*' in t and fld.v == 'pathHead':
            seg = prog.record(t)
            for g in seg.c:
                if g.k == 'field' and (g.ty or '').startswith('UriTextRange'):
                    out.append(g.v)
    for c in out:
        if c not in MASK_BIT_OF_CLASS:
            raise AnalysisBroken('text component %s of UriUri%s is not classified in the B.5 table' % (c, suffix))
    return out


def owner_test(cond, truth, prog):
    """True if the edge (cond, truth) establishes X->owner != 0, False if it establishes == 0, else None"""
    c = strip_casts(cond)
    want = True
    if c.k == 'bin' and c.v in ('==', '!='):
        cv = const_value(c.c[1], prog)
        side = strip_casts(c.c[0])
        if cv == 0:
            want = (c.v == '!=')
        elif cv == 1 and c.v == '==':
            if truth:
                want = True
            else:
                return None if side.k != 'member' or side.v != 'owner' else False
        else:
            return None
        c = side
    if c.k == 'member' and c.v == 'owner':
        return truth == want
    return None


def mask_bit_test(cond, truth, prog):
    """(n, is_set) for conditions `(M & n) == 0`, `(M & n) != 0`, `M & n` on a done-mask"""
    c = strip_casts(cond)
    setwhen = True
    if c.k == 'bin' and c.v in ('==', '!='):
        cv = const_value(c.c[1], prog)
        if cv != 0:
            return None
        setwhen = (c.v == '!=')
        c = strip_casts(c.c[0])
    if c.k == 'bin' and c.v == '&':
        n = const_value(c.c[1], prog)
        l = strip_casts(c.c[0])
        while l.k in ('cast',):
            l = l.c[0]
        if n is not None and 'done' in expr_key(l).lower():
            return n, (truth == setwhen)
    return None


class OwnHooks(Hooks):
    """fact vocabulary: 'owner', ('fresh', cls), ('absent', cls), ('bit', n), ('setbit', n), ('ok', callee),
    ('zero', param), ('null', var), ('pend', var, payload)"""

    def __init__(self, rules, f):
        self.r = rules
        self.f = f
        self.prog = rules.prog
        self.on_instr = []     # callbacks (b, idx, i, facts)
        self.on_ret = []

    def instr(self, b, idx, i, facts):
        for cb in self.on_instr:
            cb(b, idx, i, facts)
        prog = self.prog
        if i.op == 'assign':
            dk = expr_key(i.dst)
            facts = frozenset(x for x in facts if not (isinstance(x, tuple) and x[0] in ('pend', 'tmpv') and x[1] == dk))
            d = i.dst
            if d.k == 'ref' and d.v in self.flag_tmps():
                cv = const_value(i.src, prog)
                if cv is not None:
                    facts = facts | {('tmpv', d.v, 1 if cv else 0)}
                else:
                    sv = strip_casts(i.src)
                    if sv is not None and sv.k == 'ref':
                        for x in facts:
                            if isinstance(x, tuple) and x[0] == 'tmpv' and x[1] == sv.v:
                                facts = facts | {('tmpv', d.v, x[2])}
            if d.k == 'member' and d.v == 'owner':
                cv = const_value(i.src, prog)
                if cv:
                    facts = (facts - {'notowner'}) | {'owner'}
                else:
                    facts = (facts - {'owner'}) | {'notowner'}
            elif d.k == 'member' and d.v == 'first':
                cls = range_class(d)
                src = strip_casts(i.src)
                while src.k == 'cast':
                    src = strip_casts(src.c[0])
                facts = frozenset(x for x in facts if x not in (('fresh', cls), ('absent', cls)))
                if src.k == 'member' and src.v == 'first':
                    scls = range_class(src)
                    if ('fresh', scls) in facts or ('absent', scls) in facts:
                        facts = facts | {('fresh', cls)}
                elif const_value(i.src, prog) == 0:
                    facts = facts | {('absent', cls)}
            elif i.x and i.x.get('compound') == '|=' and 'done' in dk.lower():
                cv = const_value(i.src.c[1], prog) if i.src.k == 'bin' else None
                if cv is not None:
                    for bit in _bits(cv):
                        facts = facts | {('bit', bit), ('setbit', bit)}
            return facts
        if i.op == 'call':
            t = call_target(i)
            if i.dst is not None:
                facts = frozenset(x for x in facts if not (isinstance(x, tuple) and x[0] == 'pend' and x[1] == i.dst.v))
            helpers = self.r.helpers
            if t in helpers:
                callee = self.r.irp.funcs[t]
                cls = None
                for pi in helpers[t]:
                    if pi < len(i.args):
                        cls = range_class(i.args[pi])
                bits = ()
                for p, a in zip(callee.params, i.args):
                    if 'mask' in p.lower() and (callee.param_types.get(p) or '') == 'unsigned int':
                        cv = const_value(a, prog)
                        if cv:
                            bits = tuple(_bits(cv))
                if i.dst is not None:
                    facts = facts | {('pend', i.dst.v, ('helper', t, cls, bits))}
            elif t in self.r.irp.funcs and i.dst is not None and failure_is_zero(self.r.irp.funcs[t]) is not None \
                    and any('unsigned int *' == (ty or '') for ty in self.r.irp.funcs[t].param_types.values()):
                # candidate make-owner engine: takes a done-mask by reference
                facts = facts | {('pend', i.dst.v, ('call', t))}
            return facts
        return facts

    def edge(self, b, cond, truth, facts):
        prog = self.prog
        ot = owner_test(cond, truth, prog)
        if ot is True:
            if 'notowner' in facts:
                return None
            # everything is guarded once the URI is known to own its text: forget the rest
            facts = frozenset(x for x in facts if x == 'owner' or (isinstance(x, tuple) and x[0] in ('pend', 'zero', 'null'))) | {'owner'}
        elif ot is False:
            if 'owner' in facts:
                return None
            facts = facts | {'notowner'}
        mb = mask_bit_test(cond, truth, prog)
        if mb is not None:
            n, is_set = mb
            if is_set:
                facts = facts | {('bit', n)}
            elif ('bit', n) in facts:
                return None
        nt = null_test(cond)
        if nt is not None:
            e, null_when_true = nt
            is_null = (null_when_true == truth)
            s = strip_casts(e)
            while s.k == 'cast':
                s = strip_casts(s.c[0])
            if is_null and s.k == 'ref' and s.v not in self.f.param_types:
                # exit edge of a list loop whose body copies a component class for every node
                for cls in self.loop_classes().get(b.id, ()):
                    facts = facts | {('fresh', cls)}
            if s.k == 'member' and s.v == 'first':
                cls = range_class(s)
                if is_null:
                    facts = facts | {('absent', cls)}
                elif ('absent', cls) in facts:
                    return None
            elif s.k == 'ref' and s.v in self.f.param_types:
                if is_null:
                    facts = facts | {('null', s.v)}
        zt = zero_test(cond, prog)
        if zt is not None:
            var, zero_when_true = zt
            is_zero = (zero_when_true == truth)
            for x in list(facts):
                if isinstance(x, tuple) and x[0] == 'pend' and x[1] == var:
                    facts = facts - {x}
                    payload = x[2]
                    if payload[0] == 'helper':
                        if not is_zero:
                            _, t, cls, bits = payload
                            facts = facts | {('fresh', cls)}
                            for bit in bits:
                                facts = facts | {('bit', bit), ('setbit', bit)}
                        else:
                            facts = facts | {'failing'}
                    elif payload[0] == 'call':
                        callee = self.r.irp.funcs[payload[1]]
                        fz = failure_is_zero(callee)
                        if is_zero != fz:
                            facts = facts | {('ok', payload[1])}
                        else:
                            facts = facts | {'failing'}
            if var in self.f.param_types and 'unsigned int' == self.f.param_types[var] and is_zero:
                facts = facts | {('zero', var)}
        return facts

    def ret(self, b, term, facts):
        for cb in self.on_ret:
            cb(b, term, facts)

    def flag_tmps(self):
        """short-circuit temporaries that are passed as ownership-flag arguments"""
        if getattr(self, '_ft', None) is None:
            out = set()
            for b in self.f.blocks:
                for i in b.ins:
                    if i.op == 'call' and call_target(i) in self.r.flag_params:
                        for pi in self.r.flag_params[call_target(i)]:
                            if pi < len(i.args):
                                a = strip_casts(i.args[pi])
                                while a.k == 'cast':
                                    a = strip_casts(a.c[0])
                                if a.k == 'ref' and ((a.x and a.x.get('tmp')) or (a.v in self.f.locals and a.v not in self.f.param_types)):
                                    out.add(a.v)
            # a named local that receives the short-circuit temporary (`flag = a || b;`): follow one copy
            for b in self.f.blocks:
                for i in b.ins:
                    if i.op == 'assign' and i.dst is not None and i.dst.k == 'ref' and i.dst.v in out:
                        sv = strip_casts(i.src)
                        if sv is not None and sv.k == 'ref' and sv.x and sv.x.get('tmp'):
                            out.add(sv.v)
            self._ft = out
        return self._ft

    def loop_classes(self):
        """loop header block id -> component classes for which the loop body calls a copy helper on every iteration
        (the helper call dominates the back edge; its failure leaves the function)"""
        if getattr(self, '_lc', None) is not None:
            return self._lc
        from .cfgutil import dominators
        f = self.f
        dom = dominators(f)
        out = {}
        for hdr in f.blocks:
            backs = [p for p in hdr.preds if hdr.id in dom[p.id]]
            if not backs or hdr.term[0] != 'br':
                continue
            for b2 in f.blocks:
                if hdr.id not in dom[b2.id]:
                    continue
                for i in b2.ins:
                    if i.op == 'call' and call_target(i) in self.r.helpers:
                        if all(b2.id in dom[p.id] for p in backs):
                            for pi in self.r.helpers[call_target(i)]:
                                if pi < len(i.args):
                                    out.setdefault(hdr.id, set()).add(range_class(i.args[pi]))
        self._lc = out
        return out


def _bits(v):
    return [1 << k for k in range(32) if v & (1 << k)]


class OwnRules(object):
    def __init__(self, ctx, eng):
        self.ctx = ctx
        self.prog = ctx.prog
        self.irp = ctx.irp
        self.eng = eng
        self.helpers = copy_helpers(eng, self.irp)
        self._engine_ok = {}
        self.flag_params = ownership_flag_params(eng, self.irp)

    def func_analysis(self, f):
        c = getattr(self, '_fa', None)
        if c is None:
            c = self._fa = {}
        if f.name not in c:
            fa = FuncAnalysis(self.eng, f, ())
            fa.run()
            c[f.name] = fa
        return c[f.name]

    def satisfied(self, cls, facts):
        if ('fresh', cls) in facts or ('absent', cls) in facts:
            return True
        return False

    def covered(self, cls, facts):
        """class is owned on this path: fresh, absent, or its done-mask bit is set (duplicated earlier)"""
        if self.satisfied(cls, facts):
            return True
        bit = MASK_BIT_OF_CLASS.get(cls)
        if bit is not None and ('bit', self.prog.enums.get(bit)) in facts:
            return True
        return False

    def success_ret(self, f, term):
        e = term[1]
        cv = const_value(e, self.prog) if e is not None else None
        fz = failure_is_zero(f)
        if cv is None or fz is None:
            return None
        return (cv == 0) != fz

    def reach(self, f, ctxb=()):
        fa = FuncAnalysis(self.eng, f, ctxb)
        return fa.reach

    def is_make_owner_engine(self, name):
        """every success return of `name` has every text class covered (rule a)"""
        if name in self._engine_ok:
            return self._engine_ok[name]
        f = self.irp.funcs[name]
        suffix = name[-1] if name[-1] in 'AW' else 'A'
        classes = text_classes(self.prog, suffix)
        missing = {}
        nsucc = [0]
        h = OwnHooks(self, f)

        def on_ret(b, term, facts):
            if self.success_ret(f, term):
                nsucc[0] += 1
                for c in classes:
                    if not self.covered(c, facts):
                        missing.setdefault(c, term[2])
        h.on_ret.append(on_ret)
        explore(f, h)
        res = (nsucc[0] > 0 and not missing, missing, classes)
        self._engine_ok[name] = res
        return res


def run_rules(ctx, chk, eng):
    prog, irp = ctx.prog, ctx.irp
    R = OwnRules(ctx, eng)
    if len(R.helpers) < 6:
        raise AnalysisBroken('copy helpers not recognised: %s' % sorted(R.helpers))

    # ---- (b) owner = TRUE only where everything is owned; (a) via engine coverage
    chk.rule('owner-set', 'the owner flag is set only on paths where a make-owner engine succeeded; an engine qualifies only '
             'if at each of its success returns every text component derived from the struct definitions (scheme, userInfo, '
             'hostText, hostData.ipFuture, portText, segment text, query, fragment) is a fresh copy, absent, or recorded as '
             'already duplicated in the done-mask', floor=4)
    chk.rule('copy-coverage', 'make-owner engine: per text component, covered on every success return', floor=16)
    chk.rule('mask-bit-complete', 'when a done-mask bit is set by a function, every component class of that bit is a fresh '
             'copy or absent at each of its success returns (HOST covers both hostText and hostData.ipFuture)', floor=10)
    chk.rule('success-means-owner', 'in-place public operations: every success return is reached with the owner flag true, '
             'or with a zero mask / NULL URI; wrappers hand their mask parameter on unchanged', floor=6)
    chk.rule('inplace-guarded', 'every call of a function that writes through a `const URI_CHAR *` text pointer is reached '
             'only with the URI\'s owner flag true, or after the same range was replaced by a fresh copy on that path '
             '(copy helpers succeed with "fresh or empty"), or hands on its own parameter', floor=16)
    chk.rule('ownership-flag', 'an integer argument that guards the release of segment texts in the callee (found by the effect '
             'analysis) is true exactly when the URI owns its text or the texts were replaced by fresh copies on that path',
             floor=4)
    engines_seen = set()
    writers = const_text_writers(eng, irp)
    chk.analysed['ownership_flag_params'] = {k: {str(a): b for a, b in v.items()} for k, v in R.flag_params.items()}
    chk.analysed['const_text_writers'] = sorted(writers)
    chk.analysed['copy_helpers'] = sorted(R.helpers)
    for name, f in sorted(irp.funcs.items()):
        if is_testing_only(prog, name):
            continue
        has_owner_set = any(i.op == 'assign' and i.dst.k == 'member' and i.dst.v == 'owner' and const_value(i.src, prog)
                            for b in f.blocks for i in b.ins)
        has_setbit = any(i.op == 'assign' and i.x and i.x.get('compound') == '|=' and 'done' in expr_key(i.dst).lower()
                         and i.src.k == 'bin' and const_value(i.src.c[1], prog) is not None
                         for b in f.blocks for i in b.ins)
        calls_writer = any(i.op == 'call' and call_target(i) in writers for b in f.blocks for i in b.ins)
        calls_flag = any(i.op == 'call' and call_target(i) in R.flag_params for b in f.blocks for i in b.ins)
        if not (has_owner_set or has_setbit or calls_writer or calls_flag):
            continue
        flagres = {}
        h = OwnHooks(R, f)
        owner_bad = {}
        owner_ok = {}
        bit_missing = {}
        bit_seen = set()
        succ_bad = {}
        succ_n = [0]
        inplace = {}
        suffix = name[-1] if name[-1] in 'AW' else 'A'

        def on_instr(b, idx, i, facts, f=f, name=name):
            if i.op == 'assign' and i.dst.k == 'member' and i.dst.v == 'owner' and const_value(i.src, prog):
                oks = [x[1] for x in facts if isinstance(x, tuple) and x[0] == 'ok']
                good = False
                for g in oks:
                    ok, missing, classes = R.is_make_owner_engine(g)
                    engines_seen.add(g)
                    if ok:
                        good = True
                if good:
                    owner_ok[i.loc] = oks
                else:
                    owner_bad[i.loc] = oks
            if i.op == 'call' and call_target(i) in R.flag_params:
                t = call_target(i)
                for pi, cls in R.flag_params[t].items():
                    if pi >= len(i.args):
                        continue
                    a = strip_casts(i.args[pi])
                    while a.k == 'cast':
                        a = strip_casts(a.c[0])
                    need = ('owner' in facts) or (('fresh', cls) in facts)
                    val = None          # True / False / 'owner' (exactly the owner flag) / 'param' / None unknown
                    cv = const_value(a, prog)
                    if cv is not None:
                        val = bool(cv)
                    elif a.k == 'member' and a.v == 'owner':
                        val = True if 'owner' in facts else (False if 'notowner' in facts else 'owner')
                    elif a.k == 'ref' and ((a.x and a.x.get('tmp')) or (a.v in f.locals and a.v not in f.param_types)):
                        for x in facts:
                            if isinstance(x, tuple) and x[0] == 'tmpv' and x[1] == a.v:
                                val = bool(x[2])
                    elif a.k == 'ref' and a.v in f.param_types:
                        val = 'param'
                    okk = True
                    why = ''
                    if val is True and not need:
                        okk, why = False, 'flag is true although the URI neither owns its text nor holds fresh copies: borrowed text would be freed'
                    elif val is False and need:
                        okk, why = False, 'flag is false although the `%s` texts are fresh copies on this path: removed segments would leak' % cls
                    elif val == 'owner' and ('fresh', cls) in facts:
                        okk, why = False, 'flag is the owner flag alone although the `%s` texts may be fresh copies of a non-owner URI: removed segments would leak' % cls
                    elif val is None:
                        okk, why = False, 'value of the ownership flag argument cannot be related to the owner flag / done-mask'
                    k2 = (i.loc, t, cls)
                    if k2 not in flagres or (flagres[k2][0] and not okk):
                        flagres[k2] = (okk, why)
            if i.op == 'call' and call_target(i) in writers:
                t = call_target(i)
                for pi in writers[t]:
                    if pi >= len(i.args):
                        continue
                    a = i.args[pi]
                    key = (t, i.loc[1] if i.loc else 0)
                    # handing on our own const text parameter
                    s = strip_casts(a)
                    while s.k == 'cast':
                        s = strip_casts(s.c[0])
                    if s.k == 'ref' and s.v in f.param_types:
                        inplace.setdefault((i.loc, t, 'param'), True)
                        continue
                    cls = range_class(a)
                    ok = ('owner' in facts) or (cls is not None and (('fresh', cls) in facts))
                    if not ok:
                        fa = R.func_analysis(f)
                        objs = fa.pts(a)
                        if objs and all(o[0].startswith('F:') for o in objs):
                            ok = True     # a block this function obtained from the manager itself
                    prev = inplace.get((i.loc, t, cls), True)
                    inplace[(i.loc, t, cls)] = prev and ok

        def on_ret(b, term, facts, f=f, name=name):
            sr = R.success_ret(f, term)
            if sr:
                succ_n[0] += 1
                for x in facts:
                    if isinstance(x, tuple) and x[0] == 'setbit':
                        bit_seen.add(x[1])
                        for cls, bn in MASK_BIT_OF_CLASS.items():
                            if bn is not None and prog.enums.get(bn) == x[1]:
                                if not R.satisfied(cls, facts):
                                    bit_missing.setdefault((x[1], cls), term[2])
                if has_owner_set and failure_is_zero(f) is False:
                    ok = 'owner' in facts or any(isinstance(x, tuple) and x[0] in ('zero',) for x in facts) \
                        or any(isinstance(x, tuple) and x[0] == 'null' and x[1] in f.param_types for x in facts)
                    if not ok:
                        succ_bad.setdefault(term[2], True)
        h.on_instr.append(on_instr)
        h.on_ret.append(on_ret)
        # normalising mode of the engine: outMask == NULL
        ctxb = tuple((p, 0) for p in f.params if p == 'outMask')
        reach = R.reach(f, ctxb) if ctxb else None
        explore(f, h, reach=reach)
        bn = base_name(name)
        for loc, oks in owner_ok.items():
            chk.ok('owner-set', 'owner-set@%s' % bn, loc, '%s: after success of %s' % (name, ','.join(oks)), func=name)
        for loc, oks in owner_bad.items():
            chk.bad('owner-set', 'owner-set@%s' % bn, loc, '%s sets the owner flag on a path where no make-owner engine has '
                    'succeeded (successful calls on the path: %s)' % (name, ','.join(oks) or 'none'), func=name)
        for bit in sorted(bit_seen):
            miss = [(c, l) for ((b2, c), l) in bit_missing.items() if b2 == bit]
            key = 'bit:%s/%d' % (bn, bit)
            if miss:
                chk.bad('mask-bit-complete', key, miss[0][1], '%s sets done-mask bit %d but component `%s` is neither a fresh '
                        'copy nor absent at a success return: the make-owner step will skip it and it keeps pointing into '
                        'the caller\'s text' % (name, bit, miss[0][0]), func=name)
            else:
                chk.ok('mask-bit-complete', key, f.loc, '%s: all components of bit %d covered' % (name, bit), func=name)
        if has_owner_set and failure_is_zero(f) is False:
            key = 'success-owner@%s' % bn
            if succ_bad:
                chk.bad('success-means-owner', key, sorted(succ_bad, key=lambda l: l[1])[0], '%s can return success without '
                        'the URI owning its text although the mask was not zero' % name, func=name)
            else:
                chk.ok('success-means-owner', key, f.loc, '%s: %d success return states checked' % (name, succ_n[0]), func=name)
        for (loc, t, cls), (okk, why) in sorted(flagres.items(), key=lambda x: x[0][0][1]):
            key = 'ownflag:%s->%s(%s)' % (bn, base_name(t), cls)
            if okk:
                chk.ok('ownership-flag', key, loc, 'argument agrees with owner flag / fresh copies on every path', func=name)
            else:
                chk.bad('ownership-flag', key, loc, '%s -> %s: %s' % (name, t, why), func=name)
        for (loc, t, cls), ok in sorted(inplace.items(), key=lambda x: (x[0][0][1], str(x[0][2]))):
            key = 'inplace:%s->%s(%s)' % (bn, base_name(t), cls)
            if ok:
                chk.ok('inplace-guarded', key, loc, 'owner flag true, fresh copy, or own parameter handed on', func=name)
            else:
                chk.bad('inplace-guarded', key, loc, '%s calls %s on component `%s` on a path where the URI is not known to '
                        'own that text: borrowed caller text would be modified in place' % (name, t, cls), func=name)
    for g in sorted(engines_seen):
        ok, missing, classes = R.is_make_owner_engine(g)
        for c in classes:
            key = 'coverage:%s/%s' % (base_name(g), c)
            if c in missing:
                chk.bad('copy-coverage', key, missing[c], '%s can return success while component `%s` was neither duplicated '
                        'nor absent nor marked done' % (g, c), func=g)
            else:
                chk.ok('copy-coverage', key, irp.funcs[g].loc, 'covered on every success return', func=g)
    # wrappers hand the mask on unchanged
    pub = prog.public_functions()
    for name in sorted(pub):
        if name not in irp.funcs:
            continue
        f = irp.funcs[name]
        for b in f.blocks:
            for i in b.ins:
                if i.op != 'call':
                    continue
                t = call_target(i)
                if t not in irp.funcs:
                    continue
                callee = irp.funcs[t]
                for p, a in zip(callee.params, i.args):
                    if p in ('mask', 'inMask') and callee.param_types.get(p) == 'unsigned int' and 'Normalize' in t:
                        key = 'mask-identity:%s->%s' % (base_name(name), base_name(t))
                        s = strip_casts(a)
                        while s.k == 'cast':
                            s = strip_casts(s.c[0])
                        cv = const_value(a, prog)
                        assigned = any(j.op == 'assign' and j.dst.k == 'ref' and s.k == 'ref' and j.dst.v == s.v
                                       for bb in f.blocks for j in bb.ins)
                        if cv is not None:
                            chk.ok('success-means-owner', key, i.loc, 'constant mask %s' % cv, func=name)
                        elif s.k == 'ref' and s.v in f.param_types and not assigned:
                            chk.ok('success-means-owner', key, i.loc, 'own parameter `%s` handed on unchanged' % s.v, func=name)
                        else:
                            chk.bad('success-means-owner', key, i.loc, '%s hands a modified mask `%s` to %s: a non-zero mask may '
                                    'become zero and the URI would not be made owner' % (name, pp.expr(a), t), func=name)


def ownership_flag_params(eng, irp):
    """callee -> {param index: component class}: integer parameters that guard the release of text blocks
    (the effect analysis tags those frees 'ifparam:<p>')"""
    out = {}
    for name, f in irp.funcs.items():
        s = eng.summary(name)
        if s is None:
            continue
        for e in s.effects.values():
            if e.kind != 'f' or len(e.obj[1]) < 3 or e.obj[1][-1] != '*' or e.obj[1][-2] != 'first':
                continue
            for t in e.guarded:
                if isinstance(t, str) and t.startswith('ifparam:') and t[8:] in f.params:
                    out.setdefault(name, {})[f.params.index(t[8:])] = e.obj[1][-3]
    return out


def const_text_writers(eng, irp):
    """functions with a `const URI_CHAR *` parameter whose pointee they may write (cast-away-const writers)"""
    out = {}
    for name, f in irp.funcs.items():
        s = eng.summary(name)
        if s is None:
            continue
        for pi, p in enumerate(f.params):
            ty = f.param_types.get(p) or ''
            if ty.startswith('const ') and ty.count('*') == 1 and ('char' in ty or 'wchar_t' in ty):
                if any(e.kind == 'w' and e.obj == ('P:' + p, ()) for e in s.effects.values()):
                    out.setdefault(name, set()).add(pi)
    return out


def rule_kill_bound(ctx, chk, rule='kill-bound'):
    """Failure cleanup of a partly duplicated path: the loop that frees segment TEXTS stops exactly at the segment whose
    duplication failed - texts from there on are still the caller's.  Decided on the program with small static helpers
    inlined (the loop may live in an extracted helper that receives the bound as an argument)."""
    import re
    from .main import InlinedCtx
    from .ir import call_target, manager_call, strip_casts
    from .cfgutil import expr_key
    from .tables import base_name
    from .frontend import AnalysisBroken
    ictx = InlinedCtx(ctx)
    chk.rule(rule, 'failure cleanup of a partly duplicated path: the loop that frees segment texts ends exactly at the segment whose '
             'duplication failed (texts from there on are borrowed)', floor=4)
    n = 0
    for suf in ('A', 'W'):
        for fn in ('uriMakeOwnerEngine', 'uriNormalizeSyntaxEngine'):
            name = fn + suf
            f = ictx.irp.funcs.get(name)
            if f is None:
                raise AnalysisBroken('%s not found' % name)
            # segments handed to a duplicating helper: an argument `&(W->text...)`
            dupvars = set()
            for b in f.blocks:
                for i in b.ins:
                    if i.op == 'call' and call_target(i) and manager_call(i) is None:
                        for a in i.args or []:
                            m = re.match(r'^\(?&\(?\(?([A-Za-z_][A-Za-z0-9_#$.]*)->text', expr_key(a))
                            if m and 'PathSegment' in (f.locals.get(m.group(1)) or ''):
                                dupvars.add(m.group(1))
            # copies of parameters made by the inliner
            alias = {}
            for b in f.blocks:
                for i in b.ins:
                    if i.op == 'assign' and i.x and i.x.get('inlined_param') and i.dst is not None and i.dst.k == 'ref':
                        alias[i.dst.v] = expr_key(i.src)
            # loops `while (R != B)` whose body frees R->text.first
            found = 0
            for b in f.blocks:
                t = b.term
                if t[0] != 'br':
                    continue
                c = strip_casts(t[1])
                if c is None or c.k != 'bin' or c.v not in ('!=', '=='):
                    continue
                ka, kb = expr_key(c.c[0]), expr_key(c.c[1])
                for R, B in ((ka, kb), (kb, ka)):
                    if 'PathSegment' not in (f.locals.get(R) or ''):
                        continue
                    body = t[2] if c.v == '!=' else t[3]
                    # blocks reachable from the body entry without passing through the test block
                    seen, st = set(), [body]
                    frees_text = False
                    while st:
                        x = st.pop()
                        if x.id in seen or x.id == b.id:
                            continue
                        seen.add(x.id)
                        for i in x.ins:
                            if i.op == 'call':
                                mc = manager_call(i)
                                if mc and mc[0] == 'free' and len(i.args) > 1 and re.search(r'(?<![A-Za-z0-9_#$.])%s->text\.first' % re.escape(R),
                                                                                            expr_key(i.args[1])):
                                    frees_text = True
                        st.extend(x.succs())
                    if not frees_text or b.id not in seen and not any(s.id == b.id for bb in f.blocks if bb.id in seen for s in bb.succs()):
                        continue
                    found += 1
                    n += 1
                    bound = alias.get(B, B)
                    ok = bound in dupvars
                    chk.add(rule, 'kill-bound:%s' % (name if ok else base_name(name)), ok, b.loc,
                            '%s: the loop that frees the texts of the segments duplicated so far runs up to `%s`; the segment whose '
                            'duplication failed is `%s`%s' % (name, bound, '`, `'.join(sorted(dupvars)) or '?',
                                                              '' if ok else ' - texts between the two are freed although they are the caller\'s, or kept although fresh'),
                            func=name)
            if not found:
                raise AnalysisBroken('%s: the text-freeing cleanup loop was not recognised' % name)
    return n
