/* Concrete replay of the C14 finding revert:uriNormalizeSyntaxEngine/text:
 * normalising the PATH of a borrowed URI with the k-th allocation failing leaks the
 * segment texts already duplicated.  Exit 0 = no block outstanding for every k. */
#include <uriparser/Uri.h>
#include <stdio.h>
#include <stdlib.h>
#include <string.h>

static int live = 0, count = 0, failAt = -1;
static void * m_malloc(UriMemoryManager * m, size_t n) { (void)m; if (++count == failAt) return NULL; live++; return malloc(n); }
static void * m_calloc(UriMemoryManager * m, size_t a, size_t b) { (void)m; if (++count == failAt) return NULL; live++; return calloc(a, b); }
static void * m_realloc(UriMemoryManager * m, void * p, size_t n) { (void)m; (void)p; (void)n; return NULL; }
static void * m_reallocarray(UriMemoryManager * m, void * p, size_t a, size_t b) { (void)m; (void)p; (void)a; (void)b; return NULL; }
static void m_free(UriMemoryManager * m, void * p) { (void)m; if (p) { live--; free(p); } }

int main(void) {
	UriMemoryManager mm = { m_malloc, m_calloc, m_realloc, m_reallocarray, m_free, NULL };
	int k, bad = 0;
	for (k = 1; k <= 8; k++) {
		UriUriA uri;
		const char * errorPos;
		int res;
		live = 0; count = 0; failAt = -1;
		live = 0; count = 0;
		{
			const char * t = "a%41/b%42/c";
			if (uriParseSingleUriExMmA(&uri, t, t + strlen(t), &errorPos, &mm) != URI_SUCCESS) return 2;
		}
		count = 0; failAt = k;
		res = uriNormalizeSyntaxExMmA(&uri, URI_NORMALIZE_PATH, &mm);
		failAt = -1;
		uriFreeUriMembersMmA(&uri, &mm);
		if (live != 0) {
			printf("k=%d res=%d: %d block(s) outstanding after uriFreeUriMembersMmA\n", k, res, live);
			bad = 1;
		}
	}
	return bad;
}
