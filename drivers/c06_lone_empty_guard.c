/* C06: "Only where the RFC result would be a host-less path beginning with '//' is a single '.' segment placed in front."
 * uriFixAmbiguity also fired for an absolute path whose ONLY segment is empty, i.e. the path "/":
 *   uriAddBaseUriA("..", "s:/a/b") gave "s:/./" where RFC 3986 5.2 gives "s:/"
 * build: cc -I/repo/include c06_lone_empty_guard.c -L/repo/_build -luriparser -Wl,-rpath,/repo/_build -o c06 && ./c06
 * exit 1 = defect present */
#include <uriparser/Uri.h>
#include <stdio.h>
#include <string.h>

static int resolve(const char *ref, const char *base, const char *want) {
	UriUriA r, b, d;
	const char *e;
	char got[256];
	int w, bad;
	if (uriParseSingleUriA(&r, ref, &e) || uriParseSingleUriA(&b, base, &e)) return 2;
	if (uriAddBaseUriA(&d, &r, &b) != URI_SUCCESS) return 2;
	uriToStringA(got, &d, sizeof got, &w);
	bad = strcmp(got, want) != 0;
	if (bad) printf("C06 broken: \"%s\" against %s gives %s, RFC 3986 5.2 gives %s\n", ref, base, got, want);
	uriFreeUriMembersA(&r); uriFreeUriMembersA(&b); uriFreeUriMembersA(&d);
	return bad;
}

int main(void) {
	int bad = 0;
	bad += resolve("..", "s:/a/b", "s:/");
	bad += resolve("../..", "s:/a/b/c", "s:/");
	bad += resolve("./", "s:/a", "s:/");
	bad += resolve("/", "s:/a/b", "s:/");
	/* the guard must still fire where the text would begin with "//" */
	bad += resolve("..//x", "s:/a/b", "s:/.//x");
	bad += resolve("/.//x", "s:/p", "s:/.//x");
	bad += resolve("..", "s://h/a/b", "s://h/");
	printf("%d wrong results\n", bad);
	return bad ? 1 : 0;
}
