/* C10: uriRemoveBaseUri omits the authority when only the host matches; user info and port are lost.
 * Build: cc -I/repo/include c10_authority_compare.c -L/repo/_build -luriparser */
#include <stdio.h>
#include <string.h>
#include <uriparser/Uri.h>

int main(void) {
	struct { const char *src, *base; } cases[] = {
		{"s://u@h:1/a", "s://h/b"}, {"s://h:1/a", "s://h:2/b"}, {"s://u@h/a", "s://v@h/b"}, {"s://u@h:1/a", "s://u@h:1/b"},
	};
	unsigned i;
	int bad = 0;
	for (i = 0; i < sizeof(cases) / sizeof(cases[0]); i++) {
		UriUriA s, b, r, t;
		const char *ep;
		char ref[128], back[128];
		uriParseSingleUriA(&s, cases[i].src, &ep);
		uriParseSingleUriA(&b, cases[i].base, &ep);
		if (uriRemoveBaseUriA(&r, &s, &b, URI_FALSE) != URI_SUCCESS) return 2;
		uriToStringA(ref, &r, sizeof(ref), NULL);
		if (uriAddBaseUriA(&t, &r, &b) != URI_SUCCESS) return 2;
		uriToStringA(back, &t, sizeof(back), NULL);
		printf("%-14s relative to %-12s = %-14s resolves back to %-14s %s\n", cases[i].src, cases[i].base, ref, back,
				strcmp(back, cases[i].src) ? "WRONG" : "ok");
		bad |= strcmp(back, cases[i].src) != 0;
		uriFreeUriMembersA(&t); uriFreeUriMembersA(&r); uriFreeUriMembersA(&s); uriFreeUriMembersA(&b);
	}
	return bad;
}
