/* C06/C07: resolution returns a host-less path beginning with "//" without the "." guard on the
 * "reference has a scheme" and "reference path is absolute" rows; and prepends "." although a host
 * is present.  Build: cc -I/repo/include c06_guard_missing.c -L/repo/_build -luriparser */
#include <stdio.h>
#include <string.h>
#include <uriparser/Uri.h>

static int resolve(const char *ref, const char *base, char *out, int n) {
	UriUriA r, b, t;
	const char *ep;
	int res;
	if (uriParseSingleUriA(&r, ref, &ep) != URI_SUCCESS) return -1;
	if (uriParseSingleUriA(&b, base, &ep) != URI_SUCCESS) return -2;
	res = uriAddBaseUriA(&t, &r, &b);
	if (res != URI_SUCCESS) return res;
	uriToStringA(out, &t, n, NULL);
	uriFreeUriMembersA(&t);
	uriFreeUriMembersA(&r);
	uriFreeUriMembersA(&b);
	return 0;
}

int main(void) {
	char buf[256];
	int bad = 0;
	struct { const char *ref, *base, *want; } cases[] = {
		{"s:/.//x", "t://h/p", "s:/.//x"},      /* RFC: path "//x" without authority -> guarded */
		{"/.//x", "s:/p", "s:/.//x"},
		{"..///x", "s://h/a/b", "s://h///x"},   /* host present: no guard needed, RFC result */
		{"..//x", "s:/a/b", "s:/.//x"},         /* merge row, already guarded */
	};
	unsigned i;
	for (i = 0; i < sizeof(cases) / sizeof(cases[0]); i++) {
		int rc = resolve(cases[i].ref, cases[i].base, buf, sizeof(buf));
		int ok = rc == 0 && strcmp(buf, cases[i].want) == 0;
		printf("%-10s against %-12s -> %-14s expected %-12s %s\n", cases[i].ref, cases[i].base, rc ? "(error)" : buf,
				cases[i].want, ok ? "ok" : "WRONG");
		bad |= !ok;
	}
	return bad;
}
