/* Concrete replay of C17 finding int:uriComposeQueryEngine/(*charsRequired)=...: one item whose key and
 * value have 357913940 characters each passes the per-item guards (factor 6) but the int sum of the item
 * wraps: chars-required is reported as success with a negative figure.  Needs about 720 MB.
 * Exit 0 = refused or correct figure; 1 = wrapped figure returned as success. */
#include <uriparser/Uri.h>
#include <stdio.h>
#include <stdlib.h>
#include <string.h>
int main(void) {
	const size_t n = 357913940u;
	char * k = malloc(n + 1), * v = malloc(n + 1);
	UriQueryListA item;
	int required = 12345, res;
	if (!k || !v) { puts("not enough memory for the replay"); return 2; }
	memset(k, 'a', n); k[n] = 0; memset(v, 'b', n); v[n] = 0;
	item.key = k; item.value = v; item.next = NULL;
	res = uriComposeQueryCharsRequiredExA(&item, &required, URI_TRUE, URI_TRUE);
	printf("res=%d charsRequired=%d\n", res, required);
	free(k); free(v);
	return (res == URI_SUCCESS && required < 0) ? 1 : 0;
}
