/* Concrete replay of C11 finding eq:uriEqualsUri/absolutePath: "s:/a" and "s:a" differ in the
 * absolute-path flag (and in their recomposed text) but compared equal. Exit 0 = reported different. */
#include <uriparser/Uri.h>
#include <stdio.h>
int main(void) {
	UriUriA a, b; const char * e; int eq;
	if (uriParseSingleUriA(&a, "s:/a", &e) || uriParseSingleUriA(&b, "s:a", &e)) return 2;
	eq = uriEqualsUriA(&a, &b);
	printf("absolutePath %d vs %d, uriEqualsUriA=%d\n", a.absolutePath, b.absolutePath, eq);
	uriFreeUriMembersA(&a); uriFreeUriMembersA(&b);
	return eq ? 1 : 0;
}
