/* C08: normalisation treats a network-path reference (no scheme, but an authority) as a relative-path
 * reference and keeps its leading ".." segments.  Build: cc -I/repo/include c08_relative_flag.c -L/repo/_build -luriparser */
#include <stdio.h>
#include <string.h>
#include <uriparser/Uri.h>

int main(void) {
	struct { const char *in, *want; } cases[] = {
		{"//h/../x", "//h/x"}, {"//h/a/../../b", "//h/b"}, {"../x", "../x"}, {"s://h/../x", "s://h/x"}, {"/../x", "/x"},
	};
	unsigned i;
	int bad = 0;
	for (i = 0; i < sizeof(cases) / sizeof(cases[0]); i++) {
		UriUriA u;
		const char *ep;
		char out[64];
		uriParseSingleUriA(&u, cases[i].in, &ep);
		uriNormalizeSyntaxA(&u);
		uriToStringA(out, &u, sizeof(out), NULL);
		printf("%-16s -> %-14s expected %-10s %s\n", cases[i].in, out, cases[i].want, strcmp(out, cases[i].want) ? "WRONG" : "ok");
		bad |= strcmp(out, cases[i].want) != 0;
		uriFreeUriMembersA(&u);
	}
	return bad;
}
