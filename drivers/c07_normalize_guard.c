/* C07: path normalisation leaves a host-less path beginning with "//" unguarded.
 * Build: cc -I/repo/include c07_normalize_guard.c -L/repo/_build -luriparser */
#include <stdio.h>
#include <string.h>
#include <uriparser/Uri.h>

int main(void) {
	const char *inputs[] = {"/.//x", "s:/.//x", "s:/a/..//x"};
	unsigned i;
	int bad = 0;
	for (i = 0; i < 3; i++) {
		UriUriA u, v;
		const char *ep;
		char out[64];
		uriParseSingleUriA(&u, inputs[i], &ep);
		uriNormalizeSyntaxExA(&u, URI_NORMALIZE_PATH);
		uriToStringA(out, &u, sizeof(out), NULL);
		uriParseSingleUriA(&v, out, &ep);
		printf("%-12s normalises to %-8s re-read: host %s\n", inputs[i], out,
				v.hostText.first != NULL ? "PRESENT (path became an authority)" : "absent");
		bad |= v.hostText.first != NULL;
		uriFreeUriMembersA(&u); uriFreeUriMembersA(&v);
	}
	return bad;
}
