/* C10: uriRemoveBaseUri must yield a reference that resolves (against the same base) back to the source.
 * The common-prefix walk treated the last segment of exactly one of the two paths as a shared directory:
 *   source s://h/a/b   base s://h/a/b/c  ->  ""   (resolves to the base itself)
 *   source s://h/a/b/c base s://h/a/b    ->  "c"  (resolves to s://h/a/c)
 *   source s://h/a     base s://h/a/b    ->  ""   ; source s://h/a/b/ base s://h/a/b -> "./" (resolves to s://h/a/)
 * and it stepped over the last segment of the source although the base has a query the source lacks:
 *   source s://h/a/b   base s://h/a/b?q  ->  ""   (resolves to s://h/a/b?q)
 * build: cc -I/repo/include c10_prefix_walk.c -L/repo/_build -luriparser -Wl,-rpath,/repo/_build -o c10 && ./c10
 * exit 1 = defect present */
#include <uriparser/Uri.h>
#include <stdio.h>
#include <string.h>

static int roundtrip(const char *S, const char *B) {
	UriUriA s, b, r, r2, back, sn;
	const char *e;
	char ref[256], got[256], want[256];
	int w, bad;
	if (uriParseSingleUriA(&s, S, &e) || uriParseSingleUriA(&b, B, &e)) return 2;
	if (uriRemoveBaseUriA(&r, &s, &b, URI_FALSE) != URI_SUCCESS) return 2;
	uriToStringA(ref, &r, sizeof ref, &w);
	if (uriParseSingleUriA(&r2, ref, &e)) return 2;
	if (uriAddBaseUriA(&back, &r2, &b) != URI_SUCCESS) return 2;
	uriToStringA(got, &back, sizeof got, &w);
	uriParseSingleUriA(&sn, S, &e);
	uriToStringA(want, &sn, sizeof want, &w);
	bad = strcmp(got, want) != 0;
	if (bad) printf("C10 broken: source %s, base %s -> reference \"%s\", which resolves to %s\n", S, B, ref, got);
	uriFreeUriMembersA(&s); uriFreeUriMembersA(&b); uriFreeUriMembersA(&r); uriFreeUriMembersA(&r2);
	uriFreeUriMembersA(&back); uriFreeUriMembersA(&sn);
	return bad;
}

int main(void) {
	static const char *cases[][2] = {
		{"s://h/a/b", "s://h/a/b/c"}, {"s://h/a/b/c", "s://h/a/b"}, {"s://h/a", "s://h/a/b"}, {"s://h/a/b/", "s://h/a/b"},
		{"s://h/a/b", "s://h/a/b"}, {"s://h/a/", "s://h/a/b"}, {"s://h/a/b/c/d", "s://h/a/x/y"}, {"s://h/x", "s://h/a/b/c/d"},
		{"s://h/a/b?q", "s://h/a/b"}, {"s://h/a/", "s://h/a/"}, {"s://h/a//c", "s://h/a//d"}, {"s://h/a/b", "s://h/a/"},
		/* an empty reference path inherits the query of the base (second defect, fixed separately) */
		{"s://h/a/b", "s://h/a/b?q"}, {"s://h/a/b#f", "s://h/a/b?q"}, {"s://h/a/c:d", "s://h/a/c:d?q"}, {"s://h/a/b?x", "s://h/a/b?q"} };
	int bad = 0;
	unsigned i;
	for (i = 0; i < sizeof cases / sizeof cases[0]; i++) {
		int r = roundtrip(cases[i][0], cases[i][1]);
		if (r == 2) { printf("error on %s / %s\n", cases[i][0], cases[i][1]); return 2; }
		bad += r;
	}
	printf("%d of %u (source, base) pairs do not resolve back\n", bad, (unsigned)(sizeof cases / sizeof cases[0]));
	return bad ? 1 : 0;
}
