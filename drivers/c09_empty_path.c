/* C09: normalisation must not change what a reference identifies; for a reference with neither scheme nor
 * authority it never makes a relative path empty.
 * uriNormalizeSyntaxA turns "." , "./" , "a/.." and "a/../" into the empty reference "".  Resolved against
 * http://h/d/e?q the original gives http://h/d/ , the normalised one gives http://h/d/e?q (same-document reference).
 * build: cc -I/repo/include c09_empty_path.c -L/repo/_build -luriparser -Wl,-rpath,/repo/_build -o c09 && ./c09
 * exit 1 = defect present */
#include <uriparser/Uri.h>
#include <stdio.h>
#include <string.h>

static int resolve_to(const char *ref, int normalize_first, char *out, int outlen) {
	UriUriA r, b, d;
	const char *e;
	int w, rc = 1;
	if (uriParseSingleUriA(&b, "http://h/d/e?q", &e) != URI_SUCCESS) return 1;
	if (uriParseSingleUriA(&r, ref, &e) != URI_SUCCESS) { uriFreeUriMembersA(&b); return 1; }
	if (normalize_first && uriNormalizeSyntaxA(&r) != URI_SUCCESS) goto done;
	if (uriAddBaseUriA(&d, &r, &b) != URI_SUCCESS) goto done;
	if (uriNormalizeSyntaxA(&d) == URI_SUCCESS && uriToStringA(out, &d, outlen, &w) == URI_SUCCESS) rc = 0;
	uriFreeUriMembersA(&d);
done:
	uriFreeUriMembersA(&r);
	uriFreeUriMembersA(&b);
	return rc;
}

int main(void) {
	const char *refs[] = { ".", "./", "a/..", "a/../", "a/b/../..", "a/./..", "x", "./x", "a/../x", "../x", "" };
	int bad = 0;
	unsigned i;
	for (i = 0; i < sizeof(refs) / sizeof(refs[0]); i++) {
		char plain[256], normed[256];
		if (resolve_to(refs[i], 0, plain, 256) || resolve_to(refs[i], 1, normed, 256)) { printf("error on %s\n", refs[i]); return 2; }
		if (strcmp(plain, normed) != 0) {
			printf("C09 broken for reference \"%s\": resolve(R) = %s, resolve(normalize(R)) = %s\n", refs[i], plain, normed);
			bad++;
		}
	}
	printf("%d references change their target under normalisation\n", bad);
	return bad ? 1 : 0;
}
