/* C07: "no operation lets path content be read back as a scheme".  C09: normalisation never changes what a reference identifies.
 * uriNormalizeSyntaxA turns the relative reference "a/../b:c" into "b:c": when ".." removes the first segment, the segment
 * behind it becomes the head of the path without the "./" guard the parser would have required; written and read back, "b" is
 * a scheme.
 * build: cc -I/repo/include c07_colon_head.c -L/repo/_build -luriparser -Wl,-rpath,/repo/_build -o c07c && ./c07c ; exit 1 = defect present */
#include <uriparser/Uri.h>
#include <stdio.h>
#include <string.h>

int main(void) {
	const char *refs[] = { "a/../b:c", "x/../http://evil/y", "a/b/../../c:d/e", "a/../b", "./b:c" };
	int bad = 0;
	unsigned i;
	for (i = 0; i < sizeof refs / sizeof refs[0]; i++) {
		UriUriA u, v;
		const char *e;
		char text[256];
		int w;
		if (uriParseSingleUriA(&u, refs[i], &e)) return 2;
		if (uriNormalizeSyntaxA(&u) != URI_SUCCESS) return 2;
		uriToStringA(text, &u, sizeof text, &w);
		if (uriParseSingleUriA(&v, text, &e)) {
			printf("\"%s\" normalises to \"%s\", which does not parse\n", refs[i], text);
			bad++;
		} else {
			if ((u.scheme.first == NULL) != (v.scheme.first == NULL)) {
				printf("\"%s\" normalises to \"%s\", which is read back with scheme \"%.*s\"\n", refs[i], text,
						(int)(v.scheme.afterLast - v.scheme.first), v.scheme.first);
				bad++;
			}
			uriFreeUriMembersA(&v);
		}
		uriFreeUriMembersA(&u);
	}
	printf("%d references change their meaning\n", bad);
	return bad ? 1 : 0;
}
