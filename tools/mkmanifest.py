#!/usr/bin/env python3
"""Generate /verif/MANIFEST.json from the table below (kept in one place so it stays valid)."""
import json
import os

VERIF = os.path.dirname(os.path.dirname(os.path.abspath(__file__)))

NOTE = ('Trusted: clang 14 parser/Sema (JSON AST), the AST -> mini-IR lowering and the engines in /verif/uv, the oracle tables '
        'in /verif/uv (tables.py, rfc3986.abnf). Static analysis only: no library code is executed by the deciding step.')

CHECKS = [
 ('C01', 'proof', 'abstract interpretation of the parser source into a finite automaton, explored in product with the RFC 3986 DFA',
  'Exhaustive: the parser source (every function reachable from the parse entry points that sees the input, the state or the URI) is '
  'interpreted over symbol classes and explored completely in product with the 183-state minimal DFA compiled from an ABNF '
  'transcription of RFC 3986 Appendix A. Every reachable final configuration is an obligation: success iff the DFA accepts; '
  'rejections return URI_ERROR_SYNTAX with a non-NULL position at the first character without valid completion (end of input if '
  'merely incomplete; elsewhere only inside the same bracketed literal). Holds for strings of every length because the product is '
  'finite; the abstraction is exact for control or the run aborts (exit 2). quick: single-URI/custom-manager entry for char and '
  'wchar_t plus the other five entry forms for char; thorough: all 12 entry/type combinations.'),
 ('C02', 'other', 'abstract interpretation of the parser source in product with indicator / pebbled automata compiled from the ABNF',
  'For ALL inputs (quick and thorough): every accepting final configuration of the parser automaton agrees with indicator automata '
  'derived from the ABNF on presence vs absence of every component (hence absent vs empty), host kind blocks, absolute-path flag, '
  'segment presence, head/tail pairing; IPv4 recogniser language = IPv4address and its call sites; address bytes for every IPv6 '
  'shape and every digit / octet value (evaluated from source); push shape. Exact boundaries: quick evaluates the parser from source '
  'on ~4000 references covering all component-shape combinations against the positions the pebbled automata assign (an enumerated '
  'family, not all inputs); thorough explores, for ALL inputs, one product per boundary with its pebbled automaton (register exactly '
  'at the grammar position whenever the component is present). Level "other" because the quick tier does not prove the boundaries '
  'for all inputs.'),
 ('C03', 'proof', 'abstract interpretation of the parser source (same automaton as C01) + release-function rules',
  'On the exhaustive E1 exploration: no dereference that is not preceded on its path by a comparison with afterLast answering '
  '"inside" (so nothing at or beyond afterLast is read, look-ahead and IPv6/IPv4 loops included); no store into the input; every '
  'value stored into a text range is NULL, the placeholder or inside [first, afterLast]; every non-success final configuration has '
  'no live block and NULL ip4/ip6/pathHead/pathTail; allocation failure returns URI_ERROR_MALLOC. Plus free-then-NULL and '
  'sink-coverage rules on the release function.'),
 ('C04', 'other', 'evaluation of the recomposer from source on all component-presence combinations (abstract machine, concrete mode)',
  'Conditional on C02. From the recomposer source, for every combination of component presence / emptiness / host kind / flag / '
  'segment shape: output = RFC 3986 5.3 recomposition; all 256 octet and byte renderings exact; component texts are copied opaquely '
  '(memcpy only), so the sample texts stand for arbitrary ones. Not a proof over all URIs by itself: it composes with C01/C02/C11.'),
 ('C05', 'proof', 'static symbolic bounded-write analysis',
  'Every store through the destination buffer of the recomposer is dominated by a capacity comparison with the same length, the '
  'measuring and writing branches add the same linear amounts, failure exits reset the output; all paths, both character types.'),
 ('C06', 'other', 'static path enumeration with provenance terms against the RFC 3986 5.2.2 table',
  'Partial: every success path of the resolution engine is compared with the 5.2.2 table (scheme / authority / path term / query / '
  'fragment provenance under the five RFC predicates incl. the compatibility option), relative-base code, ambiguity guard on every '
  'possibly host-less dot-removal result, exact guard condition, contracts of the copy helpers. Not decided: that merge and '
  'dot-segment removal implement 5.2.3 / 5.2.4 on the segment list.'),
 ('C07', 'other', 'static must-pass-through and fact-flow rules over all producers',
  'Partial: ambiguity guard after every path rebuild of a possibly host-less result (resolution, reference creation, normalisation), '
  'flag reconciliation, both ends of a range written together, fresh terminated nodes become the tail. One known finding '
  '(normalisation leaves "/.//x" unguarded). Not decided: re-read equality for all operation sequences.'),
 ('C08', 'other', 'finite tables evaluated from source (abstract machine, concrete mode) + dominance rules in the engine',
  'Partial: unreserved / hex / case tables on their whole domain, percent-triplet transformer on all hex pairs and adjacent '
  'triplets, mask query true exactly where the transformer changes something, transformer calls dominated by their mask bit and '
  'outMask == NULL, in-place and copying branches apply the same steps in the same order, relative-reference flag. Not decided: '
  'dot-segment removal, idempotence.'),
 ('C09', 'other', 'static frame (effect) rules over the normaliser call graph + path-sensitive fact flow over dot-segment removal',
  'Partial, necessary conditions only: the normaliser never writes the absolute-path flag; scheme / authority presence fields are '
  'cleared only by the revert routine, always followed by a failure return; in relative mode "." and ".." are dropped only under the '
  'established conditions that keep the target ("./a:b", "../x"); the removal loop does not itself empty a relative host-less path '
  '(two known findings: "." and "a/.." become the empty reference). Not decided: resolve(normalize(R), B) = normalize(resolve(R, B)) '
  'for all R, B.'),
 ('C10', 'other', 'static path enumeration: authority predicate coverage and provenance per branch',
  'Partial: the predicate that lets the authority be omitted compares user info, host by kind and port on every "equal" path; '
  'provenance per branch; "./" guard; error codes before allocation; the common-prefix walk never treats the last segment of only '
  'one path as common, nor steps over the source\'s last segment when the base\'s query must not be inherited. Not decided: that the prefix walk and ".." emission invert resolution in general.'),
 ('C11', 'proof', 'static path enumeration with field obligations',
  'Every path of uriEqualsUri / uriCompareRange is enumerated with the primitive tests as atoms; a TRUE return has established '
  'equality of every content field of the URI structure, a FALSE return a difference; NULL cases, symmetry, no writes.'),
 ('C12', 'proof', 'static ownership typing: path-sensitive fact flow + effect analysis',
  'Make-owner duplicates every text range reachable from the URI structure before owner is set; no in-place transformer runs on '
  'borrowed text on any path; documented input parameters have empty write summaries at every depth.'),
 ('C13', 'proof', 'static who-may-call, dominance, effect and typestate rules',
  'Structural conditions that make every allocation history balanced: only the default manager calls libc, manager check first, '
  'same manager everywhere, exact pointers to free, sink coverage by the release functions, free-then-NULL. The balance of concrete '
  'runs is implied, not observed.'),
 ('C14', 'other', 'static typestate and must-pass-through analysis',
  'Partial (structural) decision: unchecked allocations, failure propagation to URI_ERROR_MALLOC, per-function block typestate on '
  'all paths, cleanup-on-failure of producers, revert protocol of in-place operations, list integrity at every return (freed '
  'node unlinked, linked malloc node terminated). Not decided: leak freedom for structures that already escaped into the URI '
  'in general, i.e. the full statement for every k.'),
 ('C15', 'other', 'static symbolic path analysis of the decorated allocator functions',
  'Partial: header offset agreement, overflow guards, realloc decision table, copy length, wiring of the completed manager. Not '
  'decided: behaviour over allocator histories.'),
 ('C16', 'proof', 'static transducer extraction and composition',
  'Escape and unescape loops are turned into finite transducers from source (every character value x flag x state); per-transition '
  'bounds, alphabet, terminator, in-place invariant, decode tables, and the composition unescape(escape(c)) = c.'),
 ('C17', 'other', 'static symbolic bounded-write analysis with callee write summaries and interval guards',
  'Partial: writes of the query composer bounded by the checked estimate, estimate >= escape bound, INT_MAX guards, item count, no silent UriBool/enum conversion of the break option at any call, every copied item text '
  'unescaped with the caller\'s options. Not '
  'decided: compose/dissect round trip.'),
 ('C18', 'other', 'static symbolic bounded-write analysis with an inductive potential invariant; decision tables read off all paths',
  'Partial: every store of the name-to-URI direction ends within the documented 7 + 3n + 1 / 8 + 3n + 1 characters (inductive invariant '
  'over the conversion loop, escape routine through its write summary); prefix and skip tables equal the documented forms; the reverse '
  'direction fits len + 1 - 5 / len + 1 for the forms the property names; escape / unescape option pairing; entry constants. Not decided: '
  'the round trip as a whole, validity of the unescaped first segment of a Windows drive name.'),
 ('C19', 'proof', 'static sibling isomorphism, dimension analysis, conversion lint',
  'Structural statement: every A/W function pair is the same tree modulo the character type; every size is in characters or '
  'converted by sizeof(URI_CHAR) (no bare constant added to a byte count); no signedness-sensitive use of a character value.'),
 ('C20', 'proof', 'static effect analysis + static-storage census',
  'No written global or static, documented inputs never written at any depth on any path, the mask query works on a private copy, '
  'only stateless libc callees.'),
]

NA = [
]


def main():
    checks = []
    for pid, cat, tech, text in CHECKS:
        checks.append({
            'property_id': pid,
            'quick_cmd': './check %s --tier quick' % pid,
            'thorough_cmd': './check %s --tier thorough' % pid,
            'evidence_file': 'evidence/%s.json' % pid,
            'replay_cmd_template': './check %s --replay {path}' % pid,
            'engine': 'uv',
            'level_claimed': {'category': cat, 'text': text, 'design_ref': 'DESIGN.md section 4 %s' % pid},
            'level_note': NOTE,
            'technique': tech,
        })
    claimed = set(c[0] for c in CHECKS)
    man = {
        'version': 1,
        'setup_cmd': 'true',
        'hooks': {
            'guard': 'URIPARSER_VERIF',
            'enable': 'none: every check analyses the unmodified source; no hook exists in /repo',
            'baseline_off_cmd': 'cmake -S /repo -B /repo/_build -G Ninja >/dev/null && cmake --build /repo/_build -j8 >/dev/null && '
                                'ctest --test-dir /repo/_build -j8 --timeout 900',
            'source_commits': [],
            'add_only': True,
        },
        'engines': [{'name': 'uv', 'path': 'uv', 'serves_properties': sorted(claimed),
                     'kind_free_text': 'Python static analyser over clang-14 JSON ASTs of the 15 library units: mini-IR CFG, effect / '
                                       'typestate / symbolic bounded-write engines, parser-automaton extraction (E1) with an ABNF->DFA '
                                       'oracle'}],
        'checks': checks,
        'not_applicable': [{'property_id': p, 'reason': r} for p, r in NA if p not in claimed],
        'notes': 'fix: commits in /repo for genuine defects are listed in known_findings.json under "fixed".',
    }
    with open(os.path.join(VERIF, 'MANIFEST.json'), 'w') as f:
        json.dump(man, f, indent=1)
    import jsonschema  # noqa
    jsonschema.validate(man, json.load(open('/root/.vp/MANIFEST.schema.json')))
    print('MANIFEST.json written: %d checks, %d not applicable' % (len(checks), len(man['not_applicable'])))


if __name__ == '__main__':
    main()
