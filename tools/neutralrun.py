#!/usr/bin/env python3
"""Behaviour-preserving variants (/verif/neutral/<id>/patch.diff): each must build, pass the unedited suite, and
leave the listed checks silent (exit 0).  Exit 1 on a variant is a false alarm of the check, exit 2 a lowering /
idiom gap.  usage: neutralrun.py [--nobuild] [id ...]"""
import os
import re
import subprocess
import sys

VERIF = os.path.dirname(os.path.dirname(os.path.abspath(__file__)))


def sh(cmd, **kw):
    return subprocess.run(cmd, shell=True, capture_output=True, text=True, **kw)


def main():
    args = [a for a in sys.argv[1:] if not a.startswith('--')]
    nobuild = '--nobuild' in sys.argv
    ids = args or sorted(os.listdir(os.path.join(VERIF, 'neutral')))
    for nid in ids:
        d = os.path.join(VERIF, 'neutral', nid)
        if not os.path.isdir(d):
            continue
        readme = open(os.path.join(d, 'README')).read()
        m = re.search(r'Relevant checks: ([C0-9 ]+)', readme)
        checks = m.group(1).split() if m else []
        wt = '/tmp/wt/%s' % nid
        sh('git -C /repo worktree remove --force %s' % wt)
        os.makedirs('/tmp/wt', exist_ok=True)
        sh('git -C /repo worktree add --detach %s HEAD' % wt)
        try:
            r = sh('git -C %s apply %s/patch.diff' % (wt, d))
            if r.returncode != 0:
                print(nid, 'patch does not apply', r.stderr[-200:])
                continue
            status = ''
            if not nobuild:
                r = sh('cmake -G Ninja -B _build -DURIPARSER_BUILD_DOCS=OFF >/dev/null 2>&1 && cmake --build _build -j8 2>&1 | tail -3 && '
                       './_build/testrunner 2>&1 | tail -1', cwd=wt)
                status = 'suite: ' + (r.stdout.strip().splitlines() or ['?'])[-1]
            row = []
            env = dict(os.environ, VERIF_REPO=wt)
            for c in checks:
                rr = sh('python3 -m uv.main %s --tier quick --no-evidence' % c, cwd=VERIF, env=env)
                word = {0: 'silent', 1: 'FALSE-ALARM', 2: 'BROKEN'}.get(rr.returncode, 'rc%d' % rr.returncode)
                row.append('%s=%s' % (c, word))
                if rr.returncode != 0:
                    lines = [l for l in rr.stdout.splitlines() if not l.startswith('VIOLATION') and not l.startswith('KNOWN')]
                    print('      ', c, (lines[0] if lines else rr.stderr[-300:])[:400])
            print(nid, status, ' '.join(row))
            sys.stdout.flush()
        finally:
            sh('git -C /repo worktree remove --force %s' % wt)


if __name__ == '__main__':
    main()
