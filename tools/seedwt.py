#!/usr/bin/env python3
"""Run checks against seeded changes in scratch worktrees (never touching /repo): for each seed id create
/tmp/wt/<id> (git worktree of /repo HEAD), apply patch.diff, run ./check with VERIF_REPO pointing there,
remove the worktree.  usage: seedwt.py [--checks C01,C03] [--tier quick] [--jobs N] seed-id ..."""
import json
import os
import subprocess
import sys
from concurrent.futures import ThreadPoolExecutor

VERIF = os.path.dirname(os.path.dirname(os.path.abspath(__file__)))


def sh(cmd, **kw):
    return subprocess.run(cmd, shell=True, capture_output=True, text=True, **kw)


def one(sid, checks, tier):
    d = os.path.join(VERIF, 'seeded', sid)
    wt = '/tmp/wt/%s' % sid
    sh('git -C /repo worktree remove --force %s' % wt)
    os.makedirs('/tmp/wt', exist_ok=True)
    r = sh('git -C /repo worktree add --detach %s HEAD' % wt)
    if r.returncode != 0:
        return sid, {'error': r.stderr[-300:]}
    row = {}
    try:
        r = sh('git -C %s apply %s/patch.diff' % (wt, d))
        if r.returncode != 0:
            return sid, {'error': 'patch does not apply: ' + r.stderr[-200:]}
        env = dict(os.environ, VERIF_REPO=wt)
        for c in checks or [sid.split('-')[0]]:
            if not os.path.exists(os.path.join(VERIF, 'uv', 'props', c.lower() + '.py')):
                row[c] = ('n/a', '')
                continue
            try:
                rr = sh('python3 -m uv.main %s --tier %s --no-evidence' % (c, tier), cwd=VERIF, env=env, timeout=2400)
            except subprocess.TimeoutExpired:
                row[c] = ('TIMEOUT', '')
                continue
            lines = rr.stdout.splitlines()
            first = ''
            if rr.returncode == 1:
                for l in lines:
                    if not l.startswith('VIOLATION') and not l.startswith('KNOWN') and ': ' in l:
                        first = l[:300]
                        break
            elif rr.returncode == 2:
                first = ' '.join(l for l in lines if 'ANALYSIS-BROKEN' in l)[:300] or rr.stderr[-300:]
            nv = sum(1 for l in lines if l.startswith('VIOLATION'))
            row[c] = ({0: 'pass', 1: 'DETECTED(%d)' % nv, 2: 'BROKEN'}.get(rr.returncode, 'rc%d' % rr.returncode), first)
    finally:
        sh('git -C /repo worktree remove --force %s' % wt)
    return sid, row


def main():
    args = sys.argv[1:]
    checks, tier, jobs, ids = None, 'quick', 2, []
    i = 0
    while i < len(args):
        if args[i] == '--checks':
            checks = args[i + 1].split(',')
            i += 2
        elif args[i] == '--tier':
            tier = args[i + 1]
            i += 2
        elif args[i] == '--jobs':
            jobs = int(args[i + 1])
            i += 2
        else:
            ids.append(args[i])
            i += 1
    if not ids:
        ids = sorted(os.listdir(os.path.join(VERIF, 'seeded')))
    with ThreadPoolExecutor(max_workers=jobs) as ex:
        for sid, row in ex.map(lambda s: one(s, checks, tier), ids):
            print(sid, ' '.join('%s=%s' % (c, v[0]) for c, v in row.items() if c != 'error'), row.get('error', ''))
            for c, v in row.items():
                if c != 'error' and v[1]:
                    print('      ', c, v[1])
            sys.stdout.flush()


if __name__ == '__main__':
    main()
