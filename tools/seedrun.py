#!/usr/bin/env python3
"""Run checks against seeded changes: apply each /verif/seeded/<id>/patch.diff to /repo, run
the named checks (default: the check of the property the seed attacks), undo the patch.
usage: seedrun.py [--all-checks] [--checks C05,C19] [seed-id ...]"""
import json
import os
import subprocess
import sys

VERIF = os.path.dirname(os.path.dirname(os.path.abspath(__file__)))


def sh(cmd, **kw):
    return subprocess.run(cmd, shell=True, capture_output=True, text=True, **kw)


def main():
    args = sys.argv[1:]
    checks = None
    allc = False
    tier = 'quick'
    ids = []
    i = 0
    while i < len(args):
        if args[i] == '--checks':
            checks = args[i + 1].split(',')
            i += 2
        elif args[i] == '--all-checks':
            allc = True
            i += 1
        elif args[i] == '--tier':
            tier = args[i + 1]
            i += 2
        else:
            ids.append(args[i])
            i += 1
    seeded = os.path.join(VERIF, 'seeded')
    if not ids:
        ids = sorted(os.listdir(seeded))
    man = json.load(open(os.path.join(VERIF, 'MANIFEST.json')))
    claimed = [c['property_id'] for c in man['checks']]
    if sh('git -C /repo status --porcelain --untracked-files=no').stdout.strip():
        print('refusing: /repo has local modifications')
        return 2
    results = {}
    for sid in ids:
        d = os.path.join(seeded, sid)
        prop = sid.split('-')[0]
        cs = checks or (claimed if allc else [prop])
        r = sh('git -C /repo apply %s/patch.diff' % d)
        if r.returncode != 0:
            print(sid, 'patch does not apply:', r.stderr.strip()[:200])
            continue
        try:
            row = {}
            for c in cs:
                if not os.path.exists(os.path.join(VERIF, 'uv', 'props', c.lower() + '.py')):
                    row[c] = 'n/a'
                    continue
                rr = sh('./check %s --tier %s' % (c, tier), cwd=VERIF)
                v = [l for l in rr.stdout.splitlines() if l.startswith('VIOLATION')]
                first = ''
                if rr.returncode == 1:
                    for l in rr.stdout.splitlines():
                        if not l.startswith('VIOLATION') and not l.startswith('KNOWN') and ': ' in l:
                            first = l[:230]
                            break
                if rr.returncode == 2:
                    first = [l for l in rr.stdout.splitlines() if 'ANALYSIS-BROKEN' in l][:1]
                row[c] = (rr.returncode, len(v), first)
            results[sid] = row
            print(sid, ' '.join('%s=%s' % (c, ('DETECTED(%d)' % v[1] if v[0] == 1 else ('pass' if v[0] == 0 else 'BROKEN')) if isinstance(v, tuple) else v)
                                for c, v in row.items()))
            for c, v in row.items():
                if isinstance(v, tuple) and v[2]:
                    print('      ', c, v[2])
        finally:
            sh('git -C /repo checkout -- .')
    return 0


if __name__ == '__main__':
    sys.exit(main())
