#!/bin/bash
# usage: verify_seed.sh <seed-dir> <seed-id>
# Confirms a seeded change independently in a fresh scratch worktree of /repo:
#   clean tree: demo exits 0; patched tree: builds, the unedited suite passes, demo exits non-zero.
# On success copies patch.diff, the demo and meta.json (augmented) to /verif/seeded/<seed-id>/.
set -u
SRC="$1"; ID="$2"
WT=/tmp/vs_$ID
VERIF="$(cd "$(dirname "$0")/.." && pwd)"
rm -rf "$WT"; git -C /repo worktree prune
git -C /repo worktree add --detach "$WT" HEAD >/dev/null 2>&1 || { echo "$ID: worktree failed"; exit 2; }
cleanup() { git -C /repo worktree remove --force "$WT" >/dev/null 2>&1; rm -rf "$WT"; }
trap cleanup EXIT
cd "$WT" || exit 2
demo=$(ls "$SRC"/demo.c "$SRC"/demo.cpp 2>/dev/null | head -1)
[ -n "$demo" ] || { echo "$ID: no demo"; exit 2; }
build() { cmake -G Ninja -B _build -DCMAKE_BUILD_TYPE=RelWithDebInfo -DURIPARSER_BUILD_DOCS=OFF >/dev/null 2>&1 && cmake --build _build -j4 >/dev/null 2>&1; }
mkdemo() {
  case "$demo" in
    *.cpp) c++ -I"$WT/include" "$demo" -o "$WT/_build/demo_$1" -L"$WT/_build" -luriparser -Wl,-rpath,"$WT/_build" 2>/dev/null;;
    *) cc -I"$WT/include" "$demo" -o "$WT/_build/demo_$1" -L"$WT/_build" -luriparser -Wl,-rpath,"$WT/_build" 2>/dev/null;;
  esac
}
build || { echo "$ID: clean build failed"; exit 2; }
mkdemo clean || { echo "$ID: demo does not compile"; exit 2; }
timeout 120 "$WT/_build/demo_clean" >/dev/null 2>&1; rc_clean=$?
git apply "$SRC/patch.diff" || { echo "$ID: patch does not apply"; exit 2; }
build || { echo "$ID: patched build failed"; exit 2; }
if ctest --test-dir _build -j4 >/dev/null 2>&1; then suite=pass; else suite=FAIL; fi
mkdemo patched || { echo "$ID: demo does not compile (patched)"; exit 2; }
timeout 120 "$WT/_build/demo_patched" >/tmp/vs_$ID.out 2>&1; rc_patched=$?
echo "$ID: clean_demo_rc=$rc_clean suite=$suite patched_demo_rc=$rc_patched"
if [ "$rc_clean" = 0 ] && [ "$suite" = pass ] && [ "$rc_patched" != 0 ]; then
  mkdir -p "$VERIF/seeded/$ID"
  cp "$SRC/patch.diff" "$demo" "$VERIF/seeded/$ID/"
  python3 - "$SRC/meta.json" "$VERIF/seeded/$ID/meta.json" "$ID" "$rc_patched" <<'PY'
import json,sys
src,dst,sid,rc=sys.argv[1:5]
try: m=json.load(open(src))
except Exception: m={}
m['id']=sid
m['confirmed']={'by':'tools/verify_seed.sh in a fresh scratch worktree of /repo','clean_demo_exit':0,'suite_with_patch':'110 gtest cases pass (ctest)','patched_demo_exit':int(rc),
  'ran':['cmake -G Ninja -B _build && cmake --build _build','cc demo.c -luriparser && ./demo (clean: exit 0)','git apply patch.diff && rebuild','ctest --test-dir _build (pass)','./demo (patched: non-zero)']}
json.dump(m,open(dst,'w'),indent=1)
PY
  echo "$ID: KEPT"
else
  echo "$ID: REJECTED"; head -5 /tmp/vs_$ID.out
fi
rm -f /tmp/vs_$ID.out
