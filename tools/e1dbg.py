"""debug driver: capped E1 exploration with a histogram of where abstract states concentrate"""
import sys, time, collections
sys.path.insert(0, '/verif')
sys.setrecursionlimit(20000)
from uv.main import Ctx
from uv.abnf import rfc3986_dfa
import uv.e1explore as X
from uv.e1explore import explore, URI, STATE, ERRPOS, witness
from uv.e1monitor import DfaMonitor
from uv.e1 import *
ctx = Ctx()
dfa, info = rfc3986_dfa()
suf = 'A'
def setup(m, st):
    args = [('a', URI, ()), ('p', 0), END, ('a', ERRPOS, ()), MEM]
    m.push_frame(st, 'uriParseSingleUriExMm' + suf, args, None, False, None)
LIMIT = int(sys.argv[1])
t0 = time.time()
try:
    res = explore(ctx, suf, 'uriParseSingleUriExMm' + suf, setup, DfaMonitor(dfa), dfa.class_of, log=print, max_states=LIMIT)
    print('done', res.states, 'finals', len(res.finals), 'findings', len(res.findings), '%.1fs' % (time.time() - t0))
    for f, nid, m in res.findings[:10]:
        print('FINDING', f.rule, f.key, fmt_loc(f.loc), f.detail, witness(res, nid, res.alphabet))
except Exception as e:
    print('stopped', repr(e)[:300], '%.1fs' % (time.time() - t0))
seen = X.DEBUG_SEEN
h = collections.Counter()
for (k, m) in seen:
    frames = k[0]
    if not frames: continue
    h[(frames[-1][0], len(frames))] += 1
for x, n in h.most_common(15): print(n, x)
top = h.most_common(1)[0][0]
vals = collections.defaultdict(collections.Counter)
fr = collections.Counter()
for (k, m) in seen:
    if k[0] and (k[0][-1][0], len(k[0])) == top:
        fr[tuple(f[:3] for f in k[0])] += 1
        for kk, v in k[1]:
            vals[kk][v] += 1
        vals['win'][k[2]] += 1
        vals['heap'][k[4]] += 1
        vals['mon'][m] += 1
for f, n in fr.most_common(8): print(n, f)
for kk, c in sorted(vals.items(), key=lambda x: -len(x[1]))[:25]:
    print(len(c), kk, list(c.most_common(4)))
